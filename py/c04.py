"""C04 -- failed tasks are retried, errors surface, and the context stays usable.

case = (max_retries, mode, jobs)
  mode : 0 = DummyPool (local), 1 = ThreadPoolExecutor with a start barrier (every task has begun
         its first attempt before any task proceeds: all attempt logs are deterministic),
         2 = ThreadPoolExecutor free-running (logs of the partitions after the first exhausted
         partition depend on the executor's cancellation race and are reported as a legality bit)
  job  = (action, style, pre, post, parts)      -- the jobs run one after the other on ONE Context
  part = (data, plan, nest)
         plan = outcomes of attempts 1,2,...: None (success) or (exception_class, position);
                attempts beyond the plan succeed
         nest = operations the task performs on its own context at the start of every attempt:
                (kind, caught) with kind 0 = create a dataset, 1 = run an action

The injected stage is `mapPartitionsWithIndex(faulty)`; `faulty` keeps the attempt log
(attempt number, outcome of every nested operation, elements pulled from upstream, how the attempt
ended).  The implementation result is, per job, (result, logs): result = (0, value) or
(1, exception_class, exception_args); logs = one list of attempt records per partition."""
import glob
import itertools
import json
import os
import threading
from concurrent.futures import ThreadPoolExecutor

import pysparkling
from common.coqlit import Err, uncanon
from pysparkling.exceptions import ContextIsLockedException

ID = 'C04'
KERNELS = ['Gen/Retry.v: run_task_kernel', 'Gen/Retry.v: runjob_lock_kernel', 'Gen/Retry.v: rdd_init_kernel']
SHARD = 150
RULE = ('cases (max_retries, executor, job sequence on one context); every job has 1-4 partitions, each with data, '
        'a fault plan (exception class and position before/mid/after for every failing attempt, 0..max_retries+1 of them) '
        'and nested operations (create a dataset / run an action from inside the task, caught or propagating); '
        'exhaustive over the number of failing attempts per partition for <=3 partitions and max_retries 1..4 on all '
        'three executors, each followed by a fresh job; lazy actions take(n)/first/isEmpty; random job sequences of 1-3 '
        'jobs (max_retries 1..6); 9 whole-partition actions, generator and eager task functions; non-trivial = some attempt fails or some nested operation is attempted; distinct by canonical JSON')
ASSUMPTIONS = [
    'max_retries >= 1 (generated: 1..6), catch_exceptions=False, retry_wait=0 (with max_retries <= 0 or catch_exceptions=True _run_task recurses without bound on a permanent failure)',
    'actions that evaluate whole partitions: collect count sum reduce fold aggregate foreach foreachPartition; the lazy '
    'take/first/isEmpty are modelled separately (no retry for a generator task function); toLocalIterator is not covered',
    'pooled executor in the model correspondence = concurrent.futures.ThreadPoolExecutor; worker processes '
    '(multiprocessing.Pool + cloudpickle) are exercised by the oracle only (extra_checks), with at most one exhausting '
    'partition per job (with several, Pool.map reports whichever fails first in time)',
    'on the thread pool, nested operations are only generated in partitions up to the first exhausted one: tasks of '
    'later partitions may still be running after the failed job has released its lock (executor race, not modelled)',
    'free-running thread pool: attempt logs of partitions after the first exhausted one are only checked to be '
    'empty (cancelled) or complete',
]
TRUSTED = ['translator/kernels/c04.py (run_task_kernel, runjob_lock_kernel, rdd_init_kernel)',
           'the injected task function of py/c04.py (keeps the attempt log; a Gallina twin is in Model/Retry.v)']


class TaskFault(Exception):
    pass


EXC = [ValueError, KeyError, TaskFault]
LOCKED = 3
FUNCS = [None, lambda x: x + 1, lambda x: x * 2, lambda x: -x]
PYF = [lambda x: x, lambda x: x + 1, lambda x: x * 2, lambda x: -x]
N_ACTIONS = 9            # actions 0..8 evaluate whole partitions
ACTION_NAMES = ['collect', 'count', 'sum', 'reduce', 'fold', 'aggregate', 'foreach', 'foreachPartition', 'reduce-max',
                'take(0)', 'take(1)', 'take(2)', 'take(3)', 'take(4)', 'take(5)', 'first', 'isEmpty']
LAZY = range(9, 17)      # the lazily evaluated actions: take(n) for n = action - 9, first, isEmpty
NEEDS_DATA = (3, 8)
STOP = 5
SUSPENDED = -2


def exc_code(e):
    if type(e) in EXC:
        return EXC.index(type(e))
    if type(e) is ContextIsLockedException:
        return LOCKED
    if type(e) is StopIteration:
        return STOP
    return type(e).__name__


def do_action(action, rdd):
    if action == 0:
        return rdd.collect()
    if action == 1:
        return rdd.count()
    if action == 2:
        return rdd.sum()
    if action == 3:
        return rdd.reduce(lambda a, b: a + b)
    if action == 4:
        return rdd.fold(0, lambda a, b: a + b)
    if action == 5:
        return rdd.aggregate((0, 0), lambda acc, x: (acc[0] + x, acc[1] + 1), lambda a, b: (a[0] + b[0], a[1] + b[1]))
    if action == 6:
        sink = []
        return rdd.foreach(sink.append)
    if action == 7:
        sink = []
        return rdd.foreachPartition(sink.extend)
    if action == 8:
        return rdd.reduce(max)
    if 9 <= action <= 14:
        return rdd.take(action - 9)
    if action == 15:
        return rdd.first()
    if action == 16:
        return rdd.isEmpty()
    raise ValueError(action)


def plain_result(job):
    """The fault-free result, computed on plain lists."""
    action, _style, pre, post, parts = job
    ps = [[PYF[post](PYF[pre](x)) for x in p[0]] for p in parts]
    flat = [x for p in ps for x in p]
    if action == 0:
        return flat
    if action == 1:
        return len(flat)
    if action in (2, 3, 4):
        return sum(flat)
    if action == 5:
        return (sum(flat), len(flat))
    if action in (6, 7):
        return None
    if action == 8:
        return max(flat)
    if 9 <= action <= 14:
        return flat[:action - 9]
    if action == 15:
        return flat[0] if flat else Err('StopIteration')
    return not flat


def n_failing(maxr, part):
    """Number of leading failing attempts of a partition (a propagating nested refusal fails every attempt)."""
    _data, plan, nest = part
    if any(not caught for _k, caught in nest):
        return maxr + 1
    n = 0
    for f in plan:
        if f is None:
            break
        n += 1
    return n


def first_exhausted(maxr, parts):
    for i, p in enumerate(parts):
        if n_failing(maxr, p) >= maxr:
            return i
    return None


def run_job(sc, maxr, mode, jidx, job):
    action, style, pre, post, parts = job
    n = len(parts)
    log = [[] for _ in parts]
    barrier = threading.Barrier(n) if mode == 1 and action not in LAZY else None
    holder = {}

    def body(idx, it):
        _data, plan, nest = parts[idx]
        a = len(log[idx]) + 1
        rec = [a, [], [], None]
        log[idx].append(rec)
        try:
            for nkind, caught in nest:
                try:
                    if nkind == 0:
                        sc.parallelize([7, 8, 9], 2)
                    else:
                        holder['other'].count()
                    rec[1].append(1)
                except ContextIsLockedException:
                    rec[1].append(0)
                    if not caught:
                        rec[3] = LOCKED
                        raise
        finally:
            if barrier is not None and a == 1:
                barrier.wait(timeout=600)
        it = iter(it)
        f = plan[a - 1] if a - 1 < len(plan) else None
        if f is None:
            for x in it:
                rec[2].append(x)
                yield x
            rec[3] = -1
            return
        exc, pos = f
        size = len(parts[idx][0])
        k = 0 if pos == 0 else size // 2 if pos == 1 else size
        for _ in range(k):
            x = next(it)
            rec[2].append(x)
            yield x
        rec[3] = exc
        raise EXC[exc](jidx, idx, a)

    def eager(idx, it):
        return list(body(idx, it))

    try:
        holder['other'] = sc._parallelize_partitions([[1, 2], [3]])  # pylint: disable=protected-access
        rdd = sc._parallelize_partitions([list(p[0]) for p in parts])  # pylint: disable=protected-access
        if pre:
            rdd = rdd.map(FUNCS[pre])
        rdd = rdd.mapPartitionsWithIndex(eager if style else body)
        if post:
            rdd = rdd.map(FUNCS[post])
        res = (0, do_action(action, rdd))
    except Exception as e:  # pylint: disable=broad-except
        args = e.args if all(isinstance(x, int) for x in e.args) else (repr(e.args),)
        res = (1, exc_code(e), tuple(args))
    return res, log


def legal_log(maxr, part, recs):
    """Structural legality of one partition's attempt log (used for the racy partitions of mode 2)."""
    if not recs:
        return True
    if [r[0] for r in recs] != list(range(1, len(recs) + 1)) or len(recs) > maxr:
        return False
    return recs[-1][3] == -1 or len(recs) == maxr


def impl(case):
    maxr, mode, jobs = case
    pool = ThreadPoolExecutor(8) if mode else None
    sc = pysparkling.Context(pool=pool, max_retries=maxr) if pool else pysparkling.Context(max_retries=maxr)
    raw = []
    try:
        for jidx, job in enumerate(jobs):
            raw.append(run_job(sc, maxr, mode, jidx, job))
    finally:
        if pool:
            pool.shutdown(wait=True)
    out = []
    for job, (res, log) in zip(jobs, raw):
        parts = job[4]
        fe = first_exhausted(maxr, parts)
        logs = []
        for i, recs in enumerate(log):
            if mode == 2 and fe is not None and i > fe and job[0] not in LAZY:
                logs.append(1 if legal_log(maxr, parts[i], recs) else 0)
            else:
                logs.append([(r[0], list(r[1]), list(r[2]), SUSPENDED if r[3] is None else r[3]) for r in recs])
        out.append((res, logs))
    return out


# ------------------------------------------------------------------ oracle (implementation only)

def oracle(case, result):
    maxr, mode, jobs = case
    if not isinstance(result, list) or len(result) != len(jobs):
        return ('harness:result-shape', repr(result)[:300])
    for jidx, (job, (res, logs)) in enumerate(zip(jobs, result)):
        o = oracle_job(maxr, mode, jidx, job, res, logs)
        if o is not None:
            sig, msg = o
            if jidx > 0:
                sig = 'follow-up:' + sig
            return (sig, f'job {jidx}: {msg}')
    return None


def oracle_lazy(maxr, jidx, job, res, logs):
    """take / first / isEmpty: they return the plain result or surface an error; a generator task function
    is never retried (its first error reaches the caller directly)."""
    action, style, _pre, _post, parts = job
    name = ACTION_NAMES[action]
    for i, recs in enumerate(logs):
        for r in recs:
            if any(o != 0 for o in r[1]):
                return ('nested:accepted', f'partition {i} attempt {r[0]}: nested operation outcomes {r[1]} (1 = accepted)')
        if len(recs) > (maxr if style else 1):
            return ('lazy-action:retried', f'{name}: partition {i} was attempted {len(recs)} times')
    want = plain_result(job)
    if res[0] == 0:
        if isinstance(want, Err) or res[1] != want:
            return (f'lazy-action:result:{name}', f'expected {want!r}, got {res!r}')
        return None
    if res[1] == LOCKED and not any(not c for p in parts for _k, c in p[2]):
        return ('runJob:locked', f'{name}: ContextIsLockedException, expected {want!r}')
    if res[1] == STOP:
        if not isinstance(want, Err):
            return (f'lazy-action:result:{name}', f'expected {want!r}, got StopIteration')
        return None
    if not any(p[1] and p[1][0] is not None for p in parts) and not any(not c for p in parts for _k, c in p[2]):
        return (f'lazy-action:result:{name}', f'no attempt fails, expected {want!r}, got {res!r}')
    if not style and res[1] != LOCKED and res[2][2:] != (1,):
        return ('lazy-action:retried', f'{name}: error {res!r} does not come from a first attempt')
    return None


def oracle_job(maxr, mode, jidx, job, res, logs):
    action, _style, pre, _post, parts = job
    if action in LAZY:
        return oracle_lazy(maxr, jidx, job, res, logs)
    name = ACTION_NAMES[action]
    fe = first_exhausted(maxr, parts)
    # nested operations are refused
    for i, recs in enumerate(logs):
        if isinstance(recs, list):
            for r in recs:
                if any(o != 0 for o in r[1]):
                    return ('nested:accepted', f'partition {i} attempt {r[0]}: nested operation outcomes {r[1]} (1 = accepted)')
    # result
    if fe is None:
        want = (0, plain_result(job))
        if res != want:
            if res[0] == 1 and res[1] == LOCKED:
                return ('runJob:locked', f'{name}: ContextIsLockedException, expected {want[1]!r}')
            return (f'runJob:result:{name}', f'every partition succeeds within {maxr} attempts, expected {want[1]!r}, got {res!r}')
    else:
        _d, plan, nest = parts[fe]
        if any(not caught for _k, caught in nest):
            want = (1, LOCKED, ())
        else:
            want = (1, plan[maxr - 1][0], (jidx, fe, maxr))
        if res != want:
            if res[0] == 1 and res[1] == LOCKED:
                return ('runJob:locked', f'{name}: ContextIsLockedException, expected {want!r}')
            return ('run_task:exception', f'{name}: partition {fe} fails {maxr} times, expected {want!r}, got {res!r}')
    # attempt logs: from scratch, exactly the right number of attempts
    for i, recs in enumerate(logs):
        if not isinstance(recs, list):
            if recs != 1:
                return ('run_task:attempt-log', f'partition {i}: log neither empty nor complete')
            continue
        data = [PYF[pre](x) for x in parts[i][0]]
        nf = n_failing(maxr, parts[i])
        if fe is not None and i > fe and mode == 0:
            want_n = 0
        else:
            want_n = min(nf + 1, maxr)
        if len(recs) != want_n:
            return ('run_task:attempts', f'partition {i}: {len(recs)} attempts, expected {want_n} (max_retries={maxr}, failing={nf})')
        for k, r in enumerate(recs):
            if r[0] != k + 1:
                return ('run_task:attempt-number', f'partition {i}: attempt numbers {[x[0] for x in recs]}')
            if r[2] != data[:len(r[2])]:
                return ('run_task:from-scratch', f'partition {i} attempt {r[0]} saw {r[2]}, not a prefix of {data}')
            if r[3] == -1 and r[2] != data:
                return ('run_task:from-scratch', f'partition {i} attempt {r[0]} succeeded on {r[2]}, partition is {data}')
        if recs and nf < maxr and recs[-1][3] != -1:
            return ('run_task:attempts', f'partition {i}: last attempt did not succeed')
    return None


def nontrivial(case, result):
    maxr, _mode, jobs = case
    return any(n_failing(maxr, p) > 0 or p[2] for j in jobs for p in j[4])


def kind(case):
    maxr, mode, jobs = case
    fe = [first_exhausted(maxr, j[4]) is not None for j in jobs]
    nest = any(p[2] for j in jobs for p in j[4])
    lazy = any(j[0] in LAZY for j in jobs)
    return (f"{['local', 'pool-barrier', 'pool-free'][mode]}/{'fail' if any(fe) else 'ok'}"
            f"{'/nested' if nest else ''}{'/lazy-action' if lazy else ''}")


# ------------------------------------------------------------------ generation

def gen_data(rng, n=None):
    n = rng.choice([0, 1, 1, 2, 3, 4, 5]) if n is None else n
    return [rng.randint(-9, 9) for _ in range(n)]


def gen_fault(rng):
    return (rng.randrange(3), rng.randrange(3))


def fix_job(rng, maxr, mode, job):
    """Enforce the generator restrictions (ASSUMPTIONS): data for reduce, no racy nested operations."""
    action, style, pre, post, parts = job
    parts = [list(p) for p in parts]
    if action in NEEDS_DATA and not any(p[0] for p in parts):
        parts[0][0] = gen_data(rng, 2)
    if mode:
        fe = first_exhausted(maxr, [tuple(p) for p in parts])
        if fe is not None:
            for i in range(fe + 1, len(parts)):
                parts[i][2] = []
    return (action, style, pre, post, [tuple(p) for p in parts])


def simple_job(rng):
    n = rng.randint(1, 3)
    return (rng.randrange(N_ACTIONS), rng.randrange(2), rng.randrange(4), rng.randrange(4),
            [(gen_data(rng, rng.randint(1, 3)), [], []) for _ in range(n)])


NESTS = [[], [(0, 0)], [(1, 0)], [(0, 1)], [(1, 1)], [(1, 1), (0, 1)], [(1, 1), (0, 0)], [(0, 1), (1, 0)], [(0, 1), (0, 1), (1, 1)]]


def random_job(rng, maxr, mode, nest_p=0.25):
    n = rng.randint(1, 4)
    parts = []
    for _ in range(n):
        nf = rng.choice([0, 0, 0, 1, 1, 2, maxr - 1, maxr, maxr + 1])
        nf = max(0, min(nf, maxr + 1))
        plan = [gen_fault(rng) for _ in range(nf)]
        if rng.random() < 0.15:
            plan = plan + [None] + [gen_fault(rng) for _ in range(rng.randint(0, 2))]
        nest = list(rng.choice(NESTS[1:])) if rng.random() < nest_p else []
        parts.append((gen_data(rng), plan, nest))
    job = (rng.randrange(N_ACTIONS), rng.randrange(2), rng.randrange(4), rng.randrange(4), parts)
    return fix_job(rng, maxr, mode, job)


def corpus():
    d = os.path.join(os.environ.get('VERIF_ROOT', '/verif'), 'corpus', ID)
    out = []
    for path in sorted(glob.glob(os.path.join(d, '*.json'))):
        with open(path) as f:
            out.append(uncanon(json.load(f)['case']))
    return out


def generate(rng, tier):
    quick = tier == 'quick'
    cases = corpus()
    # 1. exhaustive over the number of failing attempts per partition, every executor, followed by a fresh job
    for maxr in (1, 2, 3, 4):
        for n in (1, 2, 3):
            for nfs in itertools.product(range(maxr + 1), repeat=n):
                for mode in (0, 1, 2):
                    if quick and maxr == 4 and n == 3 and rng.random() < 0.6:
                        continue
                    parts = [(gen_data(rng), [gen_fault(rng) for _ in range(nf)], []) for nf in nfs]
                    job = fix_job(rng, maxr, mode, (rng.randrange(N_ACTIONS), rng.randrange(2), rng.randrange(4),
                                                    rng.randrange(4), parts))
                    cases.append((maxr, mode, [job, simple_job(rng)]))
    # 2. every position x exception class x style on the exhausting attempt, one partition
    for maxr in (1, 2, 3):
        for pos in range(3):
            for exc in range(3):
                for style in range(2):
                    for mode in (0, 1):
                        plan = [gen_fault(rng) for _ in range(maxr - 1)] + [(exc, pos)]
                        job = (rng.randrange(N_ACTIONS), style, 0, rng.randrange(4), [(gen_data(rng, 3), plan, [])])
                        cases.append((maxr, mode, [fix_job(rng, maxr, mode, job), simple_job(rng)]))
    # 3. nested operations: every pattern, in the first / a later partition, with and without faults
    for maxr in (1, 2, 3):
        for nest in NESTS[1:]:
            for mode in (0, 1, 2):
                for where in (0, 1):
                    parts = [(gen_data(rng, 2), [gen_fault(rng) for _ in range(rng.randint(0, maxr - 1))], []) for _ in range(2)]
                    parts[where] = (parts[where][0], parts[where][1], list(nest))
                    job = fix_job(rng, maxr, mode, (rng.randrange(N_ACTIONS), rng.randrange(2), 0, 0, parts))
                    cases.append((maxr, mode, [job, simple_job(rng)]))
    # 4. every action through a permanent failure and a recovered failure
    for action in range(N_ACTIONS):
        for mode in (0, 1):
            for nf in (1, 2):
                parts = [(gen_data(rng, 3), [], []), (gen_data(rng, 2), [gen_fault(rng) for _ in range(nf)], [])]
                cases.append((2, mode, [fix_job(rng, 2, mode, (action, rng.randrange(2), 1, 2, parts)), simple_job(rng)]))
    # 5. lazily evaluated actions (take(n), first, isEmpty): generator and eager task functions, faults in
    #    the first attempt of the first / a later partition, on every executor, followed by a fresh job
    for action in LAZY:
        for style in (0, 1):
            for mode in (0, 1, 2):
                for _ in range(2 if quick else 8):
                    maxr = rng.randint(1, 3)
                    parts = []
                    for _i in range(rng.randint(1, 3)):
                        plan = [gen_fault(rng) for _ in range(rng.choice([0, 0, 1, 1, maxr, maxr + 1]))]
                        nest = list(rng.choice(NESTS[1:])) if rng.random() < 0.2 else []
                        parts.append((gen_data(rng), plan, nest))
                    cases.append((maxr, mode, [(action, style, rng.randrange(4), rng.randrange(4), parts), simple_job(rng)]))
    # 6. random job sequences
    for _ in range(800 if quick else 15000):
        maxr = rng.choice([1, 2, 3, 4, 1, 2, 3, 4, 1, 2, 3, 4, 5, 6])
        mode = rng.choice([0, 0, 1, 2])
        jobs = [random_job(rng, maxr, mode) for _ in range(rng.choice([1, 2, 2, 3]))]
        if rng.random() < 0.2:
            k = rng.randrange(len(jobs))
            jobs[k] = (rng.choice(LAZY),) + jobs[k][1:]
        cases.append((maxr, mode, jobs))
    return cases


# ------------------------------------------------------------------ process pool (oracle only)

PROC_STATS = {'process_pool_cases': 0, 'process_pool_failing_jobs': 0, 'process_pool_nested': 0}


def run_job_procs(sc, workdir, tag, jidx, job):
    """Like run_job, for a pool of worker PROCESSES: the task function (a closure holding the context, pickled
    with cloudpickle while the job lock is held) keeps its attempt log in one file per partition."""
    action, style, pre, post, parts = job
    holder = {}

    def path(idx):
        return os.path.join(workdir, f'proc_{tag}_{jidx}_{idx}.log')

    def body(idx, it):
        _data, plan, nest = parts[idx]
        try:
            with open(path(idx)) as f:
                a = len(f.readlines()) + 1
        except FileNotFoundError:
            a = 1
        rec = [a, [], [], None]

        def done():
            with open(path(idx), 'a') as f:
                f.write(json.dumps(rec) + '\n')
        for nkind, caught in nest:
            try:
                if nkind == 0:
                    sc.parallelize([7, 8, 9], 2)
                else:
                    holder['other'].count()
                rec[1].append(1)
            except ContextIsLockedException:
                rec[1].append(0)
                if not caught:
                    rec[3] = LOCKED
                    done()
                    raise
        it = iter(it)
        f = plan[a - 1] if a - 1 < len(plan) else None
        if f is None:
            for x in it:
                rec[2].append(x)
                yield x
            rec[3] = -1
            done()
            return
        exc, pos = f
        size = len(parts[idx][0])
        k = 0 if pos == 0 else size // 2 if pos == 1 else size
        for _ in range(k):
            x = next(it)
            rec[2].append(x)
            yield x
        rec[3] = exc
        done()
        raise EXC[exc](jidx, idx, a)

    def eager(idx, it):
        return list(body(idx, it))

    try:
        holder['other'] = sc._parallelize_partitions([[1, 2], [3]])  # pylint: disable=protected-access
        rdd = sc._parallelize_partitions([list(p[0]) for p in parts])  # pylint: disable=protected-access
        if pre:
            rdd = rdd.map(FUNCS[pre])
        rdd = rdd.mapPartitionsWithIndex(eager if style else body)
        if post:
            rdd = rdd.map(FUNCS[post])
        res = (0, do_action(action, rdd))
    except Exception as e:  # pylint: disable=broad-except
        args = e.args if all(isinstance(x, int) for x in e.args) else (repr(e.args),)
        res = (1, exc_code(e), tuple(args))
    logs = []
    for idx in range(len(parts)):
        try:
            with open(path(idx)) as f:
                logs.append([tuple(json.loads(line)) for line in f])
        except FileNotFoundError:
            logs.append([])
    return res, logs


def extra_checks(rng, tier, workdir):
    """Worker processes (multiprocessing.Pool + cloudpickle): the same statement, judged by the oracle only.
    At most one partition per job exhausts (with several, Pool.map reports whichever fails first in time)."""
    import multiprocessing
    import pickle

    import cloudpickle
    n = 150 if tier == 'quick' else 1500
    mp = multiprocessing.get_context('fork')
    with mp.Pool(3) as pool:
        for k in range(n):
            maxr = rng.randint(1, 3)
            jobs = []
            for _ in range(2):
                job = random_job(rng, maxr, 0, nest_p=0.3)
                action, style, pre, post, parts = job
                seen = False
                fixed = []
                for data, plan, nest in parts:
                    if n_failing(maxr, (data, plan, nest)) >= maxr:
                        if seen:
                            plan, nest = [], [x for x in nest if x[1]]
                        seen = True
                    fixed.append((data, plan, nest))
                jobs.append((action, style, pre, post, fixed))
            jobs.append(simple_job(rng))
            case = (maxr, 1, jobs)
            sc = pysparkling.Context(pool=pool, serializer=cloudpickle.dumps, deserializer=pickle.loads, max_retries=maxr)
            result = [run_job_procs(sc, workdir, k, jidx, job) for jidx, job in enumerate(jobs)]
            PROC_STATS['process_pool_cases'] += 1
            PROC_STATS['process_pool_failing_jobs'] += sum(1 for r, _l in result if r[0] == 1)
            PROC_STATS['process_pool_nested'] += sum(1 for j in jobs for p in j[4] if p[2])
            o = oracle(case, result)
            if o is not None:
                yield ('process-pool:' + o[0], o[1], repr(result)[:600], case)


def extra_evidence():
    return dict(PROC_STATS)


def valid(case):
    """The generator restrictions (ASSUMPTIONS) -- shrinking must not leave them."""
    maxr, mode, jobs = case
    if not (1 <= maxr and mode in (0, 1, 2) and jobs):
        return False
    for action, _style, _pre, _post, parts in jobs:
        if not parts:
            return False
        if action in NEEDS_DATA and not any(p[0] for p in parts):
            return False
        if mode and action not in LAZY:
            fe = first_exhausted(maxr, parts)
            if fe is not None and any(p[2] for p in parts[fe + 1:]):
                return False
    return True


def shrink_candidates(case):
    for c in _shrink_candidates(case):
        if valid(c):
            yield c


def _shrink_candidates(case):
    maxr, mode, jobs = case
    if len(jobs) > 1:
        for i in range(len(jobs)):
            yield (maxr, mode, jobs[:i] + jobs[i + 1:])
    for ji, job in enumerate(jobs):
        action, style, pre, post, parts = job

        def rebuilt(new_job, ji=ji):
            return (maxr, mode, jobs[:ji] + [new_job] + jobs[ji + 1:])
        if len(parts) > 1:
            for i in range(len(parts)):
                ps = parts[:i] + parts[i + 1:]
                if action in NEEDS_DATA and not any(p[0] for p in ps):
                    continue
                yield rebuilt((action, style, pre, post, ps))
        if pre or post:
            yield rebuilt((action, style, 0, 0, parts))
        if action != 0:
            yield rebuilt((0, style, pre, post, parts))
        for i, (data, plan, nest) in enumerate(parts):
            if nest:
                yield rebuilt((action, style, pre, post, parts[:i] + [(data, plan, nest[:-1])] + parts[i + 1:]))
            if len(data) > 1 and not (action in NEEDS_DATA):
                yield rebuilt((action, style, pre, post, parts[:i] + [(data[:-1], plan, nest)] + parts[i + 1:]))
    if mode:
        yield (maxr, 0, jobs)
