"""C04 -- failed tasks are retried, errors surface, and the context stays usable.

case = (max_retries, mode, jobs)
  mode : 0 = DummyPool (local), 1 = ThreadPoolExecutor with a start barrier (every task has begun
         its first attempt before any task proceeds: all attempt logs are deterministic),
         2 = ThreadPoolExecutor free-running (logs of the partitions after the first exhausted
         partition depend on the executor's cancellation race and are reported as a legality bit)
  job  = (action, style, pre_ops, post_ops, parts, reuse)   -- the jobs run one after the other on ONE Context
         the dataset is  parallelize(parts) . pre_ops . mapPartitionsWithIndex(faulty) . post_ops ; ops come from
         OPS (map / filter / flatMap / mapPartitions / glom / persist / cache / mapValues / sample ...);
         reuse = 1: the job runs on the dataset OBJECT of the previous job (same injected function, same
         persisted datasets) extended by post_ops -- parts/pre_ops/style are then those of the previous job
  part = (data, plan, nest)
         plan = outcomes of calls 1,2,... of the injected function on that partition: None (success) or
                (exception_class, position); calls beyond the plan succeed
         nest = operations the task performs on its own context at the start of every attempt:
                (kind, caught); kind indexes NEST_OPS: < 40 creates a dataset, >= 40 runs an action

`faulty` keeps the attempt log (call number, outcome of every nested operation, elements pulled from
upstream, how the attempt ended).  The implementation result is, per job, (result, logs): result =
(0, value) or (1, exception_class, exception_args); logs = one list of attempt records per partition."""
import atexit
import glob
import itertools
import json
import os
import shutil
import tempfile
import threading
from concurrent.futures import ThreadPoolExecutor

import pysparkling
from common.coqlit import Err, canon, uncanon
from pysparkling.exceptions import ContextIsLockedException

ID = 'C04'
KERNELS = ['Gen/Retry.v: run_task_kernel', 'Gen/Retry.v: runjob_lock_kernel', 'Gen/Retry.v: rdd_init_kernel',
           'Gen/Retry.v: tolocaliterator_kernel']
SHARD = 150
RULE = ('cases (max_retries, executor, job sequence on one context); every job has 1-4 partitions, each with data, '
        'a fault plan (exception class and position before/mid/after for every failing call, 0..max_retries+1 of them) '
        'and nested operations (every way of creating a dataset / running an action from inside the task, caught or '
        'propagating); lineage = ops below and above the injected stage (map filter flatMap mapPartitions glom persist '
        'cache mapValues sample); 50 job-triggering public methods (every caller of runJob/collect/toLocalIterator in '
        'rdd.py that fits integer data) classified as whole-partition / whole-partition through toLocalIterator '
        '(evaluated inside runJob since e07529e) / lazy (take first isEmpty); follow-up jobs fresh or on the same dataset object; '
        '21 exception classes (an application class, the classes an action\'s own per-partition code might catch -- '
        'TypeError StopIteration RuntimeError ValueError KeyError IndexError ZeroDivisionError AttributeError -- a subclass '
        'and a base class of each) x every method x position, transient and permanent; the same classes raised by the '
        'user\'s own reduce/fold/seqOp/foreach/map/filter function under 34 methods (oracle only); '
        'stages with per-task state directly under the action (seeded sample/sampleByKey, zipWithUniqueId, '
        'zipWithIndex, counting mapPartitionsWithIndex, with a map(identity) control) over a transient upstream fault: '
        'exact equality with the fault-free run of the same seeded pipeline (oracle only); '
        'contexts whose public max_retries is assigned after construction (before the first job / between jobs, every '
        'ordered pair of 1..4, local and thread pool) with failing-attempt counts between the two budgets (oracle only); '
        'exhaustive over the number of failing attempts per partition for <=3 partitions and max_retries 1..4 on three '
        'executors; non-trivial = some attempt fails or some nested operation is attempted; distinct by canonical JSON')
ASSUMPTIONS = [
    'max_retries >= 1 (generated: 1..6), catch_exceptions=False, retry_wait=0 (with max_retries <= 0 or '
    'catch_exceptions=True _run_task recurses without bound on a permanent failure)',
    'lazy actions take/first/isEmpty: only length-preserving ops above the injected stage (no filter/flatMap)',
    'pooled executor in the model correspondence = concurrent.futures.ThreadPoolExecutor; worker processes '
    '(multiprocessing.Pool + cloudpickle) are exercised by the oracle only (extra_checks), with at most one exhausting '
    'partition per job (with several, Pool.map reports whichever fails first in time)',
    'on the thread pool, nested operations are only generated in partitions up to the first exhausted one: tasks of '
    'later partitions may still be running after the failed job has released its lock (executor race, not modelled)',
    'a job on the dataset object of an earlier job (reuse) is generated locally always, on the free-running pool only '
    'after jobs without an exhausting partition, never on the barrier pool (cached partitions do not reach the barrier)',
    'free-running thread pool: attempt logs of partitions after the first exhausted one are only checked to be '
    'empty (cancelled) or complete',
    'a StopIteration that leaves a generator frame is turned into RuntimeError("generator raised StopIteration") with the '
    'original as __cause__ by the interpreter (PEP 479) before pysparkling sees it; the harness reports that pair as the '
    'original StopIteration (not on worker processes, where pickling drops __cause__: no StopIteration faults there)',
    'file-, process- and text-based dataset constructors (textFile, pipe, ...) are not among the nested operations',
]
TRUSTED = ['translator/kernels/c04.py (run_task_kernel, runjob_lock_kernel, rdd_init_kernel, tolocaliterator_kernel)',
           'the injected task function and the op/action tables of py/c04.py (Gallina twins in Model/Retry.v)']


class TaskFault(Exception):
    pass


class SubValueError(ValueError):
    pass


class SubKeyError(KeyError):
    pass


class SubTypeError(TypeError):
    pass


class SubStopIteration(StopIteration):
    pass


class SubRuntimeError(RuntimeError):
    pass


class SubIndexError(IndexError):
    pass


class SubZeroDivisionError(ZeroDivisionError):
    pass


class SubAttributeError(AttributeError):
    pass


# exception classes a task may raise (code -> class).  Besides an application class: the classes that the
# per-partition code of some action might catch for its own purposes (empty-iterable TypeError of
# functools.reduce, StopIteration/RuntimeError of generators, ValueError of min/max, KeyError/IndexError of
# lookups, ZeroDivisionError of means, AttributeError), a subclass and a base class of each.
# Codes 3 (ContextIsLockedException) and 5 (StopIteration of first() on an empty dataset) are not injected.
EXC = {0: ValueError, 1: KeyError, 2: TaskFault, 6: TypeError, 7: StopIteration, 8: RuntimeError, 9: IndexError,
       10: ZeroDivisionError, 11: AttributeError, 12: SubValueError, 13: SubKeyError, 14: SubTypeError,
       15: SubStopIteration, 16: SubRuntimeError, 17: SubIndexError, 18: SubZeroDivisionError, 19: SubAttributeError,
       20: LookupError, 21: ArithmeticError, 22: NotImplementedError, 23: AssertionError}
EXC_CODES = sorted(EXC)
EXC_OF = {c: k for k, c in EXC.items()}
STOPITER_CODES = (7, 15)
LOCKED = 3
STOP = 5
SUSPENDED = -2

# ------------------------------------------------------------------ lineage ops (twin: Model/Retry.v op_apply)
OPS = {
    1: ('map+1', lambda r: r.map(lambda x: x + 1), lambda xs: [x + 1 for x in xs]),
    2: ('map*2', lambda r: r.map(lambda x: x * 2), lambda xs: [x * 2 for x in xs]),
    3: ('map-neg', lambda r: r.map(lambda x: -x), lambda xs: [-x for x in xs]),
    4: ('filter-even', lambda r: r.filter(lambda x: x % 2 == 0), lambda xs: [x for x in xs if x % 2 == 0]),
    5: ('flatMap-dup', lambda r: r.flatMap(lambda x: [x, x + 10]), lambda xs: [y for x in xs for y in (x, x + 10)]),
    6: ('mapPartitions-list', lambda r: r.mapPartitions(lambda it: list(it)), list),  # pylint: disable=unnecessary-lambda
    7: ('glom-flatten', lambda r: r.glom().flatMap(lambda l: l), list),
    8: ('persist', lambda r: r.persist(), list),
    9: ('cache', lambda r: r.cache(), list),
    10: ('keyBy-mapValues-values', lambda r: r.keyBy(lambda x: x).mapValues(lambda v: v + 1).values(),
         lambda xs: [x + 1 for x in xs]),
    11: ('sample-all', lambda r: r.sample(False, 1.0, 7), list),
    12: ('mapPartitionsWithIndex-id', lambda r: r.mapPartitionsWithIndex(lambda i, it: it), list),
}
OP_CODES = sorted(OPS)
LENGTH_PRESERVING = [c for c in OP_CODES if c not in (4, 5)]
PERSIST_OPS = (8, 9)


def apply_ops_plain(ops, xs):
    for c in ops:
        xs = OPS[c][2](xs)
    return list(xs)


# ------------------------------------------------------------------ result kinds (twin: Model/Retry.v kind_result)
def _mod3(xs, f):
    out = []
    for k in (0, 1, 2):
        g = [x for x in xs if x % 3 == k]
        if g:
            out.append((k, f(g)))
    return out


KIND = {
    'LIST': lambda ps: [x for p in ps for x in p],
    'COUNT': lambda ps: sum(len(p) for p in ps),
    'SUM': lambda ps: sum(x for p in ps for x in p),
    'PAIR': lambda ps: (sum(x for p in ps for x in p), sum(len(p) for p in ps)),
    'NONE': lambda ps: None,
    'MAX': lambda ps: max(x for p in ps for x in p),
    'MIN': lambda ps: min(x for p in ps for x in p),
    'SORTED': lambda ps: sorted(x for p in ps for x in p),
    'SORTED_DISTINCT': lambda ps: sorted({x for p in ps for x in p}),
    'COUNTS': lambda ps: [(v, sum(1 for p in ps for x in p if x == v)) for v in sorted({x for p in ps for x in p})],
    'DISTINCT_COUNT': lambda ps: len({x for p in ps for x in p}),
    'TOP2': lambda ps: sorted((x for p in ps for x in p), reverse=True)[:2],
    'BOTTOM2': lambda ps: sorted(x for p in ps for x in p)[:2],
    'LOOKUP1': lambda ps: [x for p in ps for x in p if x % 3 == 1],
    'MOD3_SUMS': lambda ps: _mod3([x for p in ps for x in p], sum),
    'MOD3_COUNTS': lambda ps: _mod3([x for p in ps for x in p], len),
    'MOD3_GROUPS': lambda ps: _mod3([x for p in ps for x in p], list),
    'PARTS': lambda ps: [list(p) for p in ps],
    'HIST': lambda ps: [sum(1 for p in ps for x in p if x < 0), sum(1 for p in ps for x in p if x >= 0)],
    'INDEXED': lambda ps: [(x, i) for i, x in enumerate(x for p in ps for x in p)],
}
KIND_NAMES = list(KIND)
NEEDS_DATA_KINDS = ('MAX', 'MIN')

ADD = lambda a, b: a + b  # noqa: E731  pylint: disable=unnecessary-lambda-assignment
K3 = lambda x: x % 3      # noqa: E731  pylint: disable=unnecessary-lambda-assignment


_SAVE_DIRS = []
atexit.register(lambda: [shutil.rmtree(d, ignore_errors=True) for d in _SAVE_DIRS])


def _save_text(rdd):
    d = tempfile.mkdtemp(prefix='c04_save_', dir=os.environ.get('C04_TMP'))
    # removed at exit, not here: when the job fails on a pool, tasks of other partitions may still be writing
    # (deleting the directory under them would make them fail and be retried)
    _SAVE_DIRS.append(d)
    if True:
        out = os.path.join(d, 'out')
        rdd.saveAsTextFile(out)
        lines = []
        # a single-partition dataset is written as one file, otherwise a directory of part files
        files = [out] if os.path.isfile(out) else [os.path.join(out, n) for n in sorted(os.listdir(out)) if n.startswith('part-')]
        for name in files:
            with open(name) as f:
                lines.extend(int(l) for l in f.read().splitlines() if l)
        return sorted(lines)


def _strip_tail(res, tail):
    return res[:-len(tail)] if res[-len(tail):] == tail else ('unexpected-tail', res)


# class 0: whole partitions; 1: whole partitions through toLocalIterator() (evaluated inside runJob, under the lock,
# since /repo e07529e; before that the tasks ran after the lock was released); 2: lazy (take / first / isEmpty)
ACTIONS = [
    ('collect', 0, 'LIST', lambda r, sc: r.collect()),
    ('count', 0, 'COUNT', lambda r, sc: r.count()),
    ('sum', 0, 'SUM', lambda r, sc: r.sum()),
    ('reduce', 0, 'SUM', lambda r, sc: r.reduce(ADD)),
    ('fold', 0, 'SUM', lambda r, sc: r.fold(0, ADD)),
    ('aggregate', 0, 'PAIR', lambda r, sc: r.aggregate((0, 0), lambda acc, x: (acc[0] + x, acc[1] + 1),
                                                       lambda a, b: (a[0] + b[0], a[1] + b[1]))),
    ('foreach', 0, 'NONE', lambda r, sc: r.foreach([].append)),
    ('foreachPartition', 0, 'NONE', lambda r, sc: r.foreachPartition([].extend)),
    ('reduce-max', 0, 'MAX', lambda r, sc: r.reduce(max)),
    ('take(0)', 2, None, lambda r, sc: r.take(0)),
    ('take(1)', 2, None, lambda r, sc: r.take(1)),
    ('take(2)', 2, None, lambda r, sc: r.take(2)),
    ('take(3)', 2, None, lambda r, sc: r.take(3)),
    ('take(4)', 2, None, lambda r, sc: r.take(4)),
    ('take(5)', 2, None, lambda r, sc: r.take(5)),
    ('first', 2, None, lambda r, sc: r.first()),
    ('isEmpty', 2, None, lambda r, sc: r.isEmpty()),
    ('treeAggregate', 0, 'SUM', lambda r, sc: r.treeAggregate(0, ADD, ADD)),
    ('treeReduce', 0, 'SUM', lambda r, sc: r.treeReduce(ADD)),
    ('countApprox', 0, 'COUNT', lambda r, sc: r.countApprox()),
    ('sumApprox', 0, 'SUM', lambda r, sc: r.sumApprox()),
    ('collectAsMap', 0, 'SORTED_DISTINCT', lambda r, sc: sorted(r.keyBy(lambda x: x).collectAsMap())),
    ('countByValue', 0, 'COUNTS', lambda r, sc: sorted(r.countByValue().items())),
    ('countByKey', 0, 'MOD3_COUNTS', lambda r, sc: sorted(r.keyBy(K3).countByKey().items())),
    ('max', 0, 'MAX', lambda r, sc: r.max()),
    ('min', 0, 'MIN', lambda r, sc: r.min()),
    ('stats.count', 0, 'COUNT', lambda r, sc: r.stats().count()),
    ('sortBy', 0, 'SORTED', lambda r, sc: r.sortBy(lambda x: x).collect()),
    ('top(2)', 0, 'TOP2', lambda r, sc: r.top(2)),
    ('takeOrdered(2)', 0, 'BOTTOM2', lambda r, sc: r.takeOrdered(2)),
    ('lookup', 0, 'LOOKUP1', lambda r, sc: r.keyBy(K3).lookup(1)),
    ('aggregateByKey', 0, 'MOD3_SUMS', lambda r, sc: sorted(r.keyBy(K3).aggregateByKey(0, ADD, ADD).collect())),
    ('reduceByKey', 1, 'MOD3_SUMS', lambda r, sc: sorted(r.keyBy(K3).reduceByKey(ADD).collect())),
    ('union', 0, 'LIST', lambda r, sc: _strip_tail(r.union(sc.parallelize([100, 200], 1)).collect(), [100, 200])),
    ('coalesce', 0, 'LIST', lambda r, sc: r.coalesce(1).collect()),
    ('subtract', 0, 'LIST', lambda r, sc: r.subtract(sc.parallelize([1000], 1)).collect()),
    ('saveAsTextFile', 0, 'SORTED', lambda r, sc: _save_text(r)),
    ('glom.collect', 0, 'PARTS', lambda r, sc: r.glom().collect()),
    ('sortByKey', 0, 'SORTED', lambda r, sc: sorted(v for _k, v in r.keyBy(K3).sortByKey().collect())),
    ('toLocalIterator', 1, 'LIST', lambda r, sc: list(r.toLocalIterator())),
    ('distinct', 1, 'SORTED_DISTINCT', lambda r, sc: sorted(r.distinct().collect())),
    ('zipWithIndex', 1, 'INDEXED', lambda r, sc: r.zipWithIndex().collect()),
    ('groupByKey', 1, 'MOD3_GROUPS', lambda r, sc: sorted((k, list(v)) for k, v in r.keyBy(K3).groupByKey().collect())),
    ('coalesce-shuffle', 1, 'LIST', lambda r, sc: r.coalesce(2, shuffle=True).collect()),
    ('repartition', 1, 'LIST', lambda r, sc: r.repartition(2).collect()),
    ('countApproxDistinct', 1, 'DISTINCT_COUNT', lambda r, sc: r.countApproxDistinct()),
    ('intersection', 1, 'SORTED_DISTINCT', lambda r, sc: sorted(r.intersection(sc.parallelize(range(-60, 61), 2)).collect())),
    ('cartesian', 1, 'LIST', lambda r, sc: [a for a, b in r.cartesian(sc.parallelize([0, 1], 1)).collect() if b == 0]),
    ('zip', 1, 'INDEXED', lambda r, sc: r.zip(sc.parallelize(range(200), 2)).collect()),
    ('partitionBy', 1, 'SORTED', lambda r, sc: sorted(v for _k, v in r.keyBy(K3).partitionBy(2).collect())),
    ('randomSplit', 1, 'LIST', lambda r, sc: r.randomSplit([1.0], seed=3)[0].collect()),
    ('histogram', 1, 'HIST', lambda r, sc: r.histogram([-1000, 0, 1000])[1][:2]),
    ('join', 1, 'SORTED', lambda r, sc: sorted(v for _k, (v, _w) in
                                               r.keyBy(K3).join(sc.parallelize([(0, 0), (1, 0), (2, 0)], 2)).collect())),
]
ACTION_NAMES = [a[0] for a in ACTIONS]
N_ACT = len(ACTIONS)
LAZY = [i for i, a in enumerate(ACTIONS) if a[1] == 2]
UNLOCKED = [i for i, a in enumerate(ACTIONS) if a[1] == 1]
STRICT = [i for i, a in enumerate(ACTIONS) if a[1] != 2]
LOCKED_STRICT = [i for i, a in enumerate(ACTIONS) if a[1] == 0]

# ------------------------------------------------------------------ nested operations (twin: code < 40 NCreate, else NAction)
NEST_OPS = {
    0: ('parallelize', lambda sc, o, kv: sc.parallelize([7, 8, 9], 2)),
    1: ('map', lambda sc, o, kv: o.map(str)),
    2: ('filter', lambda sc, o, kv: o.filter(bool)),
    3: ('flatMap', lambda sc, o, kv: o.flatMap(lambda x: [x])),
    4: ('mapPartitions', lambda sc, o, kv: o.mapPartitions(list)),
    5: ('mapPartitionsWithIndex', lambda sc, o, kv: o.mapPartitionsWithIndex(lambda i, it: it)),
    6: ('glom', lambda sc, o, kv: o.glom()),
    7: ('mapValues', lambda sc, o, kv: kv.mapValues(str)),
    8: ('keys', lambda sc, o, kv: kv.keys()),
    9: ('values', lambda sc, o, kv: kv.values()),
    10: ('keyBy', lambda sc, o, kv: o.keyBy(str)),
    11: ('persist', lambda sc, o, kv: o.persist()),
    12: ('cache', lambda sc, o, kv: o.cache()),
    13: ('sample', lambda sc, o, kv: o.sample(False, 0.5, 1)),
    14: ('_parallelize_partitions', lambda sc, o, kv: sc._parallelize_partitions([[1], [2]])),  # pylint: disable=protected-access
    15: ('union', lambda sc, o, kv: o.union(o)),
    16: ('zipWithIndex', lambda sc, o, kv: o.zipWithIndex()),
    17: ('distinct', lambda sc, o, kv: o.distinct()),
    18: ('sortBy', lambda sc, o, kv: o.sortBy(lambda x: x)),
    19: ('coalesce', lambda sc, o, kv: o.coalesce(1)),
    20: ('cartesian', lambda sc, o, kv: o.cartesian(o)),
    21: ('groupByKey', lambda sc, o, kv: kv.groupByKey()),
    22: ('flatMapValues', lambda sc, o, kv: kv.flatMapValues(lambda v: [v])),
    23: ('sampleByKey', lambda sc, o, kv: kv.sampleByKey(False, {1: 0.5, 3: 0.5}, 1)),
    24: ('Context.union', lambda sc, o, kv: sc.union([o, o])),
    25: ('repartition', lambda sc, o, kv: o.repartition(2)),
    40: ('count', lambda sc, o, kv: o.count()),
    41: ('collect', lambda sc, o, kv: o.collect()),
    42: ('take', lambda sc, o, kv: o.take(1)),
    43: ('first', lambda sc, o, kv: o.first()),
    44: ('sum', lambda sc, o, kv: o.sum()),
    45: ('isEmpty', lambda sc, o, kv: o.isEmpty()),
    46: ('toLocalIterator', lambda sc, o, kv: list(o.toLocalIterator())),
    47: ('reduce', lambda sc, o, kv: o.reduce(ADD)),
    48: ('foreach', lambda sc, o, kv: o.foreach(str)),
    49: ('max', lambda sc, o, kv: o.max()),
    50: ('countByValue', lambda sc, o, kv: o.countByValue()),
    51: ('aggregate', lambda sc, o, kv: o.aggregate(0, ADD, ADD)),
    52: ('top', lambda sc, o, kv: o.top(1)),
    53: ('lookup', lambda sc, o, kv: kv.lookup(1)),
    54: ('collectAsMap', lambda sc, o, kv: kv.collectAsMap()),
    55: ('foreachPartition', lambda sc, o, kv: o.foreachPartition(list)),
}
NEST_CODES = sorted(NEST_OPS)


def describe_exc(e):
    """(class code or class name, args) of the exception the caller received.  A StopIteration that leaves a
    generator frame reaches everybody -- pysparkling included -- as RuntimeError('generator raised StopIteration')
    with the original as __cause__ (PEP 479, the interpreter's doing): that pair is reported as the original."""
    if type(e) is RuntimeError and type(e.__cause__) in (StopIteration, SubStopIteration) and e.__cause__.args \
            and e.args == ('generator raised StopIteration',):
        e = e.__cause__
    if type(e) is ContextIsLockedException:
        code = LOCKED
    elif type(e) is StopIteration and not e.args:
        code = STOP
    else:
        code = EXC_OF.get(type(e), type(e).__name__)
    args = e.args if all(isinstance(x, int) and not isinstance(x, bool) for x in e.args) else (repr(e.args),)
    return code, tuple(args)


def exc_code(e):
    return describe_exc(e)[0]


# ------------------------------------------------------------------ plain-list reference (for the oracle)

def plain_parts(job_ctx):
    """Fault-free output of every partition: pre ops, (injected stage = identity), post ops."""
    return [apply_ops_plain(job_ctx['post'], apply_ops_plain(job_ctx['pre'], p[0])) for p in job_ctx['parts']]


def plain_result(job_ctx, action):
    ps = plain_parts(job_ctx)
    name, cls, knd, _f = ACTIONS[action]
    flat = [x for p in ps for x in p]
    if cls != 2:
        return KIND[knd](ps)
    if name.startswith('take'):
        return flat[:int(name[5])]
    if name == 'first':
        return flat[0] if flat else Err('StopIteration')
    return not flat


# ------------------------------------------------------------------ running a case on the implementation

class Dataset:
    """The dataset object of a job: kept so that a later job can run on it again."""

    def __init__(self, sc, maxr, mode, jidx, job):
        _action, style, pre, post, parts, _reuse = job
        self.sc, self.maxr, self.mode, self.jidx = sc, maxr, mode, jidx
        self.style, self.pre, self.post, self.parts = style, list(pre), list(post), parts
        self.log = [[] for _ in parts]
        self.base = [0 for _ in parts]       # log length at the start of the current job
        self.barrier = None
        self.other = self.otherkv = self.rdd = None

    def body(self, idx, it):
        log, parts = self.log, self.parts
        _data, plan, nest = parts[idx]
        a = len(log[idx]) + 1
        first_in_job = len(log[idx]) == self.base[idx]
        rec = [a, [], [], None]
        log[idx].append(rec)
        try:
            for nkind, caught in nest:
                try:
                    NEST_OPS[nkind][1](self.sc, self.other, self.otherkv)
                    rec[1].append(1)
                except ContextIsLockedException:
                    rec[1].append(0)
                    if not caught:
                        rec[3] = LOCKED
                        raise
        finally:
            # (tasks that run in the driver thread -- the local path -- must not wait for each other)
            if self.barrier is not None and first_in_job and threading.current_thread() is not threading.main_thread():
                self.barrier.wait(timeout=600)
        it = iter(it)
        f = plan[a - 1] if a - 1 < len(plan) else None
        if f is None:
            for x in it:
                rec[2].append(x)
                yield x
            rec[3] = -1
            return
        exc, pos = f
        size = len(apply_ops_plain(self.pre, parts[idx][0]))
        k = 0 if pos == 0 else size // 2 if pos == 1 else size
        for _ in range(k):
            x = next(it)
            rec[2].append(x)
            yield x
        rec[3] = exc
        raise EXC[exc](self.jidx, idx, a)

    def eager(self, idx, it):
        return list(self.body(idx, it))

    def build(self):
        sc = self.sc
        self.other = sc.parallelize([1, 2, 3], 2)
        self.otherkv = sc.parallelize([(1, 2), (3, 4)], 2)
        rdd = sc._parallelize_partitions([list(p[0]) for p in self.parts])  # pylint: disable=protected-access
        for c in self.pre:
            rdd = OPS[c][1](rdd)
        rdd = rdd.mapPartitionsWithIndex(self.eager if self.style else self.body)
        for c in self.post:
            rdd = OPS[c][1](rdd)
        self.rdd = rdd


def run_job(sc, maxr, mode, jidx, job, prev):
    """Returns (result, new log records per partition, dataset)."""
    action, _style, _pre, post, parts, reuse = job
    ds = prev if reuse else Dataset(sc, maxr, mode, jidx, job)
    if reuse and (ds is None or ds.rdd is None):
        return (1, 'no-dataset', ()), [], ds
    ds.base = [len(l) for l in ds.log]
    ds.barrier = threading.Barrier(len(ds.parts)) if mode == 1 and ACTIONS[action][1] != 2 and not reuse else None
    try:
        if reuse:
            rdd = ds.rdd
            for c in post:
                rdd = OPS[c][1](rdd)
            ds.rdd = rdd
            ds.post = ds.post + list(post)
        else:
            ds.build()
        res = (0, ACTIONS[action][3](ds.rdd, sc))
    except Exception as e:  # pylint: disable=broad-except
        res = (1,) + describe_exc(e)
    return res, ds


def legal_log(maxr, recs):
    """Structural legality of one partition's new attempt records (the racy partitions of mode 2)."""
    if not recs:
        return True
    nums = [r[0] for r in recs]
    if nums != list(range(nums[0], nums[0] + len(recs))) or len(recs) > maxr:
        return False
    return recs[-1][3] == -1 or len(recs) == maxr


def impl(case):
    maxr, mode, jobs = case
    pool = ThreadPoolExecutor(8) if mode else None
    sc = pysparkling.Context(pool=pool, max_retries=maxr) if pool else pysparkling.Context(max_retries=maxr)
    raw = []
    prev = None
    try:
        for jidx, job in enumerate(jobs):
            out = run_job(sc, maxr, mode, jidx, job, prev)
            if len(out) == 3:       # reuse without a dataset
                raw.append((out[0], None, None))
                continue
            res, ds = out
            prev = ds
            raw.append((res, ds, (list(ds.base), None)))
            # the log is read after the pool has drained; remember where this job's records end
            if not mode:
                raw[-1] = (res, ds, (list(ds.base), [len(l) for l in ds.log]))
    finally:
        if pool:
            pool.shutdown(wait=True)
    # per job: the records appended during that job (pooled: up to the start of the next job on the same dataset)
    out = []
    for k, (res, ds, span) in enumerate(raw):
        if ds is None:
            out.append((res, []))
            continue
        base, end = span
        if end is None:
            nxt = [r for r in raw[k + 1:] if r[1] is ds]
            end = nxt[0][2][0] if nxt else [len(l) for l in ds.log]
        new = [ds.log[i][base[i]:end[i]] for i in range(len(ds.parts))]
        lazy = ACTIONS[jobs[k][0]][1] == 2
        fe = None
        for i, recs in enumerate(new):
            if recs and recs[-1][3] not in (-1, None):
                fe = i
                break
        logs = []
        for i, recs in enumerate(new):
            if mode == 2 and fe is not None and i > fe and not lazy:
                logs.append(1 if legal_log(maxr, recs) else 0)
            else:
                logs.append([(r[0], list(r[1]), list(r[2]), SUSPENDED if r[3] is None else r[3]) for r in recs])
        out.append((res, logs))
    return out


# ------------------------------------------------------------------ oracle (implementation only)

def resolve(jobs):
    """For every job: the dataset it runs on (origin index, pre, post, parts) -- a reuse job extends the post
    ops of the previous job's dataset."""
    out = []
    cur = None
    for jidx, (action, style, pre, post, parts, reuse) in enumerate(jobs):
        if reuse and cur is not None:
            cur = dict(cur, post=cur['post'] + list(post), fresh=False)
        else:
            cur = {'origin': jidx, 'style': style, 'pre': list(pre), 'post': list(post), 'parts': parts, 'fresh': True}
        out.append(cur)
    return out


def n_failing(maxr, part, calls=0):
    """Number of leading failing attempts of a partition whose injected function was already called `calls`
    times (a propagating nested refusal fails every attempt)."""
    _data, plan, nest = part
    if any(not caught for _k, caught in nest):
        return maxr + 1
    n = 0
    for f in plan[calls:]:
        if f is None:
            break
        n += 1
    return n


def first_exhausted(maxr, parts, calls=None, held=True):
    for i, p in enumerate(parts):
        c = calls[i] if calls else 0
        q = p if held else (p[0], p[1], [])
        if n_failing(maxr, q, c) >= maxr:
            return i
    return None


def oracle(case, result):
    maxr, mode, jobs = case
    if not isinstance(result, list) or len(result) != len(jobs):
        return ('harness:result-shape', repr(result)[:300])
    ctxs = resolve(jobs)
    calls, done = {}, {}
    for jidx, (job, ctx, (res, logs)) in enumerate(zip(jobs, ctxs, result)):
        c = calls.setdefault(ctx['origin'], [0] * len(ctx['parts']))
        # partitions that an earlier job on this dataset object computed successfully: a persisted dataset above
        # the injected stage may serve them without calling the injected function again
        dn = done.setdefault(ctx['origin'], [False] * len(ctx['parts']))
        ctx = dict(ctx, maybe_cached=[d and any(x in PERSIST_OPS for x in ctx['post']) for d in dn])
        o = oracle_job(maxr, mode, job[0], ctx, list(c), res, logs)
        if o is not None:
            sig, msg = o
            if jidx > 0 and not sig.startswith('toLocalIterator:'):
                sig = 'follow-up:' + sig
            return (sig, f'job {jidx}: {msg}')
        for i, recs in enumerate(logs):
            if isinstance(recs, list):
                c[i] += len(recs)
                dn[i] = dn[i] or any(r[3] == -1 for r in recs)
    return None


def oracle_job(maxr, mode, action, ctx, calls, res, logs):
    name, cls, _knd, _f = ACTIONS[action]
    parts = ctx['parts']
    reused = not ctx['fresh']
    # nested operations are refused
    for i, recs in enumerate(logs):
        if isinstance(recs, list):
            for r in recs:
                if any(o != 0 for o in r[1]):
                    site = 'nested:accepted'
                    ops = [NEST_OPS[k][0] for k, _c in parts[i][2]]
                    return (site, f'{name}: partition {i} call {r[0]}: nested operations {ops} -> outcomes {r[1]} '
                                  f'(1 = accepted, 0 = refused with ContextIsLockedException)')
    if cls == 2:
        return oracle_lazy(maxr, action, ctx, calls, res, logs)
    # while the lock is not held a nested operation cannot be refused, hence cannot fail the task (the finding
    # above is reported first); judge the retry clause with what the implementation does
    held = True      # the tasks of every job-triggering method run while runJob holds the lock
    skipped = [mc and isinstance(l, list) and not l for mc, l in zip(ctx['maybe_cached'], logs)]
    fe = None
    for i, p in enumerate(parts):
        q = p if held else (p[0], p[1], [])
        if not skipped[i] and n_failing(maxr, q, calls[i]) >= maxr:
            fe = i
            break
    want_ok = (0, plain_result(ctx, action))
    if res[0] == 0:
        if res != want_ok:
            return (f'runJob:result:{name}', f'expected {want_ok[1]!r}, got {res[1]!r}'
                                             + (' (dataset reused from an earlier job)' if reused else ''))
        if fe is not None:
            return ('run_task:exception', f'{name}: partition {fe} fails {maxr} times but the action returned {res[1]!r}')
    else:
        if res[1] == LOCKED and not any(not c for p in parts for _k, c in p[2]):
            return ('runJob:locked', f'{name}: ContextIsLockedException, expected {want_ok[1]!r}')
        if fe is None:
            return (f'runJob:result:{name}', f'every partition succeeds within {maxr} attempts, expected {want_ok[1]!r}, '
                                             f'got {res!r}')
        _d, plan, nest = parts[fe]
        if held and any(not caught for _k, caught in nest):
            want = (1, LOCKED, ())
        else:
            want = (1, plan[calls[fe] + maxr - 1][0], (ctx['origin'], fe, calls[fe] + maxr))
        if res != want:
            return ('run_task:exception', f'{name}: partition {fe} fails {maxr} times, expected {want!r}, got {res!r}')
    # attempt logs: from scratch, exactly the right number of attempts
    for i, recs in enumerate(logs):
        if not isinstance(recs, list):
            if recs != 1:
                return ('run_task:attempt-log', f'partition {i}: log neither empty nor complete')
            continue
        data = apply_ops_plain(ctx['pre'], parts[i][0])
        q = parts[i] if held else (parts[i][0], parts[i][1], [])
        nf = n_failing(maxr, q, calls[i])
        if fe is not None and i > fe and mode == 0:
            want_n = (0,)
        elif ctx['maybe_cached'][i]:
            want_n = (0, min(nf + 1, maxr))        # 0: the partition is served from a persisted dataset
        else:
            want_n = (min(nf + 1, maxr),)
        if len(recs) not in want_n:
            return ('run_task:attempts', f'{name}: partition {i}: {len(recs)} attempts, expected {want_n} '
                                         f'(max_retries={maxr}, failing={nf})')
        for k, r in enumerate(recs):
            if r[0] != calls[i] + k + 1:
                return ('run_task:attempt-number', f'partition {i}: call numbers {[x[0] for x in recs]} after {calls[i]} calls')
            if r[2] != data[:len(r[2])]:
                return ('run_task:from-scratch', f'partition {i} call {r[0]} saw {r[2]}, not a prefix of {data}')
            if r[3] == -1 and r[2] != data:
                return ('run_task:from-scratch', f'partition {i} call {r[0]} succeeded on {r[2]}, partition is {data}')
        if recs and nf < maxr and recs[-1][3] != -1:
            return ('run_task:attempts', f'{name}: partition {i}: last attempt did not succeed')
    return None


def oracle_lazy(maxr, action, ctx, calls, res, logs):
    """take / first / isEmpty: they return the plain result or surface an error; a generator task function that
    nothing above it materialises is never retried (its first error reaches the caller directly)."""
    name = ACTION_NAMES[action]
    parts = ctx['parts']
    eager = bool(ctx['style']) or any(c in (6, 7, 8, 9) for c in ctx['post'])
    for i, recs in enumerate(logs):
        if len(recs) > (maxr if eager else 1):
            return ('lazy-action:retried', f'{name}: partition {i} was attempted {len(recs)} times')
    want = plain_result(ctx, action)
    if res[0] == 0:
        if isinstance(want, Err) or res[1] != want:
            return (f'lazy-action:result:{name}', f'expected {want!r}, got {res!r}')
        return None
    if res[1] == LOCKED and not any(not c for p in parts for _k, c in p[2]):
        return ('runJob:locked', f'{name}: ContextIsLockedException, expected {want!r}')
    if res[1] == STOP:
        if not isinstance(want, Err):
            return (f'lazy-action:result:{name}', f'expected {want!r}, got StopIteration')
        return None
    if not any(p[1][c:] and p[1][c] is not None for p, c in zip(parts, calls)) \
            and not any(not c for p in parts for _k, c in p[2]):
        return (f'lazy-action:result:{name}', f'no attempt fails, expected {want!r}, got {res!r}')
    if not eager and res[1] != LOCKED and (len(res[2]) != 3 or res[2][2] != calls[res[2][1]] + 1):
        return ('lazy-action:retried', f'{name}: error {res!r} does not come from a first attempt')
    return None


def nontrivial(case, result):
    maxr, _mode, jobs = case
    return any(n_failing(maxr, p) > 0 or p[2] for j in jobs for p in j[4])


def kind(case):
    maxr, mode, jobs = case
    fe = [first_exhausted(maxr, j[4]) is not None for j in jobs]
    nest = any(p[2] for j in jobs for p in j[4])
    cls = {ACTIONS[j[0]][1] for j in jobs}
    return (f"{['local', 'pool-barrier', 'pool-free'][mode]}/{'fail' if any(fe) else 'ok'}"
            f"{'/nested' if nest else ''}{'/lazy-action' if 2 in cls else ''}{'/tolocaliterator' if 1 in cls else ''}"
            f"{'/persist' if any(c in PERSIST_OPS for j in jobs for c in j[3]) else ''}"
            f"{'/reuse' if any(j[5] for j in jobs) else ''}")


# ------------------------------------------------------------------ generation

def gen_data(rng, n=None):
    n = rng.choice([0, 1, 1, 2, 3, 4, 5]) if n is None else n
    return [rng.randint(-9, 9) for _ in range(n)]


def gen_fault(rng, codes=None):
    return (rng.choice(codes or EXC_CODES), rng.randrange(3))


def gen_ops(rng, above, lazy=False):
    """A short list of lineage ops; persist/cache is favoured above the injected stage."""
    n = rng.choice([0, 0, 1, 1, 2, 3])
    pool = LENGTH_PRESERVING if lazy else OP_CODES
    ops = [rng.choice(pool) for _ in range(n)]
    if above and rng.random() < 0.3:
        ops.insert(rng.randint(0, len(ops)), rng.choice(PERSIST_OPS))
    return ops


def valid(case):
    """The generator restrictions (ASSUMPTIONS) -- shrinking must not leave them."""
    maxr, mode, jobs = case
    if not (1 <= maxr and mode in (0, 1, 2) and jobs):
        return False
    ctxs = resolve(jobs)
    failed = {}
    for jidx, (job, ctx) in enumerate(zip(jobs, ctxs)):
        action, _style, pre, post, parts, reuse = job
        cls = ACTIONS[action][1]
        if reuse:
            if jidx == 0 or mode == 1 or (mode == 2 and failed.get(ctx['origin'])):
                return False
            if ctx['fresh']:
                return False
        elif not parts:
            return False
        if any(c not in OPS for c in list(pre) + list(post)):
            return False
        flat = [x for p in plain_parts(ctx) for x in p]
        if cls != 2 and ACTIONS[action][2] in NEEDS_DATA_KINDS and not flat:
            return False
        if ACTION_NAMES[action] in ('reduce', 'treeReduce', 'reduce-max') and not flat:
            return False
        if cls == 2 and any(c in (4, 5) for c in ctx['post']):
            return False
        ps = ctx['parts']
        if mode and cls != 2:
            fe = first_exhausted(maxr, ps)
            if fe is not None and any(p[2] for p in ps[fe + 1:]):
                return False
        if first_exhausted(maxr, ps) is not None or reuse:
            # conservative: once a dataset had an exhausting partition (or was reused) treat it as "failed" for mode 2
            failed[ctx['origin']] = failed.get(ctx['origin']) or first_exhausted(maxr, ps) is not None
    return True


def fix_job(rng, maxr, mode, job):
    """Enforce the generator restrictions on a fresh job."""
    action, style, pre, post, parts, reuse = job
    parts = [list(p) for p in parts]
    cls = ACTIONS[action][1]
    if cls == 2:
        post = [c for c in post if c not in (4, 5)]
    if mode and cls != 2:
        fe = first_exhausted(maxr, [tuple(p) for p in parts])
        if fe is not None:
            for i in range(fe + 1, len(parts)):
                parts[i][2] = []
    job = (action, style, list(pre), list(post), [tuple(p) for p in parts], reuse)
    ctx = resolve([job])[0]
    if not [x for p in plain_parts(ctx) for x in p] and (
            ACTIONS[action][2] in NEEDS_DATA_KINDS or ACTION_NAMES[action] in ('reduce', 'treeReduce', 'reduce-max')):
        job = (0,) + job[1:]
    return job


def simple_job(rng):
    n = rng.randint(1, 3)
    return fix_job(rng, 1, 0, (rng.choice(LOCKED_STRICT[:9]), rng.randrange(2), gen_ops(rng, False)[:1], gen_ops(rng, True)[:1],
                               [(gen_data(rng, rng.randint(1, 3)), [], []) for _ in range(n)], 0))


def gen_nest(rng):
    k = rng.choice([1, 1, 2, 2, 3])
    nest = [(rng.choice(NEST_CODES), 1) for _ in range(k)]
    if rng.random() < 0.35:
        nest[-1] = (nest[-1][0], 0)
    return nest


def random_job(rng, maxr, mode, nest_p=0.25, action=None):
    n = rng.randint(1, 4)
    if action is None:
        action = rng.choice(STRICT) if rng.random() < 0.85 else rng.choice(LAZY)
    lazy = ACTIONS[action][1] == 2
    parts = []
    for _ in range(n):
        nf = rng.choice([0, 0, 0, 1, 1, 2, maxr - 1, maxr, maxr + 1])
        nf = max(0, min(nf, maxr + 1))
        plan = [gen_fault(rng) for _ in range(nf)]
        if rng.random() < 0.15:
            plan = plan + [None] + [gen_fault(rng) for _ in range(rng.randint(0, 2))]
        nest = gen_nest(rng) if rng.random() < nest_p else []
        parts.append((gen_data(rng), plan, nest))
    job = (action, rng.randrange(2), gen_ops(rng, False, lazy), gen_ops(rng, True, lazy), parts, 0)
    return fix_job(rng, maxr, mode, job)


def reuse_job(rng, lazy_ok=True):
    action = rng.choice(STRICT if not lazy_ok or rng.random() < 0.85 else LAZY)
    lazy = ACTIONS[action][1] == 2
    return (action, 0, [], [c for c in gen_ops(rng, True, True)][:2] if lazy else gen_ops(rng, True)[:2], [], 1)


def with_followups(rng, maxr, mode, job):
    """job, then a job on the same dataset object (where the executor allows it), then a fresh job."""
    jobs = [job]
    if mode == 0 or (mode == 2 and first_exhausted(maxr, job[4]) is None):
        jobs.append(reuse_job(rng))
    jobs.append(simple_job(rng))
    case = (maxr, mode, jobs)
    return case if valid(case) else (maxr, mode, [job, simple_job(rng)])


def corpus():
    d = os.path.join(os.environ.get('VERIF_ROOT', '/verif'), 'corpus', ID)
    out = []
    for path in sorted(glob.glob(os.path.join(d, '*.json'))):
        with open(path) as f:
            out.append(uncanon(json.load(f)['case']))
    return out


def generate(rng, tier):
    quick = tier == 'quick'
    cases = corpus()
    # 1. exhaustive over the number of failing attempts per partition, every executor, followed by a job on the
    #    same dataset and a fresh job
    for maxr in (1, 2, 3, 4):
        for n in (1, 2, 3):
            for nfs in itertools.product(range(maxr + 1), repeat=n):
                for mode in (0, 1, 2):
                    if quick and n == 3 and rng.random() < (0.8 if maxr == 4 else 0.5 if maxr == 3 else 0.0):
                        continue
                    parts = [(gen_data(rng), [gen_fault(rng) for _ in range(nf)], []) for nf in nfs]
                    job = fix_job(rng, maxr, mode, (rng.choice(STRICT), rng.randrange(2), gen_ops(rng, False),
                                                    gen_ops(rng, True), parts, 0))
                    cases.append(with_followups(rng, maxr, mode, job))
    # 2. every position x exception class x style on the exhausting attempt, one partition
    for maxr in (1, 2, 3):
        for pos in range(3):
            for exc in (EXC_CODES if not quick else rng.sample(EXC_CODES, 3)):
                for style in range(2):
                    for mode in (0, 1):
                        plan = [gen_fault(rng) for _ in range(maxr - 1)] + [(exc, pos)]
                        job = (rng.choice(STRICT), style, [], gen_ops(rng, True), [(gen_data(rng, 3), plan, [])], 0)
                        cases.append(with_followups(rng, maxr, mode, fix_job(rng, maxr, mode, job)))
    # 3. nested operations: every kind of dataset creation and action, caught and escaping, in the first / a later
    #    partition, under every class of job
    for code in NEST_CODES:
        for caught in (1, 0):
            for where in (0, 1):
                maxr = rng.randint(1, 3)
                mode = rng.choice([0, 0, 1, 2])
                parts = [(gen_data(rng, 2), [gen_fault(rng) for _ in range(rng.randint(0, maxr - 1))], []) for _ in range(2)]
                nest = [(rng.choice(NEST_CODES), 1)] * rng.randint(0, 1) + [(code, caught)]
                parts[where] = (parts[where][0], parts[where][1], nest)
                job = fix_job(rng, maxr, mode, (rng.choice(LOCKED_STRICT + LAZY[1:3]), rng.randrange(2), [], [], parts, 0))
                cases.append(with_followups(rng, maxr, mode, job))
    for action in UNLOCKED:      # the methods built on toLocalIterator(): nested operations are refused there as well
        for _ in range(1 if quick else 4):
            maxr = rng.randint(1, 3)
            mode = rng.choice([0, 0, 1, 2])
            parts = [(gen_data(rng, 2), [gen_fault(rng) for _ in range(rng.randint(0, maxr - 1))], gen_nest(rng)) for _ in range(2)]
            cases.append(with_followups(rng, maxr, mode, fix_job(rng, maxr, mode, (action, rng.randrange(2), [], [], parts, 0))))
    # 4. every job-triggering method through a permanent and a recovered failure, before/mid/after, both styles
    for action in STRICT:
        for mode in (0, 1, 2) if not quick else (0, rng.choice([1, 2])):
            for nf in (1, 2):
                parts = [(gen_data(rng, 3), [], []), (gen_data(rng, 2), [gen_fault(rng) for _ in range(nf)], [])]
                job = fix_job(rng, 2, mode, (action, rng.randrange(2), gen_ops(rng, False)[:1], gen_ops(rng, True)[:1], parts, 0))
                cases.append(with_followups(rng, 2, mode, job))
    # 5. persisted datasets above the injected stage: a fault on an attempt that is retried, every position, then
    #    a second job on the persisted dataset
    for op in PERSIST_OPS:
        for pos in range(3):
            for style in range(2):
                for mode in (0, 2):
                    for maxr in (2, 3):
                        below, above = gen_ops(rng, True)[:1], gen_ops(rng, True)[:1]
                        parts = [(gen_data(rng, 3), [], []), (gen_data(rng, 4), [(rng.choice(EXC_CODES), pos)], []),
                                 (gen_data(rng, 2), [gen_fault(rng) for _ in range(rng.choice([0, maxr]))], [])]
                        job = fix_job(rng, maxr, mode, (rng.choice(STRICT), style, gen_ops(rng, False), below + [op] + above, parts, 0))
                        cases.append(with_followups(rng, maxr, mode, job))
    # 6. lazily evaluated actions (take(n), first, isEmpty)
    for action in LAZY:
        for style in (0, 1):
            for mode in (0, 1, 2):
                for _ in range(1 if quick else 6):
                    maxr = rng.randint(1, 3)
                    parts = []
                    for _i in range(rng.randint(1, 3)):
                        plan = [gen_fault(rng) for _ in range(rng.choice([0, 0, 1, 1, maxr, maxr + 1]))]
                        nest = gen_nest(rng) if rng.random() < 0.2 else []
                        parts.append((gen_data(rng), plan, nest))
                    job = fix_job(rng, maxr, mode, (action, style, gen_ops(rng, False, True), gen_ops(rng, True, True), parts, 0))
                    cases.append(with_followups(rng, maxr, mode, job))
    # 7. exception class x job-triggering method x position: a transient fault of that class (every attempt but
    #    the last one fails: fault-free result, max_retries attempts) and, in a second job, a permanent one (the
    #    caller receives that very class after exactly max_retries attempts); quick: one position and one
    #    executor per pair, thorough: every position on every executor
    for exc in EXC_CODES:
        for action in range(N_ACT):
            for pos in (range(3) if not quick else [rng.randrange(3)]):
                for mode in ((0, 1, 2) if not quick else [rng.choice([0, 0, 1, 2])]):
                    maxr = rng.choice([2, 2, 3])
                    lazy = ACTIONS[action][1] == 2
                    style = rng.randrange(2)
                    same = [(exc, pos)] * (maxr + 1)
                    tparts = [(gen_data(rng, rng.randint(1, 3)), [], []), (gen_data(rng, rng.randint(2, 4)), same[:maxr - 1], [])]
                    pparts = [(gen_data(rng, rng.randint(1, 3)), [], []), (gen_data(rng, rng.randint(2, 4)), same, [])]
                    if rng.random() < 0.5:
                        tparts.reverse()
                        pparts.reverse()
                    jobs = [fix_job(rng, maxr, mode, (action, style, [], gen_ops(rng, True, lazy)[:1], tparts, 0)),
                            fix_job(rng, maxr, mode, (action, style, [], gen_ops(rng, True, lazy)[:1], pparts, 0)),
                            simple_job(rng)]
                    case = (maxr, mode, jobs)
                    if valid(case):
                        cases.append(case)
    # 8. random job sequences
    for _ in range(500 if quick else 12000):
        maxr = rng.choice([1, 2, 3, 4, 1, 2, 3, 4, 1, 2, 3, 4, 5, 6])
        mode = rng.choice([0, 0, 1, 2])
        jobs = []
        for _k in range(rng.choice([1, 2, 2, 3])):
            if jobs and rng.random() < 0.35:
                cand = jobs + [reuse_job(rng)]
                if valid((maxr, mode, cand)):
                    jobs = cand
                    continue
            jobs.append(random_job(rng, maxr, mode))
        case = (maxr, mode, jobs)
        if valid(case):
            cases.append(case)
    return cases


# ------------------------------------------------------------------ process pool (oracle only)

PROC_STATS = {'process_pool_cases': 0, 'process_pool_failing_jobs': 0, 'process_pool_nested': 0}


class ProcDataset(Dataset):
    """For a pool of worker PROCESSES: the task function (holding the context, pickled with cloudpickle while
    the job lock is held) keeps its attempt log in one file per partition."""

    def __init__(self, sc, maxr, jidx, job, workdir, tag):
        super().__init__(sc, maxr, 1, jidx, job)
        self.workdir, self.tag = workdir, tag

    def path(self, idx):
        return os.path.join(self.workdir, f'proc_{self.tag}_{self.jidx}_{idx}.log')

    def body(self, idx, it):
        _data, plan, nest = self.parts[idx]
        try:
            with open(self.path(idx)) as f:
                a = len(f.readlines()) + 1
        except FileNotFoundError:
            a = 1
        rec = [a, [], [], None]

        def done():
            with open(self.path(idx), 'a') as f:
                f.write(json.dumps(rec) + '\n')
        for nkind, caught in nest:
            try:
                NEST_OPS[nkind][1](self.sc, self.other, self.otherkv)
                rec[1].append(1)
            except ContextIsLockedException:
                rec[1].append(0)
                if not caught:
                    rec[3] = LOCKED
                    done()
                    raise
        it = iter(it)
        f = plan[a - 1] if a - 1 < len(plan) else None
        if f is None:
            for x in it:
                rec[2].append(x)
                yield x
            rec[3] = -1
            done()
            return
        exc, pos = f
        size = len(apply_ops_plain(self.pre, self.parts[idx][0]))
        k = 0 if pos == 0 else size // 2 if pos == 1 else size
        for _ in range(k):
            x = next(it)
            rec[2].append(x)
            yield x
        rec[3] = exc
        done()
        raise EXC[exc](self.jidx, idx, a)

    def read_logs(self):
        logs = []
        for idx in range(len(self.parts)):
            try:
                with open(self.path(idx)) as f:
                    logs.append([tuple(json.loads(line)) for line in f])
            except FileNotFoundError:
                logs.append([])
        return logs


PROC_ACTIONS = [i for i in STRICT if ACTION_NAMES[i] != 'saveAsTextFile']   # (the log files share the work directory)
PROC_NEST = [c for c in NEST_CODES if c in (0, 1, 2, 7, 8, 11, 13, 14, 40, 41, 42, 44)]


def extra_checks(rng, tier, workdir):
    """Worker processes (multiprocessing.Pool + cloudpickle): the same statement, judged by the oracle only.
    At most one partition per job exhausts (with several, Pool.map reports whichever fails first in time)."""
    import multiprocessing
    import pickle

    import cloudpickle
    n = 100 if tier == 'quick' else 1000
    mp = multiprocessing.get_context('fork')
    with mp.Pool(3) as pool:
        for k in range(n):
            maxr = rng.randint(1, 3)
            jobs = []
            for _ in range(2):
                job = random_job(rng, maxr, 0, nest_p=0.3, action=rng.choice(PROC_ACTIONS))
                action, style, pre, post, parts, _reuse = job
                seen = False
                fixed = []
                for data, plan, nest in parts:
                    nest = [(rng.choice(PROC_NEST), c) for _k, c in nest]
                    # (an exception loses its __cause__ when it is pickled back from a worker process: the
                    # PEP 479 pair RuntimeError <- StopIteration cannot be recognised there)
                    plan = [f if f is None or f[0] not in STOPITER_CODES else (6, f[1]) for f in plan]
                    if n_failing(maxr, (data, plan, nest)) >= maxr:
                        if seen:
                            plan, nest = [], [x for x in nest if x[1]]
                        seen = True
                    fixed.append((data, plan, nest))
                jobs.append(fix_job(rng, maxr, 0, (action, style, pre, post, fixed, 0)))
            jobs.append(simple_job(rng))
            case = (maxr, 1, jobs)
            sc = pysparkling.Context(pool=pool, serializer=cloudpickle.dumps, deserializer=pickle.loads, max_retries=maxr)
            result = []
            for jidx, job in enumerate(jobs):
                ds = ProcDataset(sc, maxr, jidx, job, workdir, k)
                try:
                    ds.build()
                    res = (0, ACTIONS[job[0]][3](ds.rdd, sc))
                except Exception as e:  # pylint: disable=broad-except
                    res = (1,) + describe_exc(e)
                result.append((res, ds.read_logs()))
            PROC_STATS['process_pool_cases'] += 1
            PROC_STATS['process_pool_failing_jobs'] += sum(1 for r, _l in result if r[0] == 1)
            PROC_STATS['process_pool_nested'] += sum(1 for j in jobs for p in j[4] if p[2])
            o = oracle(case, result)
            if o is not None:
                yield ('process-pool:' + o[0], o[1], repr(result)[:600], case)
    yield from user_function_checks(rng, tier)
    yield from stateful_stage_checks(rng, tier)
    yield from reconfigured_budget_checks(rng, tier)


# ------------------------------------------------------------------ faults raised by the user's own function (oracle only)

class Mark(int):
    """The element on which the user function fails (arithmetic on it gives plain ints)."""


MARK = Mark(1000)


class Flaky:
    """hit(x) raises EXC[exc](n) on the n-th evaluation of the marked element, for n <= failures."""

    def __init__(self, exc, failures):
        self.exc, self.failures, self.calls, self.lock = exc, failures, 0, threading.Lock()

    def hit(self, x):
        if isinstance(x, Mark):
            with self.lock:
                self.calls += 1
                n = self.calls
            if n <= self.failures:
                raise EXC[self.exc](n)
        return x


def _foreach_partition(fl):
    def f(it):
        for x in it:
            fl.hit(x)
    return f


def _approx(a, b):
    return abs(a - b) <= 1e-9 * max(1.0, abs(a), abs(b))


# (name, run(rdd, flaky), expected(flat list), compare): the user function is the action's own per-partition
# function, or the function of a map / filter / flatMap / mapValues stage under an action
FN_ACTIONS = [
    ('reduce(f)', lambda r, fl: r.reduce(lambda a, b: a + fl.hit(b)), sum, None),
    ('treeReduce(f)', lambda r, fl: r.treeReduce(lambda a, b: a + fl.hit(b)), sum, None),
    ('fold(f)', lambda r, fl: r.fold(0, lambda a, b: a + fl.hit(b)), sum, None),
    ('aggregate(seqOp)', lambda r, fl: r.aggregate(0, lambda a, x: a + fl.hit(x), ADD), sum, None),
    ('treeAggregate(seqOp)', lambda r, fl: r.treeAggregate(0, lambda a, x: a + fl.hit(x), ADD), sum, None),
    ('foreach(f)', lambda r, fl: r.foreach(fl.hit), lambda xs: None, None),
    ('foreachPartition(f)', lambda r, fl: r.foreachPartition(_foreach_partition(fl)), lambda xs: None, None),
    ('aggregateByKey(seqOp)', lambda r, fl: sorted(r.keyBy(K3).aggregateByKey(0, lambda a, v: a + fl.hit(v), ADD).collect()),
     lambda xs: _mod3(xs, sum), None),
    ('map(f).collect', lambda r, fl: r.map(fl.hit).collect(), list, None),
    ('map(f).sum', lambda r, fl: r.map(fl.hit).sum(), sum, None),
    ('map(f).count', lambda r, fl: r.map(fl.hit).count(), len, None),
    ('map(f).reduce', lambda r, fl: r.map(fl.hit).reduce(ADD), sum, None),
    ('map(f).fold', lambda r, fl: r.map(fl.hit).fold(0, ADD), sum, None),
    ('map(f).max', lambda r, fl: r.map(fl.hit).max(), max, None),
    ('map(f).min', lambda r, fl: r.map(fl.hit).min(), min, None),
    ('map(f).mean', lambda r, fl: r.map(fl.hit).mean(), lambda xs: sum(xs) / len(xs), _approx),
    ('map(f).stats', lambda r, fl: r.map(fl.hit).stats().count(), len, None),
    ('map(f).variance', lambda r, fl: r.map(fl.hit).variance(),
     lambda xs: sum((x - sum(xs) / len(xs)) ** 2 for x in xs) / len(xs), _approx),
    ('map(f).top', lambda r, fl: r.map(fl.hit).top(2), lambda xs: sorted(xs, reverse=True)[:2], None),
    ('map(f).takeOrdered', lambda r, fl: r.map(fl.hit).takeOrdered(2), lambda xs: sorted(xs)[:2], None),
    ('map(f).countByValue', lambda r, fl: sorted(r.map(fl.hit).countByValue().items()),
     lambda xs: [(v, xs.count(v)) for v in sorted(set(xs))], None),
    ('map(f).countByKey', lambda r, fl: sorted(r.map(fl.hit).keyBy(K3).countByKey().items()), lambda xs: _mod3(xs, len), None),
    ('map(f).collectAsMap', lambda r, fl: sorted(r.map(fl.hit).keyBy(lambda x: x).collectAsMap()), lambda xs: sorted(set(xs)), None),
    ('map(f).lookup', lambda r, fl: r.map(fl.hit).keyBy(K3).lookup(1), lambda xs: [x for x in xs if x % 3 == 1], None),
    ('map(f).distinct', lambda r, fl: sorted(r.map(fl.hit).distinct().collect()), lambda xs: sorted(set(xs)), None),
    ('map(f).sortBy', lambda r, fl: r.map(fl.hit).sortBy(lambda x: x).collect(), sorted, None),
    ('map(f).groupByKey', lambda r, fl: sorted((k, list(v)) for k, v in r.map(fl.hit).keyBy(K3).groupByKey().collect()),
     lambda xs: _mod3(xs, list), None),
    ('map(f).zipWithIndex', lambda r, fl: r.map(fl.hit).zipWithIndex().collect(), lambda xs: [(x, i) for i, x in enumerate(xs)], None),
    ('map(f).toLocalIterator', lambda r, fl: list(r.map(fl.hit).toLocalIterator()), list, None),
    ('map(f).histogram', lambda r, fl: r.map(fl.hit).histogram([-5000, 0, 5000])[1][:2],
     lambda xs: [sum(1 for x in xs if x < 0), sum(1 for x in xs if x >= 0)], None),
    ('filter(f).count', lambda r, fl: r.filter(lambda x: fl.hit(x) is not None).count(), len, None),
    ('flatMap(f).sum', lambda r, fl: r.flatMap(lambda x: [fl.hit(x)]).sum(), sum, None),
    ('mapValues(f).values.sum', lambda r, fl: r.keyBy(K3).mapValues(fl.hit).values().sum(), sum, None),
    ('mapPartitions(f).collect', lambda r, fl: r.mapPartitions(lambda it: [fl.hit(x) for x in it]).collect(), list, None),
]
FN_STATS = {'user_function_fault_runs': 0}


def user_function_checks(rng, tier):
    """exception class x method whose per-partition user function raises it on the marked element: transient
    (max_retries - 1 failures: the fault-free result after exactly max_retries evaluations) and permanent (that
    very exception, of the max_retries-th evaluation, after exactly max_retries evaluations)."""
    pool = ThreadPoolExecutor(4)
    try:
        for exc in EXC_CODES:
            for name, run, expected, cmp in FN_ACTIONS:
                for permanent in (False, True):
                    for mode in ((0, 1) if tier != 'quick' else (rng.randrange(2),)):
                        maxr = rng.choice([2, 3])
                        parts = [gen_data(rng, rng.randint(1, 3)), [rng.randint(-9, 9), MARK] + gen_data(rng, rng.randint(0, 2))]
                        if rng.random() < 0.5:
                            parts.reverse()
                        flat = [int(x) for p in parts for x in p]
                        fl = Flaky(exc, 10 ** 6 if permanent else maxr - 1)
                        sc = pysparkling.Context(pool=pool, max_retries=maxr) if mode else pysparkling.Context(max_retries=maxr)
                        try:
                            got = (0, run(sc._parallelize_partitions(parts), fl))  # pylint: disable=protected-access
                        except Exception as e:  # pylint: disable=broad-except
                            got = (1,) + describe_exc(e)
                        FN_STATS['user_function_fault_runs'] += 1
                        case = {'exception': EXC[exc].__name__, 'method': name, 'permanent': permanent, 'max_retries': maxr,
                                'executor': ['local', 'thread pool'][mode], 'partitions': [[int(x) for x in p] for p in parts],
                                'marked element': int(MARK)}
                        if permanent:
                            want = (1, exc, (maxr,))
                            ok = got == want
                        else:
                            want = (0, expected(flat))
                            ok = got[0] == 0 and (cmp(got[1], want[1]) if cmp else got[1] == want[1])
                        if not ok:
                            yield (f'user-function:{"exception" if permanent else "result"}:{name}',
                                   f'{name}: the user function raises {EXC[exc].__name__} on the marked element '
                                   f'{"on every evaluation" if permanent else f"on its first {maxr - 1} evaluation(s)"}, '
                                   f'max_retries={maxr}', f'expected {want!r}, got {got!r}', case)
                        elif fl.calls != maxr:
                            yield (f'user-function:attempts:{name}',
                                   f'{name} with {EXC[exc].__name__}: the marked element was evaluated {fl.calls} times',
                                   f'expected {maxr} (max_retries)', case)
                        # the context stays usable
                        try:
                            if sc.parallelize([1, 2, 3], 2).sum() != 6:
                                raise ValueError('wrong sum')
                        except Exception as e:  # pylint: disable=broad-except
                            yield ('user-function:follow-up', f'job after {name} / {EXC[exc].__name__}', repr(e), case)
    finally:
        pool.shutdown(wait=True)


# ------------------------------------------------------------------ stages with per-task state (oracle only)

def _numbered(i, it):
    n = 0
    for x in it:
        n += 1
        yield (x, i, n)


# the dataset the action runs on directly: (name, build(rdd, seed)); the state of such a stage (the seeded
# generator of a sample, the running index of a zip, a counter) must start afresh in every attempt
STATEFUL_STAGES = [
    ('sample', lambda r, seed: r.sample(False, 0.5, seed)),
    ('sample-with-replacement', lambda r, seed: r.sample(True, 1.5, seed)),
    ('sampleByKey', lambda r, seed: r.keyBy(K3).sampleByKey(False, {0: 0.5, 1: 0.6, 2: 0.4}, seed)),
    ('sampleByKey-with-replacement', lambda r, seed: r.keyBy(K3).sampleByKey(True, {0: 1.2, 1: 0.8, 2: 1.5}, seed)),
    ('zipWithUniqueId', lambda r, seed: r.zipWithUniqueId()),
    ('zipWithIndex', lambda r, seed: r.zipWithIndex()),
    ('mapPartitionsWithIndex-counter', lambda r, seed: r.mapPartitionsWithIndex(_numbered)),
    ('sample.zipWithUniqueId', lambda r, seed: r.sample(False, 0.6, seed).zipWithUniqueId()),
    ('sample.persist', lambda r, seed: r.sample(False, 0.5, seed).persist()),
]
STATEFUL_ACTIONS = [
    ('collect', lambda r: r.collect()),
    ('count', lambda r: r.count()),
    ('toLocalIterator', lambda r: list(r.toLocalIterator())),
    ('countByValue', lambda r: sorted(r.countByValue().items())),
    ('glom.collect', lambda r: r.glom().collect()),
    ('take(3)', lambda r: r.take(3)),
]
ST_STATS = {'stateful_stage_runs': 0}


def stateful_stage_checks(rng, tier):
    """The dataset under the action is a seeded sample()/sampleByKey(), zipWithUniqueId(), zipWithIndex() or a
    counting mapPartitionsWithIndex(); the stage below it raises (before / mid-partition / after the last element)
    on the first k attempts of one partition and then succeeds: the result must be EXACTLY the result of the same
    seeded pipeline without faults (same elements, not only the same number), with k + 1 attempts.  Control: the
    same with map(identity) on top."""
    quick = tier == 'quick'
    pool = ThreadPoolExecutor(8)
    try:
        for sname, stage in STATEFUL_STAGES:
            for pos in (1, 2, 0):
                for aname, act in STATEFUL_ACTIONS:
                    for mode in (0, 1, 2):
                        for control in (False, True):
                            if quick and rng.random() < 0.5:
                                continue
                            maxr = rng.choice([2, 3, 4])
                            k = rng.randint(1, maxr - 1)
                            seed = rng.randrange(1000)
                            style = rng.randrange(2)
                            n = rng.randint(2, 3)
                            bad = rng.randrange(n)
                            datas = [[rng.randint(-20, 20) for _ in range(rng.randint(5, 9))] for _ in range(n)]
                            exc = rng.choice(EXC_CODES)

                            def run(faulty, maxr=maxr, mode=mode, style=style, datas=datas, bad=bad, k=k, exc=exc, pos=pos,
                                    stage=stage, seed=seed, control=control, act=act, aname=aname):
                                lazy_take = aname.startswith('take')
                                parts = [(d, [(exc, pos)] * k if faulty and i == bad else [], []) for i, d in enumerate(datas)]
                                sc = pysparkling.Context(pool=pool, max_retries=maxr) if mode and faulty else \
                                    pysparkling.Context(max_retries=maxr)
                                ds = Dataset(sc, maxr, mode if faulty else 0, 0, (2 if lazy_take else 0, style, [], [], parts, 0))
                                ds.barrier = threading.Barrier(len(parts)) if mode == 1 and faulty and not lazy_take else None
                                try:
                                    ds.build()
                                    r = stage(ds.rdd, seed)
                                    if control:
                                        r = r.map(lambda x: x)
                                    return (0, act(r)), ds
                                except Exception as e:  # pylint: disable=broad-except
                                    return (1,) + describe_exc(e), ds
                            want, _ = run(False)
                            got, ds = run(True)
                            ST_STATS['stateful_stage_runs'] += 1
                            case = {'stage': sname + ('.map(identity)' if control else ''), 'action': aname, 'seed': seed,
                                    'partitions': datas, 'failing partition': bad, 'failing attempts': k, 'max_retries': maxr,
                                    'position': ['before first', 'mid-partition', 'after last'][pos],
                                    'exception': EXC[exc].__name__, 'task function': ['generator', 'eager'][style],
                                    'executor': ['local', 'thread pool (barrier)', 'thread pool'][mode]}
                            # take(3) over a generator surfaces the first error directly (lazy action): only judge it
                            # when the stage is computed inside the task (eager function or a materialising stage)
                            if aname.startswith('take') and not style and 'persist' not in sname and sname != 'zipWithIndex':
                                continue
                            if want[0] != 0:
                                yield ('stateful-stage:reference', f'{sname} / {aname}: the fault-free run failed', repr(want), case)
                            elif got != want:
                                yield (f'stateful-stage:result:{sname}',
                                       f'{case["stage"]} under {aname}: {k} failing attempt(s) {case["position"]} of partition {bad}, '
                                       f'then success', f'fault-free result {want[1]!r}, with the transient fault {(got[1] if got[0] == 0 else got)!r}', case)
                            else:
                                calls = len(ds.log[bad])
                                if calls != k + 1 and not aname.startswith('take'):
                                    yield (f'stateful-stage:attempts:{sname}', f'{case["stage"]} under {aname}',
                                           f'partition {bad} computed {calls} times, expected {k + 1}', case)
    finally:
        pool.shutdown(wait=True)


# ------------------------------------------------------------------ max_retries changed after construction (oracle only)

RC_STATS = {'reconfigured_budget_runs': 0}


def reconfigured_budget_checks(rng, tier):
    """Context(max_retries=c); then sc.max_retries = n (before the first job, or between two jobs); a partition
    whose number of failing attempts lies between the two budgets.  'The configured number of attempts' is the
    value of the public attribute when the job starts: the job is judged by the oracle with that value."""
    del tier        # the whole product in both tiers
    for c in (1, 2, 3, 4):
        for n in (1, 2, 3, 4):
            if n == c:
                continue
            for when in ('before the first job', 'between two jobs'):
                for mode in (0, 1):
                    for f in range(max(0, min(c, n) - 1), max(c, n) + 1):
                        pool = ThreadPoolExecutor(8) if mode else None
                        sc = pysparkling.Context(pool=pool, max_retries=c) if pool else pysparkling.Context(max_retries=c)
                        steps = []      # (budget in force, job)
                        if when == 'between two jobs':
                            g = rng.randint(0, c)       # the first job runs under the constructor's value
                            parts0 = [(gen_data(rng, 2), [gen_fault(rng) for _ in range(g)], [])]
                            steps.append((c, fix_job(rng, c, mode, (rng.choice(STRICT), rng.randrange(2), [], [], parts0, 0))))
                        parts = [(gen_data(rng, rng.randint(1, 3)), [], []),
                                 (gen_data(rng, rng.randint(2, 3)), [gen_fault(rng) for _ in range(f)], [])]
                        if rng.random() < 0.5:
                            parts.reverse()
                        steps.append((n, fix_job(rng, n, mode, (rng.choice(STRICT), rng.randrange(2), [], gen_ops(rng, True)[:1], parts, 0))))
                        steps.append((n, simple_job(rng)))
                        ran = []
                        try:
                            for jidx, (budget, job) in enumerate(steps):
                                if sc.max_retries != budget:
                                    sc.max_retries = budget
                                res, ds = run_job(sc, budget, mode, jidx, job, None)
                                ran.append((budget, job, res, ds))
                        finally:
                            if pool:
                                pool.shutdown(wait=True)
                        RC_STATS['reconfigured_budget_runs'] += 1
                        case = {'constructor max_retries': c, 'assigned max_retries': n, 'assigned': when,
                                'executor': ['local', 'thread pool'][mode], 'failing attempts': f,
                                'jobs': [canon(j) for _b, j, _r, _d in ran]}
                        for jidx, (budget, job, res, ds) in enumerate(ran):
                            ctx = dict(resolve([job])[0], origin=jidx, maybe_cached=[False] * len(job[4]))
                            logs = [[(r[0], list(r[1]), list(r[2]), SUSPENDED if r[3] is None else r[3]) for r in l] for l in ds.log]
                            o = oracle_job(budget, mode, job[0], ctx, [0] * len(job[4]), res, logs)
                            if o is not None:
                                yield ('reconfigured-budget:' + o[0],
                                       f'Context(max_retries={c}), sc.max_retries = {n} {when}; job {jidx} runs with max_retries={budget}',
                                       o[1], case)
                                break


def extra_evidence():
    return dict(PROC_STATS, **FN_STATS, **ST_STATS, **RC_STATS, exception_classes=len(EXC), actions=len(ACTIONS), nested_operation_kinds=len(NEST_OPS), lineage_ops=len(OPS))


# ------------------------------------------------------------------ shrinking

def shrink_candidates(case):
    for c in _shrink_candidates(case):
        if valid(c):
            yield c


def _shrink_candidates(case):
    maxr, mode, jobs = case
    if len(jobs) > 1:
        for i in range(len(jobs)):
            rest = jobs[:i] + jobs[i + 1:]
            yield (maxr, mode, rest)
    for ji, job in enumerate(jobs):
        action, style, pre, post, parts, reuse = job

        def rebuilt(new_job, ji=ji):
            return (maxr, mode, jobs[:ji] + [new_job] + jobs[ji + 1:])
        if len(parts) > 1:
            for i in range(len(parts)):
                yield rebuilt((action, style, pre, post, parts[:i] + parts[i + 1:], reuse))
        for i in range(len(pre)):
            yield rebuilt((action, style, pre[:i] + pre[i + 1:], post, parts, reuse))
        for i in range(len(post)):
            yield rebuilt((action, style, pre, post[:i] + post[i + 1:], parts, reuse))
        if action != 0:
            yield rebuilt((0, style, pre, post, parts, reuse))
        for i, (data, plan, nest) in enumerate(parts):
            for k in range(len(nest)):
                yield rebuilt((action, style, pre, post, parts[:i] + [(data, plan, nest[:k] + nest[k + 1:])] + parts[i + 1:], reuse))
            if len(data) > 1:
                yield rebuilt((action, style, pre, post, parts[:i] + [(data[:-1], plan, nest)] + parts[i + 1:], reuse))
    if mode:
        yield (maxr, 0, jobs)
