"""C19 -- type descriptions round-trip and inferred schemas accept their data.

case = (kind, payload):
  ('json',  tree)   jsonValue() of the tree and _parse_datatype_json_string(tree.json())
  ('parse', json)   _parse_datatype_json_value on a (possibly damaged) JSON value

Encodings shared with coq/Run/C19_run.v:
  type tree  'string' | ('decimal', p, s) | ('array', elem, containsNull) | ('map', key, value, valueContainsNull)
             | ('struct', [(name, type, nullable, metadata)])
  JSON       None/bool/int/float/str, list, object -> ([(key, value), ...],)   (a 1-tuple holding the item list)
"""
import os
import time

os.environ['TZ'] = 'UTC'
time.tzset()

from common.coqlit import Err  # noqa: E402
from pysparkling.sql import types as T  # noqa: E402

ID = 'C19'
KERNELS = ['Gen/TypeTables.v: type_names', 'Gen/TypeTables.v: decimal', 'Gen/TypeTables.v: type_mappings',
           'Gen/TypeTables.v: acceptable_types', 'Gen/TypeTables.v: verifier_dispatch',
           'Gen/TypeTables.v: need_conversion', 'Gen/TypeTables.v: json_keys']
SHARD = 200
RULE = ''
ASSUMPTIONS = []
TRUSTED = []

ATOMS = {'string': T.StringType, 'binary': T.BinaryType, 'boolean': T.BooleanType, 'float': T.FloatType,
         'double': T.DoubleType, 'byte': T.ByteType, 'short': T.ShortType, 'integer': T.IntegerType,
         'long': T.LongType, 'date': T.DateType, 'timestamp': T.TimestampType, 'null': T.NullType}
ATOM_NAMES = list(ATOMS)
DECIMALS = [('decimal', 10, 0), ('decimal', 38, 18), ('decimal', 5, -2), ('decimal', 0, 0)]
LEAVES = ATOM_NAMES + DECIMALS


# ------------------------------------------------------------------ encodings
def enc_json(v):
    if isinstance(v, dict):
        return ([(k, enc_json(x)) for k, x in v.items()],)
    if isinstance(v, (list, tuple)):
        return [enc_json(x) for x in v]
    return v


def dec_json(e):
    if isinstance(e, tuple):
        return {k: dec_json(x) for k, x in e[0]}
    if isinstance(e, list):
        return [dec_json(x) for x in e]
    return e


def build_type(e):
    if isinstance(e, str):
        return ATOMS[e]()
    tag = e[0]
    if tag == 'decimal':
        return T.DecimalType(e[1], e[2])
    if tag == 'array':
        return T.ArrayType(build_type(e[1]), e[2])
    if tag == 'map':
        return T.MapType(build_type(e[1]), build_type(e[2]), e[3])
    if tag == 'struct':
        return T.StructType([T.StructField(n, build_type(t), nl, dec_json(md)) for n, t, nl, md in e[1]])
    raise ValueError(e)


def enc_type(t):
    if isinstance(t, T.DecimalType):
        return ('decimal', t.precision, t.scale)
    if isinstance(t, T.ArrayType):
        return ('array', enc_type(t.elementType), t.containsNull)
    if isinstance(t, T.MapType):
        return ('map', enc_type(t.keyType), enc_type(t.valueType), t.valueContainsNull)
    if isinstance(t, T.StructType):
        return ('struct', [(f.name, enc_type(f.dataType), f.nullable, enc_json(f.metadata)) for f in t.fields])
    for name, cls in ATOMS.items():
        if type(t) is cls:
            return name
    raise TypeError(f'cannot encode type {t!r}')


def exc(e):
    return Err(type(e).__name__)


# ------------------------------------------------------------------ implementation side
def impl(case):
    kind = case[0]
    if kind == 'json':
        t = build_type(case[1])
        try:
            jv = t.jsonValue()
            parsed = T._parse_datatype_json_string(t.json())
        except Exception as e:  # pylint: disable=broad-except
            return exc(e)
        return (enc_json(jv), enc_type(parsed))
    if kind == 'parse':
        try:
            return enc_type(T._parse_datatype_json_value(dec_json(case[1])))
        except Exception as e:  # pylint: disable=broad-except
            return exc(e)
    raise ValueError(kind)


# ------------------------------------------------------------------ oracle (implementation only)
def oracle(case, result):
    kind = case[0]
    if kind == 'json':
        t = build_type(case[1])
        try:
            back = T._parse_datatype_json_string(t.json())
            back2 = T._parse_datatype_json_value(t.jsonValue())
        except Exception as e:  # pylint: disable=broad-except
            return (f'json-roundtrip:raises:{type(e).__name__}:{top(case[1])}', f'{t!r}: {e!r}')
        if not (back == t and t == back) or not (back2 == t):
            return (f'json-roundtrip:differs:{top(case[1])}', f'{t!r} came back as {back!r}')
        if back.json() != t.json() or repr(back) != repr(t):
            return (f'json-roundtrip:description-differs:{top(case[1])}', f'{t.json()} vs {back.json()}')
        return None
    if kind == 'parse':
        want = case[2] if len(case) > 2 else None
        if want is not None and result != want:
            return ('parse:decimal-string', f'{case[1]!r} parsed to {result!r}, expected {want!r}')
        return None
    return None


def top(e):
    return e if isinstance(e, str) else e[0]


def kind(case):
    if case[0] == 'json':
        return f'json/{top(case[1])}/d{depth(case[1])}'
    if case[0] == 'parse':
        return 'parse/' + (case[3] if len(case) > 3 else 'x')
    return case[0]


def depth(e):
    if isinstance(e, str) or e[0] == 'decimal':
        return 0
    if e[0] == 'array':
        return 1 + depth(e[1])
    if e[0] == 'map':
        return 1 + max(depth(e[1]), depth(e[2]))
    return 1 + max([depth(f[1]) for f in e[1]] + [0])


def nontrivial(case, result):
    if case[0] == 'json':
        return depth(case[1]) >= 1 or not isinstance(case[1], str)
    return True


# ------------------------------------------------------------------ generators
NAMES = ['a', 'b', 'c', 'x', 'some_col', 'Col 1', 'é', 'type', 'name', '', '日本', 'a.b', 'nullable']
METAS = [{}, {'k': 1}, {'b': None, 'a': [1, 'x', {'z': True, 'y': 2.5}], 'c': {'q': -3, 'p': ''}},
         {'z': 0, 'a': False}, {'comment': 'some text', 'é': [[], {}]}, {'n': 10 ** 30, 'f': -0.0, 'g': 1e-7}]


def rand_meta(rng):
    if rng.random() < 0.5:
        return {}
    if rng.random() < 0.5:
        return rng.choice(METAS)

    def val(d):
        r = rng.random()
        if d > 2 or r < 0.5:
            return rng.choice([None, True, False, 0, 1, -7, 2 ** 40, 1.5, -2.25, 'x', '', 'é', 'long text'])
        if r < 0.75:
            return [val(d + 1) for _ in range(rng.randint(0, 3))]
        return {k: val(d + 1) for k in rng.sample(['a', 'b', 'c', 'z', 'y', 'k1', 'K', ''], rng.randint(0, 3))}
    return {k: val(0) for k in rng.sample(['m', 'a', 'zz', 'b', 'comment', 'A', '_'], rng.randint(1, 3))}


def depth1(metas=(0, 1)):
    out = []
    for e in LEAVES:
        for b in (True, False):
            out.append(('array', e, b))
    for k in LEAVES:
        for v in LEAVES:
            for b in (True, False):
                out.append(('map', k, v, b))
    out.append(('struct', []))
    for e in LEAVES:
        for nl in (True, False):
            for mi in metas:
                out.append(('struct', [('f', e, nl, enc_json(METAS[mi]))]))
    return out


def depth2(d1):
    out = []
    for e in d1:
        for b in (True, False):
            out.append(('array', e, b))
    nonmap = [e for e in d1 if e[0] != 'map']
    maps = [e for e in d1 if e[0] == 'map']
    for k in LEAVES:
        for v in nonmap:
            for b in (True, False):
                out.append(('map', k, v, b))
    for v in maps:
        out.append(('map', 'string', v, True))
        out.append(('map', v, 'long', False))
    for k in nonmap:
        out.append(('map', k, 'string', True))
    for e in d1:
        for nl in (True, False):
            out.append(('struct', [('f', e, nl, enc_json({}))]))
    for i in range(0, len(d1) - 1, 2):
        out.append(('struct', [('a', d1[i], True, enc_json(METAS[2])), ('b', d1[i + 1], False, enc_json({}))]))
    return out


def rand_tree(rng, d, struct_bias=0.4):
    if d == 0 or rng.random() < 0.15:
        if rng.random() < 0.2:
            return ('decimal', rng.choice([0, 1, 5, 10, 38, 100, rng.randint(0, 10 ** 6)]),
                    rng.choice([0, 1, -1, 2, 18, -18, rng.randint(-50, 50)]))
        return rng.choice(ATOM_NAMES)
    r = rng.random()
    if r < struct_bias:
        n = rng.randint(0, 4)
        names = rng.sample(NAMES, n)
        return ('struct', [(nm, rand_tree(rng, d - 1), rng.random() < 0.5, enc_json(rand_meta(rng))) for nm in names])
    if r < struct_bias + 0.3:
        return ('array', rand_tree(rng, d - 1), rng.random() < 0.5)
    return ('map', rand_tree(rng, d - 1), rand_tree(rng, d - 1), rng.random() < 0.5)


def json_paths(j, path=()):
    """All positions of a JSON value (as encoded): yields (path, value)."""
    yield path, j
    if isinstance(j, tuple):
        for i, (_, v) in enumerate(j[0]):
            yield from json_paths(v, path + (('o', i),))
    elif isinstance(j, list):
        for i, v in enumerate(j):
            yield from json_paths(v, path + (('l', i),))


def json_replace(j, path, f):
    """Replace the value at path by f(value); f may return DROP to delete an object entry / list element."""
    if not path:
        return f(j)
    (k, i), rest = path[0], path[1:]
    if k == 'o':
        items = list(j[0])
        key, v = items[i]
        nv = json_replace(v, rest, f)
        if nv is DROP:
            del items[i]
        else:
            items[i] = (key, nv)
        return (items,)
    items = list(j)
    nv = json_replace(items[i], rest, f)
    if nv is DROP:
        del items[i]
    else:
        items[i] = nv
    return items


DROP = object()
BAD_TYPE_STRINGS = ['int', 'foo', '', 'String', 'bigint', 'decimal(1,2', 'decimal(,2)', 'decimal(1,)', 'decimal(1;2)',
                    'Decimal(1,2)', ' decimal(1,2)', 'decimal (1,2)', 'decimal(+1,2)', 'decimal(1,+2)', 'decimal(1,--2)',
                    'decimal(1 0,2)', 'decimal(1,2 3)', 'decimal(1_0,2)', 'decimal(a,2)', 'decimal()', 'decimal(1.5,2)',
                    'decimal(-1,2)', 'array', 'struct', 'map', 'udt', 'decimal(1,2)x', 'decimal( 7 ,\t-3\n) trailing',
                    'decimal(007,-0)', 'decimal(\x1c1\x1f,\x0b2\x0c)', 'decimal', 'null', 'timestamp ']
SCALARS = [None, True, False, 0, 5, 1.5, 0.0, '', 'x', [], [1], ([],), ([('a', 1)],)]


def damage(rng, j):
    """One random single-position damage of an encoded JSON description; returns (json, label) or None."""
    paths = list(json_paths(j))
    path, v = rng.choice(paths)
    key = None
    if path and path[-1][0] == 'o':
        parent = j
        for k, i in path[:-1]:
            parent = parent[0][i][1] if k == 'o' else parent[i]
        key = parent[0][path[-1][1]][0]
    r = rng.random()
    if key != 'metadata' and _under_metadata(j, path):
        return None
    if key in ('containsNull', 'valueContainsNull', 'nullable'):
        return json_replace(j, path, lambda _: DROP), 'drop-key'
    if key == 'name':
        if r < 0.5:
            return json_replace(j, path, lambda _: DROP), 'drop-key'
        return json_replace(j, path, lambda _: rng.choice([5, None, True, ['a'], 1.5])), 'name-not-str'
    if key == 'metadata':
        if r < 0.4:
            return json_replace(j, path, lambda _: DROP), 'drop-key'
        return json_replace(j, path, lambda _: rng.choice([None, False, 0, 0.0, -0.0, '', [], ([],)])), 'metadata-falsy'
    if isinstance(v, str) and key in ('type', 'elementType', 'keyType', 'valueType'):
        if r < 0.6:
            return json_replace(j, path, lambda _: rng.choice(BAD_TYPE_STRINGS)), 'type-string'
        if r < 0.8:
            return json_replace(j, path, lambda _: rng.choice(SCALARS)), 'scalar'
        return json_replace(j, path, lambda _: DROP), 'drop-key'
    if key == 'fields':
        if r < 0.3:
            return json_replace(j, path, lambda _: DROP), 'drop-key'
        return json_replace(j, path, lambda _: rng.choice([([],), '', 'ab', 5, None, ([('a', 1)],), ['x'], [5], [[]],
                                                             [None]])), 'fields'
    if r < 0.4:
        return json_replace(j, path, lambda _: DROP), 'drop'
    return json_replace(j, path, lambda _: rng.choice(SCALARS)), 'scalar'


def _under_metadata(j, path):
    cur = j
    for k, i in path:
        if k == 'o':
            name, cur = cur[0][i]
            if name == 'metadata':
                return True
        else:
            cur = cur[i]
    return False


def has_key(j, name):
    return any(isinstance(v, tuple) and any(k == name for k, _ in v[0]) for _, v in json_paths(j))


def decimal_string_cases(rng, n):
    ws = ['', ' ', '  ', '\t', '\n', ' \t ', '\r\n', '\x0b', '\x0c', '\x1c', '\x1d\x1e\x1f']
    out = []
    for _ in range(n):
        p = rng.choice([0, 1, 7, 10, 38, 99, rng.randint(0, 10 ** 12)])
        s = rng.choice([0, 1, -1, 18, -18, rng.randint(-10 ** 6, 10 ** 6)])
        ps = '0' * rng.choice([0, 0, 1, 3]) + str(p)
        ss = ('-' if s < 0 else '') + '0' * rng.choice([0, 0, 2]) + str(abs(s))
        if s == 0 and rng.random() < 0.3:
            ss = '-0'
        w = [rng.choice(ws) for _ in range(5)]
        tail = rng.choice(['', '', ' ', 'x', ')', '(1,2)', '\n'])
        text = f'decimal({w[0]}{ps}{w[1]},{w[2]}{ss}{w[3]}){tail}'
        out.append(('parse', text, ('decimal', p, s), 'decimal-string'))
    return out


def generate(rng, tier):
    quick = tier == 'quick'
    cases = []
    # ---- JSON round trip: depth 0 and 1 exhaustively, depth 2 exhaustively (thorough) / sampled (quick), depth 3 sampled
    for e in LEAVES:
        cases.append(('json', e))
    d1 = depth1()
    cases.extend(('json', e) for e in d1)
    d2 = depth2(d1)
    cases.extend(('json', e) for e in (d2 if not quick else rng.sample(d2, 700)))
    for _ in range(300 if quick else 4000):
        cases.append(('json', rand_tree(rng, 3)))
    for _ in range(60 if quick else 600):
        cases.append(('json', rand_tree(rng, rng.choice([4, 5, 6]))))
    # ---- the parser on damaged descriptions and on the decimal(p,s) string forms
    cases.extend(decimal_string_cases(rng, 150 if quick else 2000))
    for s in BAD_TYPE_STRINGS + ATOM_NAMES:
        cases.append(('parse', s, None, 'type-string'))
    for s in SCALARS:
        cases.append(('parse', s, None, 'scalar'))
    pool = d1 + (rng.sample(d2, 300) if quick else d2[::3])
    n = 0
    want = 500 if quick else 6000
    while n < want:
        e = rng.choice(pool) if rng.random() < 0.6 else rand_tree(rng, 3, struct_bias=0.6)
        j = enc_json(build_type(e).jsonValue())
        d = damage(rng, j)
        if d is None or d[0] is DROP or has_key(d[0], 'pyClass'):
            continue
        cases.append(('parse', d[0], None, d[1]))
        n += 1
    return cases


def shrink_candidates(case):
    if case[0] == 'json':
        e = case[1]
        if isinstance(e, tuple):
            if e[0] == 'array':
                yield ('json', e[1])
            elif e[0] == 'map':
                yield ('json', e[1])
                yield ('json', e[2])
            elif e[0] == 'struct':
                for i, f in enumerate(e[1]):
                    yield ('json', ('struct', e[1][:i] + e[1][i + 1:]))
                    yield ('json', f[1])
                    if f[3] != ([],):
                        yield ('json', ('struct', e[1][:i] + [(f[0], f[1], f[2], ([],))] + e[1][i + 1:]))
