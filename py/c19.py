"""C19 -- type descriptions round-trip and inferred schemas accept their data.

case = (kind, payload):
  ('json',  tree)   jsonValue() of the tree and _parse_datatype_json_string(tree.json())
  ('parse', json, expected|None, label)      _parse_datatype_json_value on a (possibly damaged) JSON value
  ('infer', rows, label, tree)               schema_utils.infer_schema_from_list(rows)
  ('merge', tree_a, tree_b)                  _merge_type(a, b)
  ('verify', tree, nullable, value, label)   _make_type_verifier(tree, nullable)(value)
  ('create', rows, label, tree)              SparkSession.createDataFrame(rows).collect() (schema inferred)
  ('create_rdd', rows, label, tree, slices)  the same with sc.parallelize(rows, slices) as input (SparkSession._inferSchema)
  ('create_s', schema, rows, label)          SparkSession.createDataFrame(rows, schema).collect()
  ('create_named', rows, names, path, flavour, slices, label, tree)
                                             createDataFrame(rows | sc.parallelize(rows, slices), names).collect(); rows are
                                             Row(**kw) / Row(*names)(*values) / namedtuples / plain tuples (flavour)
  ('row', value)                             pickle round trip, asDict(), asDict(True) of a Row

Encodings shared with coq/Run/C19_run.v:
  type tree  'string' | ('decimal', p, s) | ('array', elem, containsNull) | ('map', key, value, valueContainsNull)
             | ('struct', [(name, type, nullable, metadata)])
  JSON       None/bool/int/float/str, list, object -> ([(key, value), ...],)   (a 1-tuple holding the item list)
  values     None/bool/int/float/str, list, ('bytearray', b) ('bytes', b) ('Decimal', str) ('date', ordinal)
             ('datetime', microseconds, None | utc offset seconds) ('tuple', [..]) ('dict', [(k, v)]) ('Row', [names], [values])
"""
import collections
import datetime
import decimal
import glob
import json
import os
import pickle
import time

os.environ['TZ'] = 'UTC'
time.tzset()

from common.coqlit import Err, uncanon  # noqa: E402
from pysparkling import Context  # noqa: E402
from pysparkling.sql import types as T  # noqa: E402
from pysparkling.sql.schema_utils import infer_schema_from_list  # noqa: E402
from pysparkling.sql.session import SparkSession  # noqa: E402

ID = 'C19'
KERNELS = ['Gen/TypeTables.v: type_names', 'Gen/TypeTables.v: decimal', 'Gen/TypeTables.v: type_mappings',
           'Gen/TypeTables.v: acceptable_types', 'Gen/TypeTables.v: verifier_dispatch',
           'Gen/TypeTables.v: need_conversion', 'Gen/TypeTables.v: json_keys']
SHARD = 400
RULE = ('type trees: all 16 leaves (12 atomic types, 4 decimals), every depth-1 tree over them (arrays, maps, '
        'one-field structs with both nullabilities and two metadata dicts), every depth-2 tree built from those '
        '(thorough; 600 sampled in quick), sampled depth 3..6 trees with random names/metadata -- each through '
        'jsonValue(), json() and _parse_datatype_json_string; the parser on decimal(p,s) strings with random '
        'whitespace/leading zeros/trailing text and on JSON descriptions with one damaged position (key dropped, '
        'type string replaced, sub-value replaced by a scalar, falsy metadata, non-string name); rows: for every '
        'leaf and depth-1 tree (sampled depth-2/3 trees) as a column, a full Row plus one Row per nullable '
        'position holding a null exactly there, random rows with nulls, through createDataFrame with the schema '
        'inferred (list input and sc.parallelize input) and with the explicit schema; late-typed rows (a position that '
        'is None / [] / {} / [None] / {k: None} in some rows and populated in another) in every row order; '
        'a list of column names as schema (own / permuted / fresh / fewer / repeated / no names) over Row(**kw), '
        'Row(*names)(*values), namedtuples and plain tuples, list and RDD input; explicit schemas with mixed-type fields in non-alphabetical order against Rows re-listed alphabetically / '
        'reversed / shuffled at every nesting level (valid and single-position damaged); single-position damages of a valid row (null in a non-nullable '
        'position incl. map keys, a value of a wrong Python type, an out-of-range integer, wrong arity, missing '
        'field) through createDataFrame(schema) and the verifier directly (struct values as Row/tuple/dict); '
        'Rows through pickle (protocols 2 and highest), asDict() and asDict(True); pairs of partially erased '
        'trees through _merge_type. non-trivial = tree of depth >= 1 or non-atomic leaf / non-empty row list; '
        'distinct by canonical JSON of the case')
ASSUMPTIONS = [
    'json.loads(json.dumps(v, sort_keys=True)) returns v with every dict re-ordered by key (model: jsort); the json '
    'module is otherwise a black box; metadata values are None/bool/int/finite float/str/list/dict with str keys',
    'the decimal(p,s) matcher is modelled for ASCII input (\\d = 0-9, \\s = \\t\\n\\v\\f\\r \\x1c-\\x1f and space)',
    'the harness runs with TZ=UTC, so astimezone() converts to offset 0 (the theorems hold for any local offset)',
    'pickle is a black box that stores containers element-wise and calls Row.__reduce__; modelled: what __reduce__ '
    'returns and what create_row rebuilds',
    'map keys are hashable atoms; rows are Row objects (tuples at the top level in some explicit-schema cases); '
    'damaged JSON descriptions keep boolean flags boolean and never contain pyClass (user-defined types are out of scope)',
    'Decimal, date, datetime payloads are opaque to the model (identified by string / ordinal / microseconds)',
    'values generated for a long column are 64-bit integers (a Python int beyond that is inferred as LongType and then '
    'rejected by the verifier, as in Spark)',
]
TRUSTED = ['translator/kernels/c19.py (tables emitted as Gallina text from the ast of sql/types.py)',
           'py/c19.py encoders of type trees, JSON values and Python values; coq/Run/C19_run.v decoders']

ATOMS = {'string': T.StringType, 'binary': T.BinaryType, 'boolean': T.BooleanType, 'float': T.FloatType,
         'double': T.DoubleType, 'byte': T.ByteType, 'short': T.ShortType, 'integer': T.IntegerType,
         'long': T.LongType, 'date': T.DateType, 'timestamp': T.TimestampType, 'null': T.NullType}
ATOM_NAMES = list(ATOMS)
DECIMALS = [('decimal', 10, 0), ('decimal', 38, 18), ('decimal', 5, -2), ('decimal', 0, 0)]
LEAVES = ATOM_NAMES + DECIMALS


# ------------------------------------------------------------------ encodings
def enc_json(v):
    if isinstance(v, dict):
        return ([(k, enc_json(x)) for k, x in v.items()],)
    if isinstance(v, (list, tuple)):
        return [enc_json(x) for x in v]
    return v


def dec_json(e):
    if isinstance(e, tuple):
        return {k: dec_json(x) for k, x in e[0]}
    if isinstance(e, list):
        return [dec_json(x) for x in e]
    return e


def build_type(e):
    if isinstance(e, str):
        return ATOMS[e]()
    tag = e[0]
    if tag == 'decimal':
        return T.DecimalType(e[1], e[2])
    if tag == 'array':
        return T.ArrayType(build_type(e[1]), e[2])
    if tag == 'map':
        return T.MapType(build_type(e[1]), build_type(e[2]), e[3])
    if tag == 'struct':
        return T.StructType([T.StructField(n, build_type(t), nl, dec_json(md)) for n, t, nl, md in e[1]])
    raise ValueError(e)


def enc_type(t):
    if isinstance(t, T.DecimalType):
        return ('decimal', t.precision, t.scale)
    if isinstance(t, T.ArrayType):
        return ('array', enc_type(t.elementType), t.containsNull)
    if isinstance(t, T.MapType):
        return ('map', enc_type(t.keyType), enc_type(t.valueType), t.valueContainsNull)
    if isinstance(t, T.StructType):
        return ('struct', [(f.name, enc_type(f.dataType), f.nullable, enc_json(f.metadata)) for f in t.fields])
    for name, cls in ATOMS.items():
        if type(t) is cls:
            return name
    raise TypeError(f'cannot encode type {t!r}')


EPOCH = datetime.datetime(1970, 1, 1)
EPOCH_UTC = datetime.datetime(1970, 1, 1, tzinfo=datetime.timezone.utc)
US = datetime.timedelta(microseconds=1)


def enc_val(v):
    if v is None or isinstance(v, (bool, int, float, str)):
        return v
    if isinstance(v, bytearray):
        return ('bytearray', bytes(v))
    if isinstance(v, bytes):
        return ('bytes', v)
    if isinstance(v, decimal.Decimal):
        return ('Decimal', str(v))
    if isinstance(v, datetime.datetime):
        if v.tzinfo is None:
            return ('datetime', (v - EPOCH) // US, None)
        off = v.utcoffset()
        return ('datetime', (v - EPOCH_UTC) // US, off.days * 86400 + off.seconds)
    if isinstance(v, datetime.date):
        return ('date', v.toordinal())
    if isinstance(v, T.Row):
        if not hasattr(v, '__fields__'):
            raise TypeError('Row class')
        return ('Row', list(v.__fields__), [enc_val(x) for x in v])
    if isinstance(v, tuple):
        return ('tuple', [enc_val(x) for x in v])
    if isinstance(v, list):
        return [enc_val(x) for x in v]
    if isinstance(v, dict):
        return ('dict', [(enc_val(k), enc_val(x)) for k, x in v.items()])
    raise TypeError(f'cannot encode value {v!r}')


def dec_val(e):
    if isinstance(e, list):
        return [dec_val(x) for x in e]
    if isinstance(e, tuple):
        tag = e[0]
        if tag == 'bytearray':
            return bytearray(e[1])
        if tag == 'bytes':
            return bytes(e[1])
        if tag == 'Decimal':
            return decimal.Decimal(e[1])
        if tag == 'date':
            return datetime.date.fromordinal(e[1])
        if tag == 'datetime':
            if e[2] is None:
                return EPOCH + e[1] * US
            return (EPOCH_UTC + e[1] * US).astimezone(datetime.timezone(datetime.timedelta(seconds=e[2])))
        if tag == 'tuple':
            return tuple(dec_val(x) for x in e[1])
        if tag == 'dict':
            return {dec_val(k): dec_val(x) for k, x in e[1]}
        if tag == 'Row':
            return T.create_row(e[1], [dec_val(x) for x in e[2]])
        if tag == 'namedtuple':
            return named_class(tuple(e[1]))(*[dec_val(x) for x in e[2]])
        raise ValueError(e)
    return e


_NT = {}


def named_class(names):
    if names not in _NT:
        _NT[names] = collections.namedtuple('NT', names)
    return _NT[names]


def flavoured(enc_row, flavour):
    """The Python row of a create_named case: the encoded Row / namedtuple / tuple in the requested flavour."""
    if flavour == 'kw':
        return T.Row(**dict(zip(enc_row[1], [dec_val(x) for x in enc_row[2]])))
    if flavour == 'pos':
        return T.Row(*enc_row[1])(*[dec_val(x) for x in enc_row[2]])
    return dec_val(enc_row)


def same(a, b):
    """Structural identity of two Python values as the property means "equal": same types, same field names,
    same contents; floats bit-for-bit except that any NaN equals any NaN; aware datetimes by instant."""
    if isinstance(a, float) and isinstance(b, float):
        return a.hex() == b.hex() or (a != a and b != b)
    if isinstance(a, T.Row) or isinstance(b, T.Row):
        return (isinstance(a, T.Row) and isinstance(b, T.Row)
                and tuple(getattr(a, '__fields__', ())) == tuple(getattr(b, '__fields__', ()))
                and len(a) == len(b) and all(same(x, y) for x, y in zip(a, b)))
    if type(a) is not type(b):
        return False
    if isinstance(a, (list, tuple)):
        return len(a) == len(b) and all(same(x, y) for x, y in zip(a, b))
    if isinstance(a, dict):
        return len(a) == len(b) and all(k in b and same(v, b[k]) for k, v in a.items())
    return a == b


def exc(e):
    return Err(type(e).__name__)


# ------------------------------------------------------------------ implementation side
def impl(case):
    kind = case[0]
    if kind == 'json':
        t = build_type(case[1])
        try:
            jv = t.jsonValue()
            parsed = T._parse_datatype_json_string(t.json())
        except Exception as e:  # pylint: disable=broad-except
            return exc(e)
        return (enc_json(jv), enc_type(parsed))
    if kind == 'parse':
        try:
            return enc_type(T._parse_datatype_json_value(dec_json(case[1])))
        except Exception as e:  # pylint: disable=broad-except
            return exc(e)
    if kind == 'infer':
        try:
            return enc_type(infer_schema_from_list([dec_val(r) for r in case[1]]))
        except Exception as e:  # pylint: disable=broad-except
            return exc(e)
    if kind == 'merge':
        try:
            return enc_type(T._merge_type(build_type(case[1]), build_type(case[2])))
        except Exception as e:  # pylint: disable=broad-except
            return exc(e)
    if kind == 'verify':
        try:
            T._make_type_verifier(build_type(case[1]), case[2])(dec_val(case[3]))
            return None
        except Exception as e:  # pylint: disable=broad-except
            return exc(e)
    if kind == 'create':
        try:
            df = SparkSession(Context()).createDataFrame([dec_val(r) for r in case[1]])
            out = df.collect()
            return (enc_type(df.schema), [enc_val(r) for r in out])
        except Exception as e:  # pylint: disable=broad-except
            return exc(e)
    if kind == 'create_rdd':
        try:
            sc = Context()
            df = SparkSession(sc).createDataFrame(sc.parallelize([dec_val(r) for r in case[1]], case[4]))
            out = df.collect()
            return (enc_type(df.schema), [enc_val(r) for r in out])
        except Exception as e:  # pylint: disable=broad-except
            return exc(e)
    if kind == 'create_named':
        return run_named(case[1], case[2], case[3], case[4], case[5])
    if kind == 'create_s':
        try:
            df = SparkSession(Context()).createDataFrame([dec_val(r) for r in case[2]], build_type(case[1]))
            return [enc_val(r) for r in df.collect()]
        except Exception as e:  # pylint: disable=broad-except
            return exc(e)
    if kind == 'row':
        r = dec_val(case[1])
        try:
            a = enc_val(pickle.loads(pickle.dumps(r)))
        except Exception as e:  # pylint: disable=broad-except
            a = exc(e)
        try:
            b = enc_val(r.asDict())
        except Exception as e:  # pylint: disable=broad-except
            b = exc(e)
        return (a, b, enc_val(r.asDict(True)))
    raise ValueError(kind)


def run_named(enc_rows_, names, path, flavour, slices):
    try:
        rows = [flavoured(r, flavour) for r in enc_rows_]
        sc = Context()
        data = sc.parallelize(rows, slices) if path == 'rdd' else rows
        df = SparkSession(sc).createDataFrame(data, list(names) if flavour != 'nt' else tuple(names))
        out = df.collect()
        return (enc_type(df.schema), [enc_val(r) for r in out])
    except Exception as e:  # pylint: disable=broad-except
        return exc(e)


# ------------------------------------------------------------------ oracle (implementation only)
PY_ACCEPTS = {   # what Spark documents as the Python type of each SQL type (independent of _acceptable_types)
    'boolean': (bool,), 'byte': (int,), 'short': (int,), 'integer': (int,), 'long': (int,),
    'float': (float,), 'double': (float,), 'decimal': (decimal.Decimal,), 'binary': (bytearray,),
    'date': (datetime.date,), 'timestamp': (datetime.datetime,), 'array': (list, tuple), 'map': (dict,),
    'struct': (tuple, list, dict),
}
INT_RANGE = {'byte': 8, 'short': 16, 'integer': 32, 'long': 64}


def has_null_container_of_struct(tree, value):
    """A None where the (inferred) type is an array/map whose element type contains a struct."""
    def contains_struct(t):
        if isinstance(t, str) or t[0] == 'decimal':
            return False
        if t[0] == 'struct':
            return True
        return any(contains_struct(x) for x in t[1:] if isinstance(x, (str, tuple)))

    def walk(t, v):
        if isinstance(t, str) or t[0] == 'decimal':
            return False
        if t[0] == 'array':
            if v is None:
                return contains_struct(t[1])
            return any(walk(t[1], x) for x in v)
        if t[0] == 'map':
            if v is None:
                return contains_struct(t[1]) or contains_struct(t[2])
            return any(walk(t[1], k) or walk(t[2], x) for k, x in v.items())
        if v is None:
            return False
        return any(walk(f[1], x) for f, x in zip(t[1], v))
    return walk(tree, value)


def oracle(case, result):
    kind = case[0]
    if kind == 'json':
        t = build_type(case[1])
        try:
            back = T._parse_datatype_json_string(t.json())
            back2 = T._parse_datatype_json_value(t.jsonValue())
        except Exception as e:  # pylint: disable=broad-except
            return (f'json-roundtrip:raises:{type(e).__name__}:{top(case[1])}', f'{t!r}: {e!r}')
        if not (back == t and t == back) or not (back2 == t):
            return (f'json-roundtrip:differs:{top(case[1])}', f'{t!r} came back as {back!r}')
        if back.json() != t.json() or repr(back) != repr(t):
            return (f'json-roundtrip:description-differs:{top(case[1])}', f'{t.json()} vs {back.json()}')
        return None
    if kind == 'parse':
        want = case[2] if len(case) > 2 else None
        if want is not None and result != want:
            return ('parse:decimal-string', f'{case[1]!r} parsed to {result!r}, expected {want!r}')
        return None
    if kind in ('infer', 'create', 'create_rdd'):
        return judge_inference(kind, case, result)
    if kind == 'create_named':
        return judge_named(case, result)
    if kind == 'create_s':
        label = case[3]
        rows = [dec_val(r) for r in case[2]]
        if label == 'valid':
            if isinstance(result, Err):
                if result.name == 'AttributeError' and any(has_reordered_row(case[1], r) for r in rows):
                    # not the verifier: toInternal converts a re-ordered Row positionally
                    verifier = T._make_type_verifier(build_type(case[1]))
                    try:
                        for r in rows:
                            verifier(r)
                        return ('create_s:row-field-order:raises-after-verification',
                                f'createDataFrame({rows!r}, {case[1]!r}) raises {result.name} after verification passed')
                    except Exception:  # pylint: disable=broad-except
                        pass
                return (f'create_s:valid-rows-rejected:{result.name}', f'{case[1]!r} {rows!r}')
            out = [dec_val(r) for r in result]
            names = tuple(f[0] for f in case[1][1])
            reordered = any(has_reordered_row(case[1], r) for r in rows)
            for a, b in zip(out, rows):
                if isinstance(b, T.Row):
                    # the values under the right names: every Row (top level and nested) re-listed in schema order
                    ok = same(a, by_name(case[1], b))
                else:
                    ok = isinstance(b, tuple) and tuple(a.__fields__) == names and same(tuple(a), b)
                if not ok:
                    if reordered:
                        return ('create_s:row-field-order:values-under-wrong-names',
                                f'{rows!r} under {case[1]!r} came back as {out!r}')
                    return ('create_s:collect-differs', f'{rows!r} came back as {out!r}')
            if len(out) != len(rows):
                return ('create_s:collect-differs', f'{rows!r} came back as {out!r}')
            return None
        return judge_rejection(label, result, f'createDataFrame({rows!r}, {case[1]!r})')
    if kind == 'verify':
        label = case[4]
        if label == 'valid':
            if result is not None:
                return (f'verify:valid-value-rejected:{getattr(result, "name", result)}', f'{case[1]!r} {case[3]!r}')
            return None
        return judge_rejection(label, result, f'verify({case[1]!r}, nullable={case[2]})({dec_val(case[3])!r})')
    if kind == 'row':
        r = dec_val(case[1])
        for proto in (2, pickle.HIGHEST_PROTOCOL):
            try:
                back = pickle.loads(pickle.dumps(r, proto))
            except Exception as e:  # pylint: disable=broad-except
                return (f'row:pickle-raises:{type(e).__name__}', repr(r))
            if not same(back, r):
                return ('row:pickle-differs', f'{r!r} came back as {back!r}')
        d = r.asDict()
        names = list(r.__fields__)
        if len(set(names)) == len(names) == len(r):
            if list(d.keys()) != names or not all(same(d[n], v) for n, v in zip(names, r)):
                return ('row:asDict-differs', f'{r!r}.asDict() = {d!r}')
            # asDict(recursive=True) on the fresh Row, on the unpickled Row and on the Row collected from a DataFrame:
            # no Row object is left at any depth (through lists and dict values) and the result is the plain
            # dict / list rendering with the field names
            subjects = [('fresh', r)]
            try:
                subjects.append(('pickled', pickle.loads(pickle.dumps(r))))
            except Exception:  # pylint: disable=broad-except
                pass
            try:
                got = SparkSession(Context()).createDataFrame([r]).collect()
                if len(got) == 1 and isinstance(got[0], T.Row) and list(got[0].__fields__) == names:
                    subjects.append(('collected', got[0]))
            except Exception:  # pylint: disable=broad-except
                pass          # not every Row is inferable (heterogeneous lists, undetermined types)
            for what, x in subjects:
                dr = x.asDict(True)
                if holds_row(dr):
                    return (f'row:asDict-recursive-keeps-a-Row:{what}', f'{x!r}.asDict(True) = {dr!r}')
                if list(dr.keys()) != names or not all(same(dr[n], plain(v)) for n, v in zip(names, x)):
                    return (f'row:asDict-recursive-differs:{what}', f'{x!r}.asDict(True) = {dr!r}')
        return None
    return None


def holds_row(v):
    """A Row object somewhere in v, looking through lists and dict values (tuples are not converted by asDict)."""
    if isinstance(v, T.Row):
        return True
    if isinstance(v, list):
        return any(holds_row(x) for x in v)
    if isinstance(v, dict):
        return any(holds_row(x) for x in v.values())
    return False


def leaf_paths(t, path=()):
    """The positions of a type tree whose type inference has to determine (leaves and empty structs)."""
    if isinstance(t, str) or t[0] == 'decimal':
        return {path}
    if t[0] == 'array':
        return leaf_paths(t[1], path + ('e',))
    if t[0] == 'map':
        return leaf_paths(t[1], path + ('k',)) | leaf_paths(t[2], path + ('v',))
    out = {path}
    for f in t[1]:
        out |= leaf_paths(f[1], path + (f[0],))
    return out


def determined_by(t, v, path=()):
    """The positions of the tree whose type the value v determines: a list speaks through its first non-null
    element, a dict through its first entry with a non-null value, a Row through every field; None and empty
    containers say nothing below themselves (and a None says nothing at all)."""
    if v is None:
        return set()
    if isinstance(t, str) or t[0] == 'decimal':
        return {path}
    if t[0] == 'array':
        for x in v:
            if x is not None:
                return determined_by(t[1], x, path + ('e',))
        return set()
    if t[0] == 'map':
        for k, x in v.items():
            if k is not None and x is not None:
                return determined_by(t[1], k, path + ('k',)) | determined_by(t[2], x, path + ('v',))
        return set()
    out = {path}
    for f, x in zip(t[1], tuple(v)):
        out |= determined_by(f[1], x, path + (f[0],))
    return out


def all_determined(t, rows):
    """Some row determines every type of the tree the rows were generated from."""
    need = leaf_paths(t)
    have = set()
    for r in rows:
        have |= determined_by(t, r)
    return need <= have


def judge_inference(kind, case, result):
    """Inference judged on the implementation alone.  The rows were generated from the tree `t` (case[3]); when
    some row determines every type of t, inference / createDataFrame must succeed (whatever the order of the
    rows), the inferred schema must verify every row, and collect() must give the rows back."""
    rows = [dec_val(r) for r in case[1]]
    t = case[3]
    site = {'infer': 'infer', 'create': 'create', 'create_rdd': 'create-rdd'}[kind]
    determined = bool(rows) and all_determined(t, rows)
    if kind == 'create_rdd' and rows and not rows[0]:
        determined = False                 # _inferSchema refuses an empty first row by design
    if isinstance(result, Err):
        if result.name in ('TypeError', 'AttributeError') and any(has_null_container_of_struct(t, r) for r in rows):
            return ('create:null-in-array-or-map-of-struct', f'createDataFrame({rows!r}) raises {result.name}')
        if determined:
            return (f'{site}:raises-{result.name}-although-every-type-is-determined',
                    f'rows generated from {t!r}: {rows!r}')
        if result.name in ('ValueError', 'StopIteration'):
            return None                    # empty data / some type could not be determined from the rows
        return (f'{site}:raises:{result.name}', repr(rows))
    schema = build_type(result if kind == 'infer' else result[0])
    try:
        verifier = T._make_type_verifier(schema)
        for r in rows:
            verifier(r)
    except Exception as e:  # pylint: disable=broad-except
        return (f'{site}:inferred-schema-rejects-row:{type(e).__name__}', f'{schema!r} on {rows!r}: {e}')
    if kind != 'infer':
        out = [dec_val(r) for r in result[1]]
        if len(out) != len(rows) or not all(same(a, b) for a, b in zip(out, rows)):
            return (f'{site}:collect-differs', f'{rows!r} came back as {out!r}')
    return None


def judge_named(case, result):
    """createDataFrame(rows, [names]) judged on the implementation alone: the collected VALUES are the input values
    in their original positions (the same for every input flavour as for plain tuples), the field TYPES are those
    of the inference without a schema, the NAMES are the given names followed by the own (Row / namedtuple) or _N
    (tuple) names of the remaining positions."""
    _, enc_rows_, names, path, flavour, slices, _, t = case
    if flavour == 'tuple' and len(set(names)) < len(names):
        # plain tuples are inferred UNDER the given names: repeated names merge distinct columns by name (as in
        # Spark); nothing is demanded there, the correspondence still compares
        return None
    rows = [flavoured(r, flavour) for r in enc_rows_]
    values = [tuple(r) for r in rows]
    site = f'create-named-{path}'
    determined = bool(rows) and all_determined(t, values) and (path != 'rdd' or bool(rows[0]))
    if isinstance(result, Err):
        if determined:
            return (f'{site}:raises-{result.name}:{flavour}', f'createDataFrame({rows!r}, {names!r})')
        return None if result.name in ('ValueError', 'StopIteration') else (f'{site}:raises:{result.name}', repr(rows))
    out = [dec_val(r) for r in result[1]]
    width = len(values[0])
    own = [f'_{i}' for i in range(1, width + 1)] if flavour == 'tuple' else list(enc_rows_[0][1])
    want_names = list(names) + own[len(names):]
    if len(out) != len(rows):
        return (f'{site}:collect-differs:{flavour}', f'{rows!r} under {names!r} came back as {out!r}')
    for a, v in zip(out, values):
        if list(getattr(a, '__fields__', ())) != want_names:
            return (f'{site}:names-differ:{flavour}', f'{rows!r} under {names!r} came back as {out!r}, names {want_names!r} expected')
        if not same(tuple(a), v):
            return (f'{site}:values-moved:{flavour}', f'{rows!r} under {names!r} came back as {out!r}')
    try:
        plain_types = [enc_type(f.dataType) for f in infer_schema_from_list(list(values)).fields]
    except Exception as e:  # pylint: disable=broad-except
        return (f'{site}:no-schema-inference-raises-{type(e).__name__}', repr(values))
    got = result[0][1]
    if [f[1] for f in got] != plain_types or [f[0] for f in got] != want_names:
        return (f'{site}:schema-differs:{flavour}', f'{result[0]!r} vs types {plain_types!r} names {want_names!r}')
    return None


def plain(v):
    """Independent statement of asDict(recursive=True): nested Rows (also inside lists and dict values) as dicts."""
    if isinstance(v, T.Row):
        return {n: plain(x) for n, x in zip(v.__fields__, v)}
    if isinstance(v, list):
        return [plain(x) for x in v]
    if isinstance(v, dict):
        return {k: plain(x) for k, x in v.items()}
    return v


def judge_rejection(label, result, what):
    """label = '<kind>:<type name at the damaged position>'; the property demands a rejection for the kinds
    wrong-type, out-of-range and null; other kinds (arity, missing-field, ...) are correspondence-only."""
    k, _, tname = label.partition(':')
    if k not in ('wrong-type', 'out-of-range', 'null'):
        return None
    if isinstance(result, Err) and result.name in ('TypeError', 'ValueError'):
        return None
    if isinstance(result, Err):
        return (f'verify:{k}-raises-{result.name}:{tname}', what)
    return (f'verify:{k}-accepted:{tname}', f'{what} was accepted')


def top(e):
    return e if isinstance(e, str) else e[0]


def kind(case):
    if case[0] == 'json':
        return f'json/{top(case[1])}/d{depth(case[1])}'
    if case[0] == 'parse':
        return 'parse/' + (case[3] if len(case) > 3 else 'x')
    if case[0] in ('infer', 'create', 'create_rdd'):
        return f'{case[0]}/{case[2]}'
    if case[0] == 'create_named':
        return f'create_named/{case[3]}/{case[4]}'
    if case[0] == 'create_s':
        return f'create_s/{case[3].partition(":")[0]}'
    if case[0] == 'verify':
        return f'verify/{case[4].partition(":")[0]}'
    return case[0]


def depth(e):
    if isinstance(e, str) or e[0] == 'decimal':
        return 0
    if e[0] == 'array':
        return 1 + depth(e[1])
    if e[0] == 'map':
        return 1 + max(depth(e[1]), depth(e[2]))
    return 1 + max([depth(f[1]) for f in e[1]] + [0])


def nontrivial(case, result):
    if case[0] == 'json':
        return depth(case[1]) >= 1 or not isinstance(case[1], str)
    if case[0] in ('infer', 'create', 'create_rdd'):
        return len(case[1]) > 0
    return True


# ------------------------------------------------------------------ generators
NAMES = ['a', 'b', 'c', 'x', 'some_col', 'Col 1', 'é', 'type', 'name', '', '日本', 'a.b', 'nullable']
METAS = [{}, {'k': 1}, {'b': None, 'a': [1, 'x', {'z': True, 'y': 2.5}], 'c': {'q': -3, 'p': ''}},
         {'z': 0, 'a': False}, {'comment': 'some text', 'é': [[], {}]}, {'n': 10 ** 30, 'f': -0.0, 'g': 1e-7}]


def rand_meta(rng):
    if rng.random() < 0.5:
        return {}
    if rng.random() < 0.5:
        return rng.choice(METAS)

    def val(d):
        r = rng.random()
        if d > 2 or r < 0.5:
            return rng.choice([None, True, False, 0, 1, -7, 2 ** 40, 1.5, -2.25, 'x', '', 'é', 'long text'])
        if r < 0.75:
            return [val(d + 1) for _ in range(rng.randint(0, 3))]
        return {k: val(d + 1) for k in rng.sample(['a', 'b', 'c', 'z', 'y', 'k1', 'K', ''], rng.randint(0, 3))}
    return {k: val(0) for k in rng.sample(['m', 'a', 'zz', 'b', 'comment', 'A', '_'], rng.randint(1, 3))}


def depth1(metas=(0, 1)):
    out = []
    for e in LEAVES:
        for b in (True, False):
            out.append(('array', e, b))
    for k in LEAVES:
        for v in LEAVES:
            for b in (True, False):
                out.append(('map', k, v, b))
    out.append(('struct', []))
    for e in LEAVES:
        for nl in (True, False):
            for mi in metas:
                out.append(('struct', [('f', e, nl, enc_json(METAS[mi]))]))
    return out


def depth2(d1):
    out = []
    for e in d1:
        for b in (True, False):
            out.append(('array', e, b))
    nonmap = [e for e in d1 if e[0] != 'map']
    maps = [e for e in d1 if e[0] == 'map']
    for k in LEAVES:
        for v in nonmap:
            for b in (True, False):
                out.append(('map', k, v, b))
    for v in maps:
        out.append(('map', 'string', v, True))
        out.append(('map', v, 'long', False))
    for k in nonmap:
        out.append(('map', k, 'string', True))
    for e in d1:
        for nl in (True, False):
            out.append(('struct', [('f', e, nl, enc_json({}))]))
    for i in range(0, len(d1) - 1, 2):
        out.append(('struct', [('a', d1[i], True, enc_json(METAS[2])), ('b', d1[i + 1], False, enc_json({}))]))
    return out


def rand_tree(rng, d, struct_bias=0.4):
    if d == 0 or rng.random() < 0.15:
        if rng.random() < 0.2:
            return ('decimal', rng.choice([0, 1, 5, 10, 38, 100, rng.randint(0, 10 ** 6)]),
                    rng.choice([0, 1, -1, 2, 18, -18, rng.randint(-50, 50)]))
        return rng.choice(ATOM_NAMES)
    r = rng.random()
    if r < struct_bias:
        n = rng.randint(0, 4)
        names = rng.sample(NAMES, n)
        return ('struct', [(nm, rand_tree(rng, d - 1), rng.random() < 0.5, enc_json(rand_meta(rng))) for nm in names])
    if r < struct_bias + 0.3:
        return ('array', rand_tree(rng, d - 1), rng.random() < 0.5)
    return ('map', rand_tree(rng, d - 1), rand_tree(rng, d - 1), rng.random() < 0.5)


def json_paths(j, path=()):
    """All positions of a JSON value (as encoded): yields (path, value)."""
    yield path, j
    if isinstance(j, tuple):
        for i, (_, v) in enumerate(j[0]):
            yield from json_paths(v, path + (('o', i),))
    elif isinstance(j, list):
        for i, v in enumerate(j):
            yield from json_paths(v, path + (('l', i),))


def json_replace(j, path, f):
    """Replace the value at path by f(value); f may return DROP to delete an object entry / list element."""
    if not path:
        return f(j)
    (k, i), rest = path[0], path[1:]
    if k == 'o':
        items = list(j[0])
        key, v = items[i]
        nv = json_replace(v, rest, f)
        if nv is DROP:
            del items[i]
        else:
            items[i] = (key, nv)
        return (items,)
    items = list(j)
    nv = json_replace(items[i], rest, f)
    if nv is DROP:
        del items[i]
    else:
        items[i] = nv
    return items


DROP = object()
BAD_TYPE_STRINGS = ['int', 'foo', '', 'String', 'bigint', 'decimal(1,2', 'decimal(,2)', 'decimal(1,)', 'decimal(1;2)',
                    'Decimal(1,2)', ' decimal(1,2)', 'decimal (1,2)', 'decimal(+1,2)', 'decimal(1,+2)', 'decimal(1,--2)',
                    'decimal(1 0,2)', 'decimal(1,2 3)', 'decimal(1_0,2)', 'decimal(a,2)', 'decimal()', 'decimal(1.5,2)',
                    'decimal(-1,2)', 'array', 'struct', 'map', 'udt', 'decimal(1,2)x', 'decimal( 7 ,\t-3\n) trailing',
                    'decimal(007,-0)', 'decimal(\x1c1\x1f,\x0b2\x0c)', 'decimal', 'null', 'timestamp ']
SCALARS = [None, True, False, 0, 5, 1.5, 0.0, '', 'x', [], [1], ([],), ([('a', 1)],)]


def damage(rng, j):
    """One random single-position damage of an encoded JSON description; returns (json, label) or None."""
    paths = list(json_paths(j))
    path, v = rng.choice(paths)
    key = None
    if path and path[-1][0] == 'o':
        parent = j
        for k, i in path[:-1]:
            parent = parent[0][i][1] if k == 'o' else parent[i]
        key = parent[0][path[-1][1]][0]
    r = rng.random()
    if key != 'metadata' and _under_metadata(j, path):
        return None
    if key in ('containsNull', 'valueContainsNull', 'nullable'):
        return json_replace(j, path, lambda _: DROP), 'drop-key'
    if key == 'name':
        if r < 0.5:
            return json_replace(j, path, lambda _: DROP), 'drop-key'
        return json_replace(j, path, lambda _: rng.choice([5, None, True, ['a'], 1.5])), 'name-not-str'
    if key == 'metadata':
        if r < 0.4:
            return json_replace(j, path, lambda _: DROP), 'drop-key'
        return json_replace(j, path, lambda _: rng.choice([None, False, 0, 0.0, -0.0, '', [], ([],)])), 'metadata-falsy'
    if isinstance(v, str) and key in ('type', 'elementType', 'keyType', 'valueType'):
        if r < 0.6:
            return json_replace(j, path, lambda _: rng.choice(BAD_TYPE_STRINGS)), 'type-string'
        if r < 0.8:
            return json_replace(j, path, lambda _: rng.choice(SCALARS)), 'scalar'
        return json_replace(j, path, lambda _: DROP), 'drop-key'
    if key == 'fields':
        if r < 0.3:
            return json_replace(j, path, lambda _: DROP), 'drop-key'
        return json_replace(j, path, lambda _: rng.choice([([],), '', 'ab', 5, None, ([('a', 1)],), ['x'], [5], [[]],
                                                             [None]])), 'fields'
    if r < 0.4:
        return json_replace(j, path, lambda _: DROP), 'drop'
    return json_replace(j, path, lambda _: rng.choice(SCALARS)), 'scalar'


def _under_metadata(j, path):
    cur = j
    for k, i in path:
        if k == 'o':
            name, cur = cur[0][i]
            if name == 'metadata':
                return True
        else:
            cur = cur[i]
    return False


def has_key(j, name):
    return any(isinstance(v, tuple) and any(k == name for k, _ in v[0]) for _, v in json_paths(j))


def decimal_string_cases(rng, n):
    ws = ['', ' ', '  ', '\t', '\n', ' \t ', '\r\n', '\x0b', '\x0c', '\x1c', '\x1d\x1e\x1f']
    out = []
    for _ in range(n):
        p = rng.choice([0, 1, 7, 10, 38, 99, rng.randint(0, 10 ** 12)])
        s = rng.choice([0, 1, -1, 18, -18, rng.randint(-10 ** 6, 10 ** 6)])
        ps = '0' * rng.choice([0, 0, 1, 3]) + str(p)
        ss = ('-' if s < 0 else '') + '0' * rng.choice([0, 0, 2]) + str(abs(s))
        if s == 0 and rng.random() < 0.3:
            ss = '-0'
        w = [rng.choice(ws) for _ in range(5)]
        tail = rng.choice(['', '', ' ', 'x', ')', '(1,2)', '\n'])
        text = f'decimal({w[0]}{ps}{w[1]},{w[2]}{ss}{w[3]}){tail}'
        out.append(('parse', text, ('decimal', p, s), 'decimal-string'))
    return out


# ---- values generated from a type tree
STRS = ['', 'a', 'xyz', 'hello world', 'é', '日本', 'NULL', '0', ' ']
FLOATS = [0.0, -0.0, 1.5, -2.25, 1e300, 5e-324, float('inf'), float('-inf'), float('nan'), 3.0]
KEYABLE = ('string', 'boolean', 'byte', 'short', 'integer', 'long', 'float', 'double', 'date', 'timestamp')


def gen_leaf(rng, name, key=False):
    if name == 'string':
        return rng.choice(STRS) if rng.random() < 0.7 else ''.join(rng.choice('abcXYZ 09_é') for _ in range(rng.randint(1, 6)))
    if name == 'binary':
        return bytearray(rng.getrandbits(8) for _ in range(rng.randint(0, 4)))
    if name == 'boolean':
        return rng.random() < 0.5
    if name in ('float', 'double'):
        x = rng.choice(FLOATS) if rng.random() < 0.5 else rng.uniform(-1e6, 1e6)
        return 1.25 if key and x != x else x
    if name in INT_RANGE:
        w = INT_RANGE[name]
        lo, hi = -(1 << (w - 1)), (1 << (w - 1)) - 1
        return rng.choice([lo, hi, 0, 1, -1, rng.randint(lo, hi)])
    if name == 'date':
        return datetime.date.fromordinal(rng.choice([1, 3652059, 719163, rng.randint(1, 3652059)]))
    if name == 'timestamp':
        if rng.random() < 0.6:
            return EPOCH + rng.choice([0, 1, -1, rng.randint(-10 ** 15, 4 * 10 ** 15)]) * US
        off = rng.choice([0, 3600, -5 * 3600, 19800, -12 * 3600, 14 * 3600, 60])
        return (EPOCH_UTC + rng.randint(10 ** 13, 4 * 10 ** 15) * US).astimezone(
            datetime.timezone(datetime.timedelta(seconds=off)))
    if name == 'null':
        return None
    raise ValueError(name)


def gen_decimal(rng):
    return decimal.Decimal(rng.choice(['0', '1.5', '-2.50', '1E+3', '123456789.123456789', '-0', '0.000001']))


def gen_value(rng, t, nullable=True, pnull=0.0, minlen=0, respect=True, struct_as='Row', key=False):
    if t == 'null':
        return None
    if nullable and pnull and rng.random() < pnull:
        return None
    if isinstance(t, str):
        return gen_leaf(rng, t, key)
    if t[0] == 'decimal':
        return gen_decimal(rng)
    if t[0] == 'array':
        return [gen_value(rng, t[1], t[2] or not respect, pnull, minlen, respect, struct_as)
                for _ in range(rng.randint(minlen, 3))]
    if t[0] == 'map':
        d = {}
        for _ in range(rng.randint(minlen, 3)):
            k = gen_value(rng, t[1], False, 0.0, minlen, respect, 'Row', key=True)
            d[k] = gen_value(rng, t[2], t[3] or not respect, pnull, minlen, respect, struct_as)
        return d
    names = [f[0] for f in t[1]]
    vals = [gen_value(rng, f[1], f[2] or not respect, pnull, minlen, respect, struct_as) for f in t[1]]
    if struct_as == 'tuple':
        return tuple(vals)
    if struct_as == 'dict':
        return dict(zip(names, vals))
    return T.create_row(names, vals)


def valuable(t, key=False):
    """Trees from which Python values can be generated: map keys must be hashable atoms."""
    if isinstance(t, str):
        return t in KEYABLE if key else True
    if t[0] == 'decimal':
        return True
    if key:
        return False
    if t[0] == 'array':
        return valuable(t[1])
    if t[0] == 'map':
        return valuable(t[1], True) and valuable(t[2])
    names = [f[0] for f in t[1]]
    return len(set(names)) == len(names) and all(valuable(f[1]) for f in t[1])


def null_ok(t, nullable=True):
    """Every NullType leaf sits at a nullable position (otherwise no value is valid for the tree)."""
    if isinstance(t, str):
        return t != 'null' or nullable
    if t[0] == 'decimal':
        return True
    if t[0] == 'array':
        return null_ok(t[1], t[2])
    if t[0] == 'map':
        return null_ok(t[1], False) and null_ok(t[2], t[3])
    return all(null_ok(f[1], f[2]) for f in t[1])


def has_leaf(t, name):
    if isinstance(t, str):
        return t == name
    if t[0] == 'decimal':
        return False
    if t[0] == 'struct':
        return any(has_leaf(f[1], name) for f in t[1])
    return any(has_leaf(x, name) for x in t[1:] if isinstance(x, (str, tuple)))


def replace_key(d, k, nk):
    return {(nk if kk is k else kk): x for kk, x in d.items()}


def positions(t, v, nullable, respect=True, is_key=False):
    """(rebuild, type, nullable, value, is_key) for every position of the value v of type t."""
    yield (lambda nv: nv), t, nullable, v, is_key
    if v is None or isinstance(t, str) or t[0] == 'decimal':
        return
    if t[0] == 'array':
        for i, x in enumerate(v):
            for rb, tt, nn, xx, kk in positions(t[1], x, t[2] or not respect, respect):
                yield (lambda nv, i=i, rb=rb: v[:i] + [rb(nv)] + v[i + 1:]), tt, nn, xx, kk
    elif t[0] == 'map':
        for k, x in list(v.items()):
            yield (lambda nv, k=k: replace_key(v, k, nv)), t[1], False, k, True
            for rb, tt, nn, xx, kk in positions(t[2], x, t[3] or not respect, respect):
                yield (lambda nv, k=k, rb=rb: {kk2: (rb(nv) if kk2 is k else x2) for kk2, x2 in v.items()}), tt, nn, xx, kk
    elif isinstance(v, T.Row):
        vals = list(tuple(v))
        for i, (f, x) in enumerate(zip(t[1], vals)):
            for rb, tt, nn, xx, kk in positions(f[1], x, f[2] or not respect, respect):
                yield (lambda nv, i=i, rb=rb: T.create_row(v.__fields__, vals[:i] + [rb(nv)] + vals[i + 1:])), tt, nn, xx, kk


def tname(t):
    return t if isinstance(t, str) else t[0]


def wrong_pool():
    return [True, 7, -3, 2.5, 'txt', bytearray(b'x'), b'raw', decimal.Decimal('1.5'), datetime.date(2020, 1, 2),
            datetime.datetime(2020, 1, 2, 3, 4, 5), [1], (1, 'a'), {'k': 1}, T.create_row(['a'], [1])]


def hashable(v):
    try:
        hash(v)
        return True
    except TypeError:
        return False


def corruptions(rng, t, v, nullable, respect=True):
    """Single-position damages of a valid value: (label, damaged value)."""
    out = []
    for rb, tt, nn, x, is_key in positions(t, v, nullable, respect):
        name = tname(tt)
        if not nn and x is not None:
            out.append((f'null:{"map-key" if is_key else name}', rb(None)))
        if x is None:
            continue
        if name in PY_ACCEPTS:
            wrong = [w for w in wrong_pool() if not isinstance(w, PY_ACCEPTS[name])
                     and (not is_key or (hashable(w) and not isinstance(w, (bool, int, float, decimal.Decimal))))]
            if wrong:
                out.append((f'wrong-type:{name}', rb(rng.choice(wrong))))
        if name in INT_RANGE:
            w = INT_RANGE[name]
            bad = rng.choice([1 << (w - 1), -(1 << (w - 1)) - 1, (1 << w) + 5, -(1 << 70)])
            out.append((f'out-of-range:{name}', rb(bad)))
        if name == 'struct' and isinstance(x, T.Row) and not is_key:
            vals = list(tuple(x))
            out.append(('arity:struct', rb(tuple(vals + [1]))))
            if vals:
                out.append(('arity:struct', rb(tuple(vals[:-1]))))
                out.append(('missing-field:struct', rb(T.create_row(['zz%d' % i for i in range(len(vals))], vals))))
                out.append(('extra-field:struct', rb(T.create_row(list(x.__fields__) + ['extra'], vals + [None]))))
            out.append(('as-tuple:struct', rb(tuple(vals))))
            out.append(('as-dict:struct', rb(dict(zip(x.__fields__, vals)))))
        if name == 'array' and x:
            out.append(('as-tuple:array', rb(tuple(x))))
    return out


def null_first(t, v):
    """The value with a None put in front of every list (the element type is then determined by a later element)."""
    if v is None or isinstance(t, str) or t[0] == 'decimal':
        return v
    if t[0] == 'array':
        return [None] + [null_first(t[1], x) for x in v]
    if t[0] == 'map':
        return {k: null_first(t[2], x) for k, x in v.items()}
    return T.create_row(v.__fields__, [null_first(f[1], x) for f, x in zip(t[1], tuple(v))])


def erase(rng, t, p=0.3):
    """A tree below t in the order 'NullType matches anything' (what inference yields when values are missing)."""
    if rng.random() < p:
        return 'null'
    if isinstance(t, str) or t[0] == 'decimal':
        return t
    if t[0] == 'array':
        return ('array', erase(rng, t[1], p), t[2])
    if t[0] == 'map':
        return ('map', erase(rng, t[1], p), erase(rng, t[2], p), t[3])
    return ('struct', [(f[0], erase(rng, f[1], p), f[2], f[3]) for f in t[1]])


def row_tree(rng, e, nullable=None):
    return ('struct', [('c', e, rng.random() < 0.6 if nullable is None else nullable, ([],))])


def rand_row_tree(rng, d, with_null=False):
    while True:
        n = rng.randint(1, 3)
        t = ('struct', [(nm, rand_tree(rng, d - 1, struct_bias=0.35), rng.random() < 0.6, ([],))
                        for nm in rng.sample(['a', 'b', 'c', 'x', 'some_col', 'é'], n)])
        if valuable(t) and (with_null or not has_leaf(t, 'null')):
            return t


def enc_rows(rows):
    return [enc_val(r) for r in rows]


def late_cases(rng, t, full, quick):
    """Rows in which a position says nothing about its type in some rows (None, an empty list/dict, a list/dict
    holding only None) and is populated in another row -- in every order of the rows (sampled orders in the
    quick tier), through the list path, the RDD path and infer_schema_from_list."""
    blanks = []
    for rb, tt, _, x, is_key in list(positions(t, full, False, respect=False))[1:]:
        if is_key or x is None:
            continue
        name = tname(tt)
        if name == 'array':
            blanks += [rb([]), rb([None]), rb(None)]
        elif name == 'map':
            blanks += [rb({}), rb({k: None for k in x}), rb(None)]
        else:
            blanks.append(rb(None))
    if not blanks:
        return []
    import itertools
    chosen = rng.sample(blanks, min(len(blanks), 2))
    rows = chosen + [full]
    orders = list(itertools.permutations(range(len(rows))))
    if quick and len(orders) > 3:
        orders = [orders[0]] + rng.sample(orders[1:], 2)
    cases = []
    for i, order in enumerate(orders):
        rs = enc_rows([rows[j] for j in order])
        k = ('create', 'create_rdd', 'infer')[i % 3]
        cases.append((k, rs, 'late', t) + ((rng.randint(1, 3),) if k == 'create_rdd' else ()))
    # every blank row alone in front of the full row, through both input paths
    for b in (blanks if not quick else rng.sample(blanks, min(len(blanks), 2))):
        k = rng.choice(['create', 'create_rdd'])
        cases.append((k, enc_rows([b, full]), 'late', t) + ((rng.randint(1, 3),) if k == 'create_rdd' else ()))
    return cases


def reorder(rng, t, v, how='sorted'):
    """The same value with every Row's fields listed in another order than the schema's (as Row(**kwargs) does:
    alphabetical; or reversed / shuffled).  Values that do not have the shape of t are left alone."""
    if v is None or isinstance(t, str) or t[0] == 'decimal':
        return v
    if t[0] == 'array':
        return [reorder(rng, t[1], x, how) for x in v] if isinstance(v, list) else v
    if t[0] == 'map':
        return {k: reorder(rng, t[2], x, how) for k, x in v.items()} if isinstance(v, dict) else v
    names = [f[0] for f in t[1]]
    if not isinstance(v, T.Row) or list(getattr(v, '__fields__', ())) != names or len(v) != len(names):
        return v
    vals = [reorder(rng, f[1], x, how) for f, x in zip(t[1], tuple(v))]
    idx = list(range(len(names)))
    if how == 'sorted':
        idx.sort(key=lambda i: names[i])
    elif how == 'reversed':
        idx.reverse()
    else:
        rng.shuffle(idx)
    return T.create_row([names[i] for i in idx], [vals[i] for i in idx])


def has_reordered_row(t, v):
    """Some Row (top level or nested) lists its fields in another order than the schema."""
    if v is None or isinstance(t, str) or t[0] == 'decimal':
        return False
    if t[0] == 'array':
        return isinstance(v, (list, tuple)) and any(has_reordered_row(t[1], x) for x in v)
    if t[0] == 'map':
        return isinstance(v, dict) and any(has_reordered_row(t[2], x) for x in v.values())
    names = [f[0] for f in t[1]]
    if not isinstance(v, T.Row) or not hasattr(v, '__fields__'):
        return False
    if list(v.__fields__) != names:
        return True
    return any(has_reordered_row(f[1], x) for f, x in zip(t[1], tuple(v)))


def by_name(t, v):
    """What the value means when Rows are matched to the schema by field name: every Row re-listed in schema order
    (None if a name is missing)."""
    if v is None or isinstance(t, str) or t[0] == 'decimal':
        return v
    if t[0] == 'array':
        return [by_name(t[1], x) for x in v] if isinstance(v, list) else v
    if t[0] == 'map':
        return {k: by_name(t[2], x) for k, x in v.items()} if isinstance(v, dict) else v
    names = [f[0] for f in t[1]]
    if not isinstance(v, T.Row) or sorted(getattr(v, '__fields__', ())) != sorted(names):
        return v
    fields = list(v.__fields__)
    return T.create_row(names, [by_name(f[1], v[fields.index(f[0])]) for f in t[1]])


MIXED_FIELDS = [('z', 'byte', False), ('m', 'long', True), ('a', 'string', True), ('k', 'double', False),
                ('b', 'boolean', True), ('y', 'short', False), ('c', 'timestamp', True), ('d', 'date', False),
                ('x', 'integer', True), ('e', 'binary', True)]


def mixed_struct(rng, n=None, depth=1):
    """A struct whose fields differ in type, range and nullability and are NOT in alphabetical order."""
    while True:
        fs = rng.sample(MIXED_FIELDS, n or rng.randint(2, 4))
        names = [f[0] for f in fs]
        if names != sorted(names):
            break
    out = []
    for nm, ty, nl in fs:
        if depth > 1 and rng.random() < 0.35:
            inner = mixed_struct(rng, None, depth - 1)
            r = rng.random()
            ty = inner if r < 0.4 else ('array', inner, rng.random() < 0.5) if r < 0.7 else ('map', 'string', inner, rng.random() < 0.5)
        out.append((nm, ty, nl, ([],)))
    return ('struct', out)


def reordered_cases(rng, t, quick):
    """Explicit schema t whose field order differs from the Rows' own order: valid rows (accepted; collect gives
    the values under the right names) and single-position damages (rejected), through the verifier and
    createDataFrame(rows, schema)."""
    cases = []
    full = gen_value(rng, t, False, 0.0, 1)
    for how in ('sorted', 'reversed', 'shuffled'):
        v = gen_value(rng, t, False, 0.25, 0)
        rv = reorder(rng, t, v, how)
        cases.append(('verify', t, False, enc_val(rv), 'valid'))
        cases.append(('create_s', t, enc_rows([rv]), 'valid'))
    rfull = reorder(rng, t, full, 'sorted')
    cases.append(('create_s', t, enc_rows([rfull, full]), 'valid'))
    bad = [c for c in corruptions(rng, t, full, False)
           if c[0].partition(':')[0] in ('null', 'wrong-type', 'out-of-range') and isinstance(c[1], T.Row)]
    for label, v in (bad if len(bad) <= 8 else rng.sample(bad, 8)):
        rv = reorder(rng, t, v, rng.choice(['sorted', 'reversed', 'shuffled']))
        cases.append(('verify', t, False, enc_val(rv), label))
        if rng.random() < 0.5:
            cases.append(('create_s', t, enc_rows([rv]), label))
    return cases


def rows_cases(rng, t, quick):
    """The row-level cases derived from one top-level struct tree t."""
    cases = []
    inferable = not has_leaf(t, 'null')
    # -- schema inferred: a full first row, then one row per nullable position with a null exactly there
    if inferable:
        full = gen_value(rng, t, False, 0.0, 1, respect=False)
        variants = [rb(None) for rb, _, nn, x, is_key in list(positions(t, full, False, respect=False))[1:]
                    if nn and x is not None and not is_key]
        if len(variants) > 10:
            variants = rng.sample(variants, 10)
        rows = [full] + variants
        cases.append(('create', enc_rows(rows), 'full', t))
        if rng.random() < 0.5:
            cases.append(('infer', enc_rows(rows), 'full', t))
        else:
            cases.append(('create_rdd', enc_rows(rows), 'full', t, rng.randint(1, 3)))
        if has_leaf(t, 'array') or any(tname(x) == 'array' for _, x, _, _, _ in positions(t, full, False, respect=False)):
            cases.append(('create', enc_rows([null_first(t, full)]), 'full', t))
        more = [full] + [gen_value(rng, t, False, 0.3, 0, respect=False) for _ in range(rng.randint(1, 3))]
        cases.append(('create', enc_rows(more), 'full', t))
        cases.extend(late_cases(rng, t, full, quick))
        sparse = [gen_value(rng, t, False, 0.35, 0, respect=False) for _ in range(rng.randint(1, 4))]
        k = rng.choice(['create', 'infer', 'create_rdd'])
        cases.append((k, enc_rows(sparse), 'sparse', t) + ((rng.randint(1, 3),) if k == 'create_rdd' else ()))
    # -- explicit schema: valid rows with nulls at every nullable position, then single-position damages
    if not null_ok(t):
        return cases
    full = gen_value(rng, t, False, 0.0, 1)
    variants = [rb(None) for rb, _, nn, x, is_key in list(positions(t, full, False))[1:] if nn and x is not None]
    if len(variants) > 10:
        variants = rng.sample(variants, 10)
    cases.append(('create_s', t, enc_rows([full] + variants), 'valid'))
    rnd = [gen_value(rng, t, False, 0.3, 0) for _ in range(rng.randint(1, 3))]
    if rng.random() < 0.3:
        rnd = [tuple(r) for r in rnd]
    cases.append(('create_s', t, enc_rows(rnd), 'valid'))
    bad = corruptions(rng, t, full, False)[0:0] + [c for c in corruptions(rng, t, full, False)]
    bad = [c for c in bad if isinstance(c[1], (T.Row, tuple))]        # top-level rows stay rows
    for label, row in (bad if len(bad) <= 6 else rng.sample(bad, 6)):
        rows = [row] if rng.random() < 0.5 else [full, row]
        cases.append(('create_s', t, enc_rows(rows), label))
    return cases


def verify_cases(rng, t, quick):
    cases = []
    if not null_ok(t):
        return cases
    for struct_as in ('Row', 'tuple', 'dict'):
        nullable = rng.random() < 0.5 or t == 'null'
        v = gen_value(rng, t, nullable, 0.25, 0, struct_as=struct_as)
        cases.append(('verify', t, nullable, enc_val(v), 'valid'))
        if tname(t) != 'struct' and not has_leaf(t, 'struct'):
            break
    cases.append(('verify', t, True, None, 'valid'))
    if t == 'null':
        return cases
    full = gen_value(rng, t, False, 0.0, 1)
    bad = corruptions(rng, t, full, False)
    for label, v in (bad if len(bad) <= 8 else rng.sample(bad, 8)):
        cases.append(('verify', t, False, enc_val(v), label))
    return cases


def systematic_row_cases():
    """asDict(recursive=True) over arrays / map values / nested arrays whose FIRST element says nothing about the
    rest: [None, Row], [Row, None, Row], [plain, Row], [[], [Row]], [{}, {k: Row}] -- the first Row-bearing element
    at every position 0..3, at depth 1..3 (directly in a field, inside an array, a map value, a nested Row).
    Deterministic; runs at the head of the case stream in both tiers."""
    R = T.create_row
    inner = R(['x', 'y'], [1, R(['z'], ['s'])])
    leaf_lists = []
    for p in range(4):
        leaf_lists.append([None] * p + [inner])                       # [None.., Row]
        leaf_lists.append([None] * p + [inner, None, inner])          # [.., Row, None, Row]
        leaf_lists.append([7] * p + [inner])                          # [plain.., Row]
        leaf_lists.append([[]] * p + [[inner]])                       # [[].., [Row]]
        leaf_lists.append([[None]] * p + [[None, inner]])             # [[None].., [None, Row]]
        leaf_lists.append([{}] * p + [{'k': inner}])                  # [{}.., {k: Row}]
        leaf_lists.append([{'k': None}] * p + [{'k': [None, inner]}])
    cases = []
    for lst in leaf_lists:
        wraps = [lst,                                                   # depth 1: the field is the array
                 [None, lst], [[], lst], [lst, None],                   # depth 2: nested array
                 {'a': None, 'm': lst}, {'m': lst},                     # depth 2: map value
                 R(['q', 'w'], [None, lst]),                            # depth 2: field of a nested Row
                 [None, [None, lst]], {'a': [None, {'b': lst}]},        # depth 3
                 [None, R(['q'], [[None, lst]])], {'a': R(['q'], [{'b': lst}])}]
        for w in wraps:
            cases.append(('row', enc_val(R(['n', 'v'], [1, w]))))
    return cases


def row_cases(rng, n):
    cases = [('row', enc_val(T.create_row([], []))), ('row', enc_val(T.create_row(['a', 'a'], [1, 2]))),
             ('row', enc_val(T.create_row(['a', 'b', 'a'], [1, [T.create_row(['x'], [None])], 3]))),
             ('row', enc_val(T.Row(name='Alice', age=11))),
             ('row', enc_val(T.Row(key=1, value=T.Row(name='a', age=2)))),
             ('row', enc_val(T.create_row(['t', 'b', 'd'], [(1, T.create_row(['q'], [2])), b'raw',
                                                          {'k': [T.create_row(['z'], [{'m': T.create_row(['w'], [1])}])]}]))),
             ('row', enc_val(T.create_row(['a', 'b'], [1])))]
    for _ in range(n):
        t = rand_row_tree(rng, rng.choice([2, 3, 4]), with_null=True)
        cases.append(('row', enc_val(gen_value(rng, t, False, 0.2, 0, respect=False))))
    return cases


def merge_cases(rng, trees, n):
    cases = []
    for _ in range(n):
        t = rng.choice(trees)
        r = rng.random()
        if r < 0.6:
            cases.append(('merge', erase(rng, t), erase(rng, t)))
        elif r < 0.8:
            cases.append(('merge', t, rng.choice(trees)))
        else:
            a = rand_tree(rng, 2, struct_bias=0.8)
            b = rand_tree(rng, 2, struct_bias=0.8)
            cases.append(('merge', a, b))
    return cases


def corpus_cases():
    """corpus/C19/*.json: replays of repaired findings and minimised past disagreements; they run first."""
    root = os.path.join(os.environ.get('VERIF_ROOT', '/verif'), 'corpus', 'C19')
    out = []
    for path in sorted(glob.glob(os.path.join(root, '*.json'))):
        with open(path) as f:
            out.append(uncanon(json.load(f)['case']))
    return out


SAFE_NAMES = ['a', 'b', 'c', 'k', 'x', 'y', 'some_col', 'v', 'w']


def named_cases(rng, quick):
    """createDataFrame(rows, [names]) over Row(**kw), Row(*names)(*values), namedtuples and plain tuples, through the
    list and the RDD path: full rows, nulls, late-typed rows; name lists: the rows' own names, a permutation of
    them, fresh names, fewer names, repeated names, no name."""
    cases = []
    while True:
        n = rng.randint(1, 4)
        own = rng.sample(SAFE_NAMES, n)
        t = ('struct', [(nm, rand_tree(rng, rng.choice([0, 0, 1, 2]), struct_bias=0.3), True, ([],)) for nm in own])
        if valuable(t) and not has_leaf(t, 'null') and safe_inner_names(t):
            break
    full = gen_value(rng, t, False, 0.0, 1, respect=False)
    variants = [rb(None) for rb, _, nn, x, is_key in list(positions(t, full, False, respect=False))[1:]
                if nn and x is not None and not is_key]
    blanks = []
    for rb, tt, _, x, is_key in list(positions(t, full, False, respect=False))[1:]:
        if not is_key and x is not None and tname(tt) in ('array', 'map'):
            blanks += [rb([] if tname(tt) == 'array' else {}), rb([None] if tname(tt) == 'array' else {k: None for k in x})]
    row_sets = [[full] + rng.sample(variants, min(len(variants), 3)),
                [gen_value(rng, t, False, 0.3, 0, respect=False) for _ in range(rng.randint(1, 3))]]
    if blanks:
        row_sets.append(rng.sample(blanks, min(len(blanks), 2)) + [full])
    fresh = rng.sample(['n1', 'n2', 'n3', 'n4', 'col', 'z'], n)
    perm = own[:]
    rng.shuffle(perm)
    name_lists = [own, perm, fresh, fresh[:max(0, n - 1)], ['v'] * n, ['v'] * max(0, n - 1), [], own[::-1]]
    for rows in row_sets:
        for names in (name_lists if not quick else rng.sample(name_lists, 4)):
            for flavour in (('kw', 'pos', 'nt', 'tuple') if not quick else rng.sample(['kw', 'pos', 'nt', 'tuple'], 2)):
                order = sorted(range(n), key=lambda i: own[i]) if flavour == 'kw' else list(range(n))
                tt = ('struct', [t[1][i] for i in order])
                enc = []
                for r in rows:
                    vals = [enc_val(tuple(r)[i]) for i in order]
                    if flavour == 'tuple':
                        enc.append(('tuple', vals))
                    else:
                        enc.append(('namedtuple' if flavour == 'nt' else 'Row', [own[i] for i in order], vals))
                path = rng.choice(['local', 'rdd'])
                cases.append(('create_named', enc, list(names), path, flavour, rng.randint(1, 3), 'named', tt))
    return cases


def safe_inner_names(t):
    """Field names usable as keyword arguments / namedtuple fields at the top level only; nested structs unrestricted."""
    return all(f[0] in SAFE_NAMES for f in t[1])


def generate(rng, tier):
    quick = tier == 'quick'
    cases = systematic_row_cases() + corpus_cases()
    # ---- JSON round trip: depth 0 and 1 exhaustively, depth 2 exhaustively (thorough) / sampled (quick), depth 3 sampled
    for e in LEAVES:
        cases.append(('json', e))
    d1 = depth1()
    cases.extend(('json', e) for e in d1)
    d2 = depth2(d1)
    cases.extend(('json', e) for e in (d2 if not quick else rng.sample(d2, 600)))
    for _ in range(250 if quick else 4000):
        cases.append(('json', rand_tree(rng, 3)))
    for _ in range(50 if quick else 600):
        cases.append(('json', rand_tree(rng, rng.choice([4, 5, 6]))))
    # ---- the parser on damaged descriptions and on the decimal(p,s) string forms
    cases.extend(decimal_string_cases(rng, 120 if quick else 2000))
    for s in BAD_TYPE_STRINGS + ATOM_NAMES:
        cases.append(('parse', s, None, 'type-string'))
    for s in SCALARS:
        cases.append(('parse', s, None, 'scalar'))
    pool = d1 + (rng.sample(d2, 300) if quick else d2[::3])
    n = 0
    want = 400 if quick else 6000
    while n < want:
        e = rng.choice(pool) if rng.random() < 0.6 else rand_tree(rng, 3, struct_bias=0.6)
        j = enc_json(build_type(e).jsonValue())
        d = damage(rng, j)
        if d is None or d[0] is DROP or has_key(d[0], 'pyClass'):
            continue
        cases.append(('parse', d[0], None, d[1]))
        n += 1
    # ---- rows: every leaf and every depth-1 tree as a column (depth-2 rows), depth-2 columns sampled / all, deeper sampled
    cols = [e for e in LEAVES + d1 if valuable(e)]
    d2v = [e for e in d2 if valuable(e)]
    cols_used = cols if not quick else LEAVES + rng.sample([e for e in cols if e not in LEAVES], 60)
    cols_used = cols_used + (rng.sample(d2v, 40) if quick else rng.sample(d2v, 1000))
    trees = [row_tree(rng, e) for e in cols_used]
    trees += [rand_row_tree(rng, rng.choice([2, 3, 3, 4]), with_null=rng.random() < 0.1) for _ in range(60 if quick else 1000)]
    for t in trees:
        cases.extend(rows_cases(rng, t, quick))
    vt = [e for e in cols_used] + [rand_row_tree(rng, 3, with_null=rng.random() < 0.2) for _ in range(40 if quick else 800)]
    for t in (vt if not quick else rng.sample(vt, 120)):
        cases.extend(verify_cases(rng, t, quick))
    for _ in range(60 if quick else 1200):
        cases.extend(reordered_cases(rng, mixed_struct(rng, None, rng.choice([1, 1, 2, 3])), quick))
    for _ in range(40 if quick else 600):
        cases.extend(named_cases(rng, quick))
    cases.extend(row_cases(rng, 80 if quick else 1500))
    cases.extend(merge_cases(rng, trees + d1[:50], 150 if quick else 3000))
    return cases


def shrink_candidates(case):
    if case[0] == 'json':
        e = case[1]
        if isinstance(e, tuple):
            if e[0] == 'array':
                yield ('json', e[1])
            elif e[0] == 'map':
                yield ('json', e[1])
                yield ('json', e[2])
            elif e[0] == 'struct':
                for i, f in enumerate(e[1]):
                    yield ('json', ('struct', e[1][:i] + e[1][i + 1:]))
                    yield ('json', f[1])
                    if f[3] != ([],):
                        yield ('json', ('struct', e[1][:i] + [(f[0], f[1], f[2], ([],))] + e[1][i + 1:]))
    if case[0] == 'create_named' and len(case[1]) > 1:
        for i in range(len(case[1])):
            yield (case[0], case[1][:i] + case[1][i + 1:]) + tuple(case[2:])
    if case[0] in ('create', 'infer', 'create_rdd'):
        rows = case[1]
        if len(rows) > 1:
            for i in range(len(rows)):
                yield (case[0], rows[:i] + rows[i + 1:]) + tuple(case[2:])
    if case[0] == 'create_s':
        rows = case[2]
        if len(rows) > 1:
            for i in range(len(rows)):
                yield (case[0], case[1], rows[:i] + rows[i + 1:]) + tuple(case[3:])
