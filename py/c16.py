"""C16 -- sampling is seed-deterministic and returns only existing elements.

case = (op, data, numSlices, seed, params, streams, exps, logs, tag)
  op 0 sample(withReplacement, fraction, seed)         params = (wr, fraction: float, pass_as_int: bool)
  op 1 sampleByKey(withReplacement, fractions, seed)   params = (wr, {key: float})
  op 2 takeSample(withReplacement, num, seed)          params = (wr, num)
  op 3 randomSplit(weights, seed)                      params = (weights,)
  streams = [(key, [floats], [raw ints])]   what every random generator answers (see rngtap.py); key 'g' is the
            module-level generator.  tag 'mt': the streams were recorded from the real Mersenne twister for that
            seed; tag 'scr': scripted (adversarial values in [0, 1): 0.0, 1 - 2**-53, the fraction / the
            boundaries themselves and their neighbours).
  exps / logs = the graph of math.exp / math.log on the arguments the code evaluated them on.
The implementation side replays the streams through the real code; the model consumes the same streams."""
import collections
import math
import random as _random
import sys

from common.coqlit import Err
from rngtap import Tap

import pysparkling
from pysparkling import Context
from pysparkling.rdd import RDD

ID = 'C16'
SHARD = 200
KERNELS = ['Gen/Sampling.v: compute_fraction', 'Gen/Sampling.v: rs_next', 'Gen/Sampling.v: rs_first',
           'Gen/Sampling.v: rs_force_last', 'Gen/Sampling.v: rs_member', 'Gen/Sampling.v: bern_mult',
           'Gen/Sampling.v: bernkey_mult', 'Gen/Sampling.v: bernkey_default', 'Gen/Sampling.v: poiskey_default',
           'Gen/Sampling.v: poisson_guard', 'Gen/Sampling.v: knuth_step', 'Gen/Sampling.v: task_seed',
           'Gen/Sampling.v: default_seed_hi', 'Gen/Sampling.v: ts_max_sample_size', 'Gen/Parallelize.v: par_take',
           'Gen/Parallelize.v: par_single']
RULE = ('cases (op, data, numSlices, seed, params, draw streams): seeds 0..N and large/negative/None x fractions '
        '{0, tiny, .01, .3, .5, .99, 1, >1; with replacement .5, 1, 3, 0} x lists of ints/strings/pairs with duplicates '
        '(length 0..40) x slice counts 1..len+2 x takeSample sizes 0..len+3 x weight vectors (ints, dyadic and '
        'non-dyadic floats, zeros, [0.1]*10); an exhaustive grid on a 4-element list (sizes 0..7 x replacement x slices 1..3 x '
        'seeds; fractions {0,.01,.5,1} and {.5,1,3}); every case once with the streams of the real twister (recorded) and '
        'scripted streams with adversarial draws (0.0, 1-2^-53, the fraction, every boundary and its neighbours); '
        'non-trivial = non-empty data and a result that is neither an error nor empty-by-construction; distinct by '
        'canonical JSON of the case')
ASSUMPTIONS = [
    'random.Random(k) / random.seed(k) produce a stream determined by k (the Mersenne twister is an oracle stream; '
    'validated by running every integer-seeded case twice on the untapped implementation)',
    'every draw of random() lies in [0, 1) (true of the twister; scripted streams respect it)',
    'math.exp / math.log are uninterpreted functions (their graph on the evaluated arguments is part of the case)',
    'int weights / sample sizes below 2**53 (int/int true division equals the division of the converted floats)',
    'sampleByKey keys are ints or strings (dict lookup modelled by structural equality)',
    'tasks run serially (default Context); concurrency is the subject of C03',
]
TRUSTED = ['translator/kernels/c16.py (kernels of Gen/Sampling.v)', 'py/rngtap.py (recording/scripted random module)',
           'SpecFloat (Coq stdlib reference semantics of binary64) + Prim2SF for decoding float literals',
           'Flocq 4.1 (IEEE754.BinarySingleNaN) for the rounding facts behind randomSplit_partition']

MAXSIZE = sys.maxsize
ONE_MINUS = 1.0 - 2.0 ** -53


# ------------------------------------------------------------------ running the implementation
class MathTap:
    """Stand-in for `math` in pysparkling.samplers / pysparkling.rdd that records exp and log."""

    def __init__(self):
        self.exps = {}
        self.logs = {}

    def __getattr__(self, name):
        return getattr(math, name)

    def exp(self, x):
        y = math.exp(x)
        self.exps[float(x)] = y
        return y

    def log(self, x, *a):
        y = math.log(x, *a)
        if not a:
            self.logs[float(x)] = y
        return y


def call(op, data, nsl, seed, params):
    rdd = Context().parallelize(list(data), nsl)
    if op == 0:
        wr, f, as_int = params
        return rdd.sample(wr, int(f) if as_int else f, seed).glom().collect()
    if op == 1:
        wr, fr = params
        return rdd.sampleByKey(wr, dict(fr), seed).glom().collect()
    if op == 2:
        wr, num = params
        return rdd.takeSample(wr, num, seed)
    if op == 3:
        return [s.collect() for s in rdd.randomSplit(list(params[0]), seed)]
    raise ValueError(op)


def run_tapped(op, data, nsl, seed, params, script, mtap=None, entropy=None):
    import pysparkling.rdd as rddmod
    import pysparkling.samplers as smod
    tap = Tap(script, entropy)
    saved = (rddmod.math, smod.math)
    if mtap is not None:
        rddmod.math = mtap
        smod.math = mtap
    try:
        with tap.installed():
            try:
                value = call(op, data, nsl, seed, params)
            except Exception as e:  # pylint: disable=broad-except
                return Err(type(e).__name__), tap
        return (value, tap.gsig()), tap
    finally:
        rddmod.math, smod.math = saved


def impl(case):
    op, data, nsl, seed, params, streams, _exps, _logs, _tag = case
    script = {k: (u, b) for k, u, b in streams}
    return run_tapped(op, data, nsl, seed, params, script)[0]


class LazyScript(dict):
    """Scripted streams made on demand (deterministically from the key), remembering what was asked for."""

    def __init__(self, make):
        super().__init__()
        self.make = make

    def get(self, key, default=None):
        if key not in self:
            self[key] = self.make(key)
        return self[key]


def finish(op, data, nsl, seed, params, script, tag, entropy=0):
    """Run the implementation once to learn which generators it creates and where it evaluates exp/log;
    returns the complete case."""
    mt = MathTap()
    _, tap = run_tapped(op, data, nsl, seed, params, script, mt, entropy)
    if script is None:
        table = tap.streams()
    else:
        # keep what was consumed plus a little slack (the replay consumes exactly the same)
        used = tap.streams()
        table = {}
        for k, (u, b) in script.items():
            cu, cb = used.get(k, ([], []))
            table[k] = (list(u)[:len(cu) + 2], list(b)[:len(cb) + 1])
    streams = [(k, list(u), list(b)) for k, (u, b) in table.items()]
    exps = [(x, y) for x, y in mt.exps.items()]
    logs = [(x, y) for x, y in mt.logs.items()]
    return (op, data, nsl, seed, params, streams, exps, logs, tag)


# ------------------------------------------------------------------ oracle (implementation only)
def parts_of(data, nsl):
    return Context().parallelize(list(data), nsl).glom().collect()


def is_subseq(small, big):
    it = iter(big)
    return all(any(_same(x, y) for y in it) for x in small)


def _same(a, b):
    return type(a) is type(b) and a == b


def sub_multiset(small, big):
    c = collections.Counter(map(_h, big))
    c.subtract(collections.Counter(map(_h, small)))
    return all(v >= 0 for v in c.values())


def _h(x):
    return (type(x).__name__, repr(x))


def untapped(op, data, nsl, seed, params):
    try:
        return call(op, data, nsl, seed, params)
    except Exception as e:  # pylint: disable=broad-except
        return Err(type(e).__name__)


def oracle(case, result):
    op, data, nsl, seed, params, streams, _exps, _logs, tag = case
    if isinstance(result, Err):
        if result.name.startswith('HarnessCrash'):
            return ('harness:crash', result.name)
        value = result
    else:
        value = result[0]
    # determinism: equal seed and partitioning give an identical result (real generators, run twice;
    # for recorded streams also identical to the replayed result)
    if seed is not None:
        a = untapped(op, data, nsl, seed, params)
        b = untapped(op, data, nsl, seed, params)
        if not _eq(a, b):
            return (f'{OPS[op]}:not-deterministic', f'two runs with seed {seed}: {a!r} vs {b!r}')
        if tag == 'mt' and not _eq(a, value):
            return (f'{OPS[op]}:replay-differs', f'seed {seed}: untapped {a!r} vs replayed {value!r}')
    if isinstance(value, Err):
        return None
    flat = list(data)
    if op == 0:
        wr, f, _ = params
        parts = parts_of(data, nsl)
        out = [x for p in value for x in p]
        if not wr:
            if len(value) != len(parts) or not all(is_subseq(o, p) for o, p in zip(value, parts)):
                return ('sample:not-subsequence', f'{value!r} of {parts!r}')
            if f == 0 and out:
                return ('sample:f0-not-empty', repr(value))
            if f == 1 and not _eq(value, parts):
                return ('sample:f1-not-complete', f'{value!r} of {parts!r}')
        elif not all(any(_same(x, y) for y in flat) for x in out):
            return ('sample:invented-element', f'{value!r} of {flat!r}')
        return None
    if op == 1:
        wr, fr = params
        out = [x for p in value for x in p]
        if not all(any(_same(x, y) for y in flat) for x in out):
            return ('sampleByKey:invented-element', f'{value!r} of {flat!r}')
        for x in out:
            if fr.get(x[0], 0.0) == 0:
                return ('sampleByKey:zero-or-missing-key-present', f'{x!r} with fractions {fr!r}')
        return None
    if op == 2:
        wr, num = params
        if num < 0:
            return None
        if not wr:
            if len(value) != min(num, len(flat)):
                return ('takeSample:norepl-length', f'{len(value)} elements for num={num}, size={len(flat)}')
            if not sub_multiset(value, flat):
                return ('takeSample:norepl-not-submultiset', f'{value!r} of {flat!r}')
        else:
            if flat and len(value) != num:
                return ('takeSample:repl-length', f'{len(value)} elements for num={num}, size={len(flat)}')
            if not all(any(_same(x, y) for y in flat) for x in value):
                return ('takeSample:invented-element', f'{value!r} of {flat!r}')
        return None
    if op == 3:
        ws = params[0]
        if not ws or any(not (w >= 0) or w == math.inf for w in ws) or not sum(ws) > 0:
            return None
        if len(value) != len(ws):
            return ('randomSplit:split-count', f'{len(value)} splits for {len(ws)} weights')
        if sum(len(s) for s in value) != len(flat) or not sub_multiset(flat, [x for s in value for x in s]):
            return ('randomSplit:not-exactly-one-split', f'{value!r} of {flat!r}')
        if not all(is_subseq(s, flat) for s in value):
            return ('randomSplit:order', f'{value!r} of {flat!r}')
        return None
    return None


def _eq(a, b):
    if isinstance(a, Err) or isinstance(b, Err):
        return a == b
    return repr(a) == repr(b)


OPS = ['sample', 'sampleByKey', 'takeSample', 'randomSplit']


def kind(case):
    op, params, tag = case[0], case[4], case[8]
    extra = ''
    if op in (0, 1, 2):
        extra = '-repl' if params[0] else '-norepl'
    return f'{OPS[op]}{extra}-{tag}'


def nontrivial(case, result):
    return bool(case[1]) and not isinstance(result, Err) and bool(result[0])


# ------------------------------------------------------------------ generators
def gen_data(rng, keyed=False, maxlen=40):
    n = rng.choice([0, 1, 2, 3, 5, 8, 13, 20, maxlen]) if rng.random() < 0.5 else rng.randint(0, maxlen)
    style = rng.choice(['dup', 'range', 'str', 'mixed'])
    keys = [0, 1, 2, 3, 'a', 'b', 'zz', -1]
    out = []
    for i in range(n):
        if keyed:
            out.append((rng.choice(keys), rng.randint(0, 5)))
        elif style == 'dup':
            out.append(rng.randint(0, max(1, n // 3)))
        elif style == 'range':
            out.append(i)
        elif style == 'str':
            out.append(rng.choice(['a', 'b', 'ab', '', 'x' * rng.randint(0, 3)]))
        else:
            out.append(rng.choice([None, 0, 1, -7, 'a', (1, 2), (1,), True, 10 ** 20, [1, 2]]))
    return out


def gen_slices(rng, n):
    return rng.choice([1, 1, 2, 3, 4, n, n + 2, max(1, n // 2), 7, 0, -1])


def gen_seed(rng):
    return rng.choice([rng.randint(0, 50)] * 6 + [rng.randint(0, 2 ** 31), 2 ** 63 + rng.randint(0, 9), -rng.randint(1, 99), None])


def neighbours(x):
    out = [x]
    if 0.0 < x:
        out.append(math.nextafter(x, 0.0))
    if x < 1.0:
        out.append(math.nextafter(x, 1.0))
    return [y for y in out if 0.0 <= y < 1.0]


def adversarial_u(rng, specials, n_random, n_pad):
    pool = [0.0, ONE_MINUS, 0.5, 5e-324, 2.0 ** -53]
    for s in specials:
        if isinstance(s, float) and 0.0 <= s <= 1.0:
            pool.extend(neighbours(s))
    pool = [x for x in pool if 0.0 <= x < 1.0]
    out = []
    for _ in range(n_random):
        out.append(rng.choice(pool) if rng.random() < 0.45 else rng.random())
    return out + [0.0] * n_pad


def scripted(rng, n_elems, specials, lam=1.0, zero_pad=True, b_small=True, need_b=False):
    """A LazyScript: U = adversarial draws then zeros (a zero ends Knuth's loop, so no sampler runs dry),
    B = raw integers (small ones keep the re-sampling seeds of takeSample apart from nothing in particular)."""
    salt = rng.getrandbits(64)

    def make(key):
        r = _random.Random(f'{salt}:{key!r}')
        n_rand = int(n_elems * (max(lam, 0.0) + 1.0) * r.choice([0.0, 0.5, 1.0, 2.0])) + r.randint(0, 3)
        u = adversarial_u(r, specials, n_rand, n_elems + 2 if zero_pad else 0)
        nb = (int(n_elems * (max(lam, 0.0) + 2.0) * 1.5) + 4) if need_b else 2
        if key == 'g':
            u, nb = u[:3], 2
        b = [r.choice([r.randint(0, 60), r.getrandbits(63), r.getrandbits(70), 0]) if not b_small else r.randint(0, 60)
             for _ in range(nb)]
        return (u, b)
    return LazyScript(make)


def both(rng, out, op, data, nsl, seed, params, specials, lam=1.0):
    out.append(finish(op, data, nsl, seed, params, None, 'mt', rng.getrandbits(40)))
    out.append(finish(op, data, nsl, seed, params, scripted(rng, len(data), specials, lam, b_small=rng.random() < 0.7, need_b=(op == 2)), 'scr'))


def generate(rng, tier):
    quick = tier == 'quick'
    out = []
    # ---- sample
    fr_no = [0.0, 5e-324, 0.01, 0.3, 0.5, 0.99, ONE_MINUS, 1.0, 1.5, -0.5]
    fr_re = [0.0, 0.5, 1.0, 3.0, 0.01, 7.5, -1.0, -0.0]
    for _ in range(130 if quick else 1500):
        data = gen_data(rng)
        nsl = gen_slices(rng, len(data))
        seed = gen_seed(rng)
        wr = rng.random() < 0.45
        f = rng.choice(fr_re if wr else fr_no) if rng.random() < 0.8 else round(rng.random() * (3 if wr else 1), 3)
        as_int = f in (0.0, 1.0, 3.0) and str(f) != '-0.0' and rng.random() < 0.3
        both(rng, out, 0, data, nsl, seed, (wr, f, as_int), [f], f if wr else 0.0)
    # ---- sampleByKey
    for _ in range(90 if quick else 1000):
        data = gen_data(rng, keyed=True)
        nsl = gen_slices(rng, len(data))
        seed = gen_seed(rng)
        wr = rng.random() < 0.45
        keys = rng.sample([0, 1, 2, 3, 'a', 'b', 'zz', -1, 99], rng.randint(0, 6))
        fr = {k: rng.choice(fr_re[:6] if wr else fr_no[:8]) for k in keys}
        both(rng, out, 1, data, nsl, seed, (wr, fr), list(fr.values()), max([0.0] + list(fr.values())) if wr else 0.0)
    # a few malformed elements (not subscriptable / empty)
    for data in ([1, 2], [(), (1, 2)], ['ab', ''], [None]):
        both(rng, out, 1, data, 2, 3, (False, {1: 0.5, 'a': 1.0}), [0.5])
    # ---- takeSample
    for _ in range(110 if quick else 1200):
        data = gen_data(rng, maxlen=14)
        nsl = gen_slices(rng, len(data))
        seed = gen_seed(rng)
        wr = rng.random() < 0.5
        num = rng.choice(list(range(0, len(data) + 4)) + [-1])
        try:
            lam = RDD._computeFractionForSampleSize(max(num, 1), max(1, min(num, len(data))), True) if wr else 0.0
        except Exception:  # pylint: disable=broad-except
            lam = 5.0
        both(rng, out, 2, data, nsl, seed, (wr, num), [], lam)
    both(rng, out, 2, [1, 2, 3], 2, 3, (True, 9223372006484770809), [])
    both(rng, out, 2, [1, 2, 3], 2, 3, (False, 9223372006484770809), [])
    # the witness of C16_takeSample_repl_refuted replayed on the implementation: on a stream of zeros the
    # re-sampling loop runs until the generator has no more raw integers to hand out
    zeros = LazyScript(lambda key: ([0.0] * 8, [0] * 5))
    out.append(finish(2, [7], 1, 0, (True, 1), zeros, 'scr'))
    out.append(finish(2, [7, 7, 8], 2, 0, (True, 2), LazyScript(lambda key: ([0.0] * 8, [0] * 5)), 'scr'))
    # ---- exhaustive small scope: sizes 0..len+3 x replacement x slices x seeds; fractions x seeds x slices
    small = [5, 5, 7, 8]
    seeds = range(2) if quick else range(8)
    for num in range(0, len(small) + 4):
        for wr in (False, True):
            for nsl in (1, 2, 3):
                for seed in seeds:
                    out.append(finish(2, small, nsl, seed, (wr, num), None, 'mt', 0))
    for f in (0.0, 0.01, 0.5, 1.0):
        for nsl in (1, 2, 5):
            for seed in (range(3) if quick else range(20)):
                out.append(finish(0, small + [5, 9], nsl, seed, (False, f, False), None, 'mt', 0))
    for f in (0.5, 1.0, 3.0):
        for nsl in (1, 3):
            for seed in (range(2) if quick else range(20)):
                out.append(finish(0, small, nsl, seed, (True, f, False), None, 'mt', 0))
    # ---- randomSplit
    wvs = [[2, 3], [1], [0.1] * 10, [0.5, 0.5], [1, 1, 1], [0.3, 0.3, 0.4], [1e-3, 1.0], [0, 1], [1, 0], [0.0, 0.0, 2.5],
           [3, 0.5], [0.5, 3], [0.1, 0.2, 0.3, 0.4], [1 / 3] * 3, [1e308, 1e308], [5e-324, 5e-324], [0.7, 0.1, 0.2], [1.0],
           [0, 0], [0.0], [], [1, 2, 3, 4, 5, 6, 7], [0.1] * 7, [2 ** 52 + 1, 1, 0.5]]
    for _ in range(110 if quick else 1200):
        data = gen_data(rng, maxlen=30)
        nsl = gen_slices(rng, len(data))
        seed = gen_seed(rng)
        if rng.random() < 0.6:
            ws = rng.choice(wvs)
        else:
            k = rng.randint(1, 8)
            ws = [rng.choice([rng.random(), rng.randint(0, 5), round(rng.random(), 1), 0.1, 0]) for _ in range(k)]
        out.append(finish(3, data, nsl, seed, (ws,), None, 'mt', rng.getrandbits(40)))
        # scripted: draws on and next to every boundary
        bnd = []
        try:
            s = sum(ws)
            acc = 0
            for w in ws:
                acc = acc + w / s
                bnd.append(float(acc))
        except (ZeroDivisionError, OverflowError):
            pass
        sc = scripted(rng, len(data), bnd, 0.0, zero_pad=False)
        base = sc.make

        def make(key, base=base, n=len(data), bnd=bnd):
            u, b = base(key)
            r = _random.Random(repr(key))
            return (adversarial_u(r, bnd, n + 1, 0), b)
        sc.make = make
        out.append(finish(3, data, nsl, seed, (ws,), sc, 'scr'))
    return out


def shrink_candidates(case):
    op, data, nsl, seed, params, streams, exps, logs, tag = case
    if tag != 'mt':
        return
    for i in range(len(data)):
        yield finish(op, data[:i] + data[i + 1:], nsl, seed, params, None, 'mt')
    if nsl > 1:
        yield finish(op, data, nsl - 1, seed, params, None, 'mt')
    if isinstance(seed, int) and seed not in (0, 1):
        yield finish(op, data, nsl, 0, params, None, 'mt')


assert pysparkling.samplers.numpy is None, 'numpy present: the Poisson sampler would not be the pure-Python one'
