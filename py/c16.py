"""C16 -- sampling is seed-deterministic and returns only existing elements.

case = (op, data, layout, seed, params, streams, exps, logs, tag)
  layout = numSlices (the dataset is parallelize(list(data), numSlices))
         | (parent_code, numSlices, partitions): the dataset is another parent built from data (PARENTS: generator /
           range input, mapPartitions(sorted | list | lambda), mapPartitionsWithIndex, glom().flatMap, union,
           coalesce, zip, cartesian, persisted and materialised, ...); `partitions` is its glom().collect(), which
           is all the model sees of it.  (parent_code, numSlices, partitions, (P, pos)) for the parent 'flaky': a
           function upstream of the sampled dataset raises once in partition P after delivering pos elements
           (transient task fault; the context retries the task)
  op 0 sample(withReplacement, fraction, seed)         params = (wr, fraction: float, pass_as_int: bool)
  op 1 sampleByKey(withReplacement, fractions, seed)   params = (wr, {key: float})
  op 2 takeSample(withReplacement, num, seed)          params = (wr, num)
  op 3 randomSplit(weights, seed)                      params = (weights,)
  op 4 one sampled dataset s = sample(...) / sampleByKey(...) looked at from different depths (VIEWS): collect, count,
       map / filter on top, persisted (first and second action), glom flattened, mapValues, union with an empty
       dataset, and a second-level sample with f = 1     params = (wr, keyed, fraction | {key: float}, seed2)
  streams = [(key, [floats], [raw ints])]   what every random generator answers (see rngtap.py); key 'g' is the
            module-level generator.  tag 'mt': the streams were recorded from the real Mersenne twister for that
            seed; tag 'scr': scripted (adversarial values in [0, 1): 0.0, 1 - 2**-53, the fraction / the
            boundaries themselves and their neighbours).
  exps / logs = the graph of math.exp / math.log on the arguments the code evaluated them on.
The implementation side replays the streams through the real code; the model consumes the same streams."""
import collections
import itertools
import math
import random as _random
import sys
import time

from common.coqlit import Err
from common.harness import CaseTimeout, _limit
from rngtap import Tap

import pysparkling
from pysparkling import Context
from pysparkling.rdd import RDD

ID = 'C16'
SHARD = 200
KERNELS = ['Gen/Sampling.v: compute_fraction', 'Gen/Sampling.v: rs_next', 'Gen/Sampling.v: rs_first',
           'Gen/Sampling.v: rs_force_last', 'Gen/Sampling.v: rs_member', 'Gen/Sampling.v: bern_mult',
           'Gen/Sampling.v: bernkey_mult', 'Gen/Sampling.v: bernkey_default', 'Gen/Sampling.v: poiskey_default',
           'Gen/Sampling.v: poisson_guard', 'Gen/Sampling.v: knuth_step', 'Gen/Sampling.v: task_seed',
           'Gen/Sampling.v: default_seed_hi', 'Gen/Sampling.v: ts_max_sample_size', 'Gen/Parallelize.v: par_take',
           'Gen/Parallelize.v: par_single']
RULE = ('cases (op, data, numSlices, seed, params, draw streams): seeds 0..N and large/negative/None x fractions '
        '{0, tiny, .01, .3, .5, .99, 1, >1; with replacement .5, 1, 3, 0} x lists of ints/strings/pairs with duplicates '
        '(length 0..40) x slice counts 1..len+2 x takeSample sizes 0..len+3 x weight vectors (ints, dyadic and '
        'non-dyadic floats, zeros, [0.1]*10); an exhaustive grid on a 4-element list (sizes 0..7 x replacement x slices 1..3 x '
        'seeds; fractions {0,.01,.5,1} and {.5,1,3}); lists with None (first in a partition, whole partitions of None, [None], '
        'None as key / value of pairs) under every operation; every operation applied directly to 17 kinds of parent '
        '(generator/range input, mapPartitions(sorted|list|tuple|lambda), mapPartitionsWithIndex, glom().flatMap, union, '
        'coalesce, zip, cartesian, persisted, map, filter); every operation under a transient upstream task fault '
        '(partition 0 / last / random, after 0 / 1 / middle / last-1 / all elements); takeSample for every n in 0..size+3 '
        'on unevenly filled partitions (filters 4+1+0, sparse, tail only, one element; flatMap expanding one partition; '
        'uneven union), seeds 0..200 and rare seeds (first draw < exp(-10): empty first sample, re-sampling loop) on one- '
        'and two-element datasets; sampleByKey over composite keys built at run time by a lazy parent (tuples, nested '
        'tuples, strings, floats; fractions 1 / 0 / missing / other alternating between neighbours); one seeded sample seen through ten '
        'views (collect, count, map, filter, persist twice, glom, mapValues, union, second-level sample); every case once with the streams of the real twister (recorded) and '
        'scripted streams with adversarial draws (0.0, 1-2^-53, the fraction, every boundary and its neighbours); '
        'non-trivial = non-empty data and a result that is neither an error nor empty-by-construction; distinct by '
        'canonical JSON of the case')
ASSUMPTIONS = [
    'random.Random(k) / random.seed(k) produce a stream determined by k (the Mersenne twister is an oracle stream; '
    'validated by running every integer-seeded case twice on the untapped implementation)',
    'every draw of random() lies in [0, 1) (true of the twister; scripted streams respect it)',
    'math.exp / math.log are uninterpreted functions (their graph on the evaluated arguments is part of the case)',
    'int weights / sample sizes below 2**53 (int/int true division equals the division of the converted floats)',
    'sampleByKey keys are ints, strings or None (dict lookup modelled by structural equality)',
    'a run of the implementation that does not return within CALL_LIMIT (20 s) is reported as a violation '
    '(<op>:no-result-within-the-time-limit); generated inputs need milliseconds on the unchanged tree',
    'tasks run serially (default Context); concurrency is the subject of C03',
]
TRUSTED = ['translator/kernels/c16.py (kernels of Gen/Sampling.v)', 'py/rngtap.py (recording/scripted random module)',
           'SpecFloat (Coq stdlib reference semantics of binary64) + Prim2SF for decoding float literals',
           'Flocq 4.1 (IEEE754.BinarySingleNaN) for the rounding facts behind randomSplit_partition']

MAXSIZE = sys.maxsize
CALL_LIMIT = 20          # seconds for one run of the implementation (generation, replay, oracle re-runs)
NORESULT = 'NoResultWithinTimeLimit'
TIMEOUT = object()
ONE_MINUS = 1.0 - 2.0 ** -53


# ------------------------------------------------------------------ running the implementation
class MathTap:
    """Stand-in for `math` in pysparkling.samplers / pysparkling.rdd that records exp and log."""

    def __init__(self):
        self.exps = {}
        self.logs = {}

    def __getattr__(self, name):
        return getattr(math, name)

    def exp(self, x):
        y = math.exp(x)
        self.exps[float(x)] = y
        return y

    def log(self, x, *a):
        y = math.log(x, *a)
        if not a:
            self.logs[float(x)] = y
        return y


PARENTS = ['list', 'gen', 'range', 'mp_sorted', 'mp_list', 'mp_lambda_list', 'mpi_list', 'glom_flatmap', 'union',
           'coalesce', 'zip', 'cartesian', 'cached', 'map', 'cached_mp_list', 'mp_tuple', 'filter_true', 'flaky',
           'filter_head', 'filter_sparse', 'flatmap_expand_one', 'union_uneven', 'filter_tail', 'filter_one', 'mpi_uneven', 'mpi_last_only',
           'keyed_tuple', 'keyed_str', 'keyed_float', 'keyby_nested', 'keyed_tuple_gen']
FRESH_KEYS = ['keyed_tuple', 'keyed_str', 'keyed_float', 'keyby_nested', 'keyed_tuple_gen']
UNEVEN = ['filter_head', 'filter_sparse', 'flatmap_expand_one', 'union_uneven', 'filter_tail', 'filter_one', 'mpi_uneven',
          'mpi_last_only']
FLAKY = PARENTS.index('flaky')


def _sort_key(x):
    return (type(x).__name__, repr(x))


def build(sc, data, layout):
    """The dataset the sampling operation is applied to."""
    if isinstance(layout, int):
        return sc.parallelize(list(data), layout)
    name, nsl = PARENTS[layout[0]], layout[1]
    data = list(data)
    if name == 'gen':
        return sc.parallelize((x for x in data), nsl)
    if name == 'range':
        return sc.parallelize(range(len(data)), nsl)
    base = sc.parallelize(data, nsl)
    if name == 'list':
        return base
    if name == 'mp_sorted':
        return base.mapPartitions(lambda it: sorted(it, key=_sort_key))
    if name == 'mp_list':
        return base.mapPartitions(list)
    if name == 'mp_lambda_list':
        return base.mapPartitions(lambda it: list(it))
    if name == 'mp_tuple':
        return base.mapPartitions(tuple)
    if name == 'mpi_list':
        return base.mapPartitionsWithIndex(lambda i, it: list(it))
    if name == 'glom_flatmap':
        return base.glom().flatMap(lambda x: x)
    if name == 'union':
        h = len(data) // 2
        return sc.parallelize(data[:h], nsl).union(sc.parallelize(data[h:], max(1, nsl - 1)))
    if name == 'coalesce':
        return sc.parallelize(data, nsl + 2).coalesce(max(1, nsl))
    if name == 'zip':
        return base.zip(sc.parallelize(list(range(len(data))), nsl))
    if name == 'cartesian':
        return sc.parallelize(data[:4], nsl).cartesian(sc.parallelize(data[:3], max(1, nsl - 1)))
    if name == 'cached':
        r = base.persist()
        r.count()
        return r
    if name == 'cached_mp_list':
        r = base.mapPartitions(list).cache()
        r.collect()
        return r
    if name == 'map':
        return base.map(lambda x: x)
    if name == 'filter_true':
        return base.filter(lambda x: True)
    if name == 'flaky':
        return base.mapPartitionsWithIndex(flaky(*layout[3]))
    # elements spread unevenly over the partitions (positions, not values, decide: data may hold anything)
    n = len(data)
    if name in ('filter_head', 'filter_sparse', 'filter_tail', 'filter_one'):
        keep = {'filter_head': lambda i: i < (5 * n) // 12,            # range(12) on 3 slices: 4 + 1 + 0
                'filter_sparse': lambda i: i % 7 == 3,                  # most partitions empty
                'filter_tail': lambda i: i >= n - max(1, n // 4),       # only the last partition(s)
                'filter_one': lambda i: i == n // 2}[name]
        # (zipWithIndex would collapse the dataset into one partition)
        return sc.parallelize([(x, i) for i, x in enumerate(data)], nsl).filter(lambda xi: keep(xi[1])).map(lambda xi: xi[0])
    if name == 'flatmap_expand_one':
        return sc.parallelize([(x, i) for i, x in enumerate(data)], nsl).flatMap(
            lambda xi: [xi[0]] * 6 if xi[1] == 0 else ([xi[0]] if xi[1] % 5 == 0 else []))
    if name == 'union_uneven':
        return sc.parallelize(data[:1], 1).union(sc.parallelize(data[1:], max(1, nsl)))
    # composite key objects built on the fly by a lazily evaluated parent: every element carries a fresh,
    # short-lived key object (equal keys are distinct objects; the ids of dropped ones get reused)
    if name == 'keyed_tuple':
        return base.map(lambda x: ((_n(x) % 3, 'k%d' % (_n(x) % 2)), x))
    if name == 'keyed_str':
        return base.map(lambda x: ('key-' + str(_n(x) % 4), x))
    if name == 'keyed_float':
        return base.map(lambda x: ((_n(x) % 4) * 0.5 + 0.25, x))
    if name == 'keyby_nested':
        return base.keyBy(lambda x: (_n(x) % 2, (_n(x) % 3, str(_n(x) % 2))))
    if name == 'keyed_tuple_gen':
        return sc.parallelize((x for x in data), nsl).mapPartitions(
            lambda it: (((_n(x) % 5, _n(x) % 2), x) for x in it))
    if name == 'mpi_uneven':
        # partition i keeps its first max(0, 4 - 3 * i) elements: 4 + 1 + 0 + ...
        return base.mapPartitionsWithIndex(lambda i, it: itertools.islice(it, max(0, 4 - 3 * i)))
    if name == 'mpi_last_only':
        return base.mapPartitionsWithIndex(lambda i, it: it if i == nsl - 1 else iter(()))
    raise ValueError(name)


def flaky(P, pos):
    """Passes the elements through; raises once, in partition P, when pos elements have been delivered
    (after the last one if the partition is shorter)."""
    fired = [False]

    def f(i, it):
        j = 0
        for x in it:
            if i == P and j == pos and not fired[0]:
                fired[0] = True
                raise RuntimeError('transient fault')
            yield x
            j += 1
        if i == P and j <= pos and not fired[0]:
            fired[0] = True
            raise RuntimeError('transient fault')
    return f


def _n(x):
    return x if isinstance(x, int) and not isinstance(x, bool) else len(repr(x))


def _ident(x):
    return x


def _true(x):
    return True


VIEWS = ['collect', 'count', 'map.collect', 'filter.collect', 'persist.collect#1', 'persist.collect#2', 'glom-flattened',
         'mapValues|map.map', 'union-with-empty', 'sample(False,1.0,seed2)']


def views(rdd, op_params, seed):
    wr, keyed, fr, seed2 = op_params
    s = rdd.sampleByKey(wr, dict(fr), seed) if keyed else rdd.sample(wr, fr, seed)
    v = [s.collect(), s.count(), s.map(_ident).collect(), s.filter(_true).collect()]
    p = s.persist()
    v += [p.collect(), p.collect()]
    v.append([x for g in s.glom().collect() for x in g])
    v.append(s.mapValues(_ident).collect() if keyed else s.map(_ident).map(_ident).collect())
    v.append(s.union(rdd.context.parallelize([])).collect())
    v.append(s.sample(False, 1.0, seed2).collect())
    return v


def call(op, data, layout, seed, params):
    rdd = build(Context(), data, layout)
    if op == 0:
        wr, f, as_int = params
        return rdd.sample(wr, int(f) if as_int else f, seed).glom().collect()
    if op == 1:
        wr, fr = params
        return rdd.sampleByKey(wr, dict(fr), seed).glom().collect()
    if op == 2:
        wr, num = params
        return rdd.takeSample(wr, num, seed)
    if op == 3:
        return [s.collect() for s in rdd.randomSplit(list(params[0]), seed)]
    if op == 4:
        return views(rdd, params, seed)
    raise ValueError(op)


def limited(f, *a):
    """A run of the implementation that must come back: TIMEOUT instead of a hang."""
    try:
        with _limit(CALL_LIMIT):
            return f(*a)
    except CaseTimeout:
        return TIMEOUT


def run_tapped(op, data, nsl, seed, params, script, mtap=None, entropy=None):
    import pysparkling.rdd as rddmod
    import pysparkling.samplers as smod
    tap = Tap(script, entropy)
    saved = (rddmod.math, smod.math)
    if mtap is not None:
        rddmod.math = mtap
        smod.math = mtap
    try:
        with tap.installed():
            try:
                value = call(op, data, nsl, seed, params)
            except Exception as e:  # pylint: disable=broad-except
                return Err(type(e).__name__), tap
        return (value, tap.gsig()), tap
    finally:
        rddmod.math, smod.math = saved


def impl(case):
    op, data, nsl, seed, params, streams, _exps, _logs, tag = case
    if tag == 'timeout':
        # the implementation did not come back when the case was generated: try once more, untapped
        r = limited(untapped, op, data, nsl, seed, params)
        if r is TIMEOUT:
            return Err(NORESULT)
        return r if isinstance(r, Err) else (r, ('g', 0, 0))
    script = {k: (u, b) for k, u, b in streams}
    r = limited(run_tapped, op, data, nsl, seed, params, script)
    if r is TIMEOUT:
        return Err(NORESULT)
    return r[0]


class LazyScript(dict):
    """Scripted streams made on demand (deterministically from the key), remembering what was asked for."""

    def __init__(self, make):
        super().__init__()
        self.make = make

    def get(self, key, default=None):
        if key not in self:
            self[key] = self.make(key)
        return self[key]


GEN_TIMEOUTS = collections.Counter()
UNEVEN_SHAPES = {}
GEN_SLOW = collections.Counter()
SLOW_CALL = 1.0          # seconds; a run on these tiny inputs takes well under a millisecond on the unchanged tree


def with_parts(data, layout):
    """Fill in the partitions of a non-parallelize parent (None if the parent itself cannot be built)."""
    if isinstance(layout, int):
        return layout
    r = limited(lambda: build(Context(), data, layout).glom().collect())
    if r is TIMEOUT:
        return None
    return (layout[0], layout[1], r) + tuple(layout[3:4])


def finish(op, data, nsl, seed, params, script, tag, entropy=0):
    """Run the implementation once to learn which generators it creates and where it evaluates exp/log;
    returns the complete case.  An implementation that does not come back within CALL_LIMIT gives a case tagged
    'timeout' (reported by the oracle); after two of them no more cases of that operation are generated."""
    if GEN_TIMEOUTS[op] >= 2 or GEN_SLOW[op] >= 4:
        return None          # bounded cost on a tree where the operation hangs or crawls
    if not isinstance(nsl, int) and (len(nsl) == 2 or nsl[2] is None):
        try:
            nsl = with_parts(data, nsl)
        except Exception:  # pylint: disable=broad-except
            return None
        if nsl is None:
            return None
    mt = MathTap()
    t0 = time.time()
    r = limited(run_tapped, op, data, nsl, seed, params, script, mt, entropy)
    if time.time() - t0 > SLOW_CALL:
        GEN_SLOW[op] += 1
    if r is TIMEOUT:
        GEN_TIMEOUTS[op] += 1
        return (op, data, nsl, seed, params, [], [], [], 'timeout')
    _, tap = r
    if script is None:
        table = tap.streams()
    else:
        # keep what was consumed plus a little slack (the replay consumes exactly the same)
        used = tap.streams()
        table = {}
        for k, (u, b) in script.items():
            cu, cb = used.get(k, ([], []))
            table[k] = (list(u)[:len(cu) + 2], list(b)[:len(cb) + 1])
    streams = [(k, list(u), list(b)) for k, (u, b) in table.items()]
    exps = [(x, y) for x, y in mt.exps.items()]
    logs = [(x, y) for x, y in mt.logs.items()]
    return (op, data, nsl, seed, params, streams, exps, logs, tag)


# ------------------------------------------------------------------ oracle (implementation only)
def parts_of(data, layout):
    return build(Context(), data, layout).glom().collect()


def is_subseq(small, big):
    it = iter(big)
    return all(any(_same(x, y) for y in it) for x in small)


def _same(a, b):
    return type(a) is type(b) and a == b


def sub_multiset(small, big):
    c = collections.Counter(map(_h, big))
    c.subtract(collections.Counter(map(_h, small)))
    return all(v >= 0 for v in c.values())


def _h(x):
    return (type(x).__name__, repr(x))


def untapped(op, data, nsl, seed, params):
    try:
        return call(op, data, nsl, seed, params)
    except Exception as e:  # pylint: disable=broad-except
        return Err(type(e).__name__)


def oracle(case, result):
    op, data, nsl, seed, params, streams, _exps, _logs, tag = case
    late = (f'{OPS[op]}:no-result-within-the-time-limit',
            f'{OPS[op]}{params!r} with seed {seed!r} on {data!r} (layout {_layout_name(nsl)}) did not return within '
            f'{CALL_LIMIT} s')
    if isinstance(result, Err):
        if result.name == NORESULT:
            return late
        if result.name.startswith('HarnessCrash'):
            return ('harness:crash', result.name)
        value = result
    else:
        value = result[0]
    if tag == 'timeout':
        return late          # it hung when the case was generated (and came back only on the second attempt)
    # determinism: equal seed and partitioning give an identical result (real generators, run twice;
    # for recorded streams also identical to the replayed result)
    if seed is not None:
        a = limited(untapped, op, data, nsl, seed, params)
        b = limited(untapped, op, data, nsl, seed, params) if a is not TIMEOUT else TIMEOUT
        if a is TIMEOUT or b is TIMEOUT:
            return late
        if not _eq(a, b):
            return (f'{OPS[op]}:not-deterministic', f'two runs with seed {seed}: {a!r} vs {b!r}')
        if tag == 'mt' and not _eq(a, value):
            return (f'{OPS[op]}:replay-differs', f'seed {seed}: untapped {a!r} vs replayed {value!r}')
    if not isinstance(nsl, int) and nsl[0] == FLAKY and seed is not None and op != 2:
        # a transient task fault upstream must not change the result: same as on the fault-free dataset
        ref = limited(untapped, op, data, nsl[1], seed, params)
        if ref is TIMEOUT:
            return late
        for name, got in (('untapped', a), ('replayed', value)):
            if (name == 'untapped' or tag == 'mt') and not _eq(ref, got):
                return (f'{OPS[op]}:differs-under-transient-fault',
                        f'fault in partition {nsl[3][0]} after {nsl[3][1]} elements, seed {seed}: '
                        f'{name} {got!r} vs fault-free {ref!r}')
    if isinstance(value, Err):
        return None
    parts = parts_of(data, nsl)          # the input dataset of the sampling operation, freshly evaluated
    flat = [x for p in parts for x in p]
    if op == 0:
        wr, f, _ = params
        out = [x for p in value for x in p]
        if not wr:
            if len(value) != len(parts) or not all(is_subseq(o, p) for o, p in zip(value, parts)):
                return ('sample:not-subsequence', f'{value!r} of {parts!r}')
            if f == 0 and out:
                return ('sample:f0-not-empty', repr(value))
            if f == 1 and not _eq(value, parts):
                return ('sample:f1-not-complete', f'{value!r} of {parts!r}')
        elif not all(any(_same(x, y) for y in flat) for x in out):
            return ('sample:invented-element', f'{value!r} of {flat!r}')
        return None
    if op == 1:
        wr, fr = params
        out = [x for p in value for x in p]
        if not all(any(_same(x, y) for y in flat) for x in out):
            return ('sampleByKey:invented-element', f'{value!r} of {flat!r}')
        for x in out:
            if fr.get(x[0], 0.0) == 0:
                return ('sampleByKey:zero-or-missing-key-present', f'{x!r} with fractions {fr!r}')
        if not wr:
            # keys with fraction 1 are kept completely (every draw is below 1), in order, partition by partition
            for o, p in zip(value, parts):
                full = [x for x in p if fr.get(x[0], 0.0) == 1]
                got = [x for x in o if fr.get(x[0], 0.0) == 1]
                if not _eq(full, got):
                    return ('sampleByKey:fraction-1-key-incomplete',
                            f'elements with a fraction-1 key {full!r}, sampled {got!r}; fractions {fr!r}')
        return None
    if op == 2:
        wr, num = params
        if num < 0:
            return None
        if not wr:
            if len(value) != min(num, len(flat)):
                return ('takeSample:norepl-length', f'{len(value)} elements for num={num}, size={len(flat)}')
            if not sub_multiset(value, flat):
                return ('takeSample:norepl-not-submultiset', f'{value!r} of {flat!r}')
        else:
            if flat and len(value) != num:
                return ('takeSample:repl-length', f'{len(value)} elements for num={num}, size={len(flat)}')
            if not all(any(_same(x, y) for y in flat) for x in value):
                return ('takeSample:invented-element', f'{value!r} of {flat!r}')
        return None
    if op == 4:
        wr, keyed, fr, _seed2 = params
        base = value[0]
        for name, v in zip(VIEWS, value):
            same = (v == len(base)) if name == 'count' else _eq(v, base)
            if not same:
                return (f'sample:differs-at-depth:{name}', f'seed {seed}: collect() gives {base!r}, {name} gives {v!r}')
        if not all(any(_same(x, y) for y in flat) for x in base):
            return ('sample:invented-element', f'{base!r} of {flat!r}')
        if not wr and not is_subseq(base, flat):
            return ('sample:not-subsequence', f'{base!r} of {flat!r}')
        return None
    if op == 3:
        ws = params[0]
        if not ws or any(not (w >= 0) or w == math.inf for w in ws) or not sum(ws) > 0:
            return None
        if len(value) != len(ws):
            return ('randomSplit:split-count', f'{len(value)} splits for {len(ws)} weights')
        if sum(len(s) for s in value) != len(flat) or not sub_multiset(flat, [x for s in value for x in s]):
            return ('randomSplit:not-exactly-one-split', f'{value!r} of {flat!r}')
        if not all(is_subseq(s, flat) for s in value):
            return ('randomSplit:order', f'{value!r} of {flat!r}')
        return None
    return None


def _layout_name(layout):
    return f'parallelize/{layout}' if isinstance(layout, int) else f'{PARENTS[layout[0]]}/{layout[1]}'


def _eq(a, b):
    if isinstance(a, Err) or isinstance(b, Err):
        return a == b
    return repr(a) == repr(b)


OPS = ['sample', 'sampleByKey', 'takeSample', 'randomSplit', 'sampleViews']


def extra_evidence():
    return {'uneven_parent_partition_sizes': dict(UNEVEN_SHAPES)}


def kind(case):
    op, params, tag = case[0], case[4], case[8]
    extra = ''
    if op in (0, 1, 2, 4):
        extra = '-repl' if params[0] else '-norepl'
    par = '' if isinstance(case[2], int) else '-' + PARENTS[case[2][0]]
    return f'{OPS[op]}{extra}-{tag}{par}'


def nontrivial(case, result):
    return bool(case[1]) and not isinstance(result, Err) and bool(result[0]) and case[8] != 'timeout'


# ------------------------------------------------------------------ generators
def gen_data(rng, keyed=False, maxlen=40):
    n = rng.choice([0, 1, 2, 3, 5, 8, 13, 20, maxlen]) if rng.random() < 0.5 else rng.randint(0, maxlen)
    style = rng.choice(['dup', 'range', 'str', 'mixed'])
    keys = [0, 1, 2, 3, 'a', 'b', 'zz', -1]
    out = []
    for i in range(n):
        if keyed:
            out.append((rng.choice(keys), rng.randint(0, 5)))
        elif style == 'dup':
            out.append(rng.randint(0, max(1, n // 3)))
        elif style == 'range':
            out.append(i)
        elif style == 'str':
            out.append(rng.choice(['a', 'b', 'ab', '', 'x' * rng.randint(0, 3)]))
        else:
            out.append(rng.choice([None, 0, 1, -7, 'a', (1, 2), (1,), True, 10 ** 20, [1, 2]]))
    return out


def gen_slices(rng, n):
    return rng.choice([1, 1, 2, 3, 4, n, n + 2, max(1, n // 2), 7, 0, -1])


def gen_seed(rng):
    return rng.choice([rng.randint(0, 50)] * 6 + [rng.randint(0, 2 ** 31), 2 ** 63 + rng.randint(0, 9), -rng.randint(1, 99), None])


def neighbours(x):
    out = [x]
    if 0.0 < x:
        out.append(math.nextafter(x, 0.0))
    if x < 1.0:
        out.append(math.nextafter(x, 1.0))
    return [y for y in out if 0.0 <= y < 1.0]


def adversarial_u(rng, specials, n_random, n_pad):
    pool = [0.0, ONE_MINUS, 0.5, 5e-324, 2.0 ** -53]
    for s in specials:
        if isinstance(s, float) and 0.0 <= s <= 1.0:
            pool.extend(neighbours(s))
    pool = [x for x in pool if 0.0 <= x < 1.0]
    out = []
    for _ in range(n_random):
        out.append(rng.choice(pool) if rng.random() < 0.45 else rng.random())
    return out + [0.0] * n_pad


def scripted(rng, n_elems, specials, lam=1.0, zero_pad=True, b_small=True, need_b=False):
    """A LazyScript: U = adversarial draws then zeros (a zero ends Knuth's loop, so no sampler runs dry),
    B = raw integers (small ones keep the re-sampling seeds of takeSample apart from nothing in particular)."""
    salt = rng.getrandbits(64)

    def make(key):
        r = _random.Random(f'{salt}:{key!r}')
        n_rand = int(n_elems * (max(lam, 0.0) + 1.0) * r.choice([0.0, 0.5, 1.0, 2.0])) + r.randint(0, 3)
        u = adversarial_u(r, specials, n_rand, n_elems + 2 if zero_pad else 0)
        nb = (int(n_elems * (max(lam, 0.0) + 2.0) * 1.5) + 4) if need_b else 2
        if key == 'g':
            u, nb = u[:3], 2
        b = [r.choice([r.randint(0, 60), r.getrandbits(63), r.getrandbits(70), 0]) if not b_small else r.randint(0, 60)
             for _ in range(nb)]
        return (u, b)
    return LazyScript(make)


def both(rng, out, op, data, nsl, seed, params, specials, lam=1.0, scr=True):
    n = len(data)
    if not isinstance(nsl, int):
        try:
            nsl = with_parts(data, nsl)
        except Exception:  # pylint: disable=broad-except
            return
        if nsl is None:
            return
        n = sum(len(p) for p in nsl[2])
    if op == 4:
        n = int(n * (max(lam, 0.0) + 1.0) * 4) + 8      # the second-level sample draws once per sampled element
    out.append(finish(op, data, nsl, seed, params, None, 'mt', rng.getrandbits(40)))
    if scr:
        out.append(finish(op, data, nsl, seed, params,
                          scripted(rng, n, specials, lam, b_small=rng.random() < 0.7, need_b=(op == 2)), 'scr'))


def op_variants(rng, data, keyed_fr=None):
    """(op, params, specials, lam) for one dataset: every sampling operation, with and without replacement."""
    n = len(data)
    v = [(0, (False, 1.0, False), [1.0], 0.0), (0, (False, rng.choice([0.5, 0.3, 0.0]), False), [0.5, 0.3], 0.0),
         (0, (True, 1.0, False), [], 1.0), (0, (True, rng.choice([3.0, 1.5]), False), [], 3.0),
         (2, (False, rng.choice([n, n + 2, max(0, n - 1), 1])), [], 0.0),
         (2, (True, rng.choice([n, n + 2, 1, 2])), [], 6.0),
         (3, (rng.choice([[1, 1], [0.3, 0.3, 0.4], [2, 3], [0.1] * 10]),), [], 0.0)]
    v.append((4, (False, False, rng.choice([0.5, 0.3, 1.0]), rng.randint(0, 30)), [0.5, 0.3], 0.0))
    v.append((4, (True, False, rng.choice([0.5, 1.0, 3.0]), rng.randint(0, 30)), [], 3.0))
    if keyed_fr is not None:
        v.append((1, (False, keyed_fr), list(keyed_fr.values()), 0.0))
        v.append((1, (True, keyed_fr), [], max([0.0] + list(keyed_fr.values()))))
        v.append((4, (False, True, keyed_fr, rng.randint(0, 30)), list(keyed_fr.values()), 0.0))
        v.append((4, (True, True, keyed_fr, rng.randint(0, 30)), [], max([0.0] + list(keyed_fr.values()))))
    return v


def generate(rng, tier):
    quick = tier == 'quick'
    out = []
    GEN_TIMEOUTS.clear()
    GEN_SLOW.clear()
    fr_no4 = [0.0, 0.01, 0.3, 0.5, 0.99, 1.0]
    fr_re4 = [0.0, 0.5, 1.0, 3.0]
    # ---- None as data: first element of a partition, whole partitions of None, a single None
    nones = [[None], [None, None, None], [None, 1, 2], [1, None, 2, None], [None, None, 3], [0, None, '', None, False],
             [1, 2, None, 3], [None, 5, None, 5, None, 5]]
    for data in nones:
        for nsl in ((1, 2, 3) if quick else (1, 2, 3, 4, len(data), len(data) + 1)):
            for seed in ((0,) if quick else (0, 1, 7, None)):
                for op, params, specials, lam in op_variants(rng, data):
                    both(rng, out, op, data, nsl, seed, params, specials, lam, scr=(not quick or rng.random() < 0.4))
                # None as the key / as the value of a pair
                keyed = [(x, i) for i, x in enumerate(data)]
                fr = {None: rng.choice([1.0, 0.5]), 1: 0.0, 5: 1.0}
                both(rng, out, 1, keyed, nsl, seed, (False, fr), [0.5, 1.0], 0.0, scr=not quick)
                both(rng, out, 1, keyed, nsl, seed, (True, {None: 1.0, 2: 3.0}), [], 3.0, scr=not quick)
                both(rng, out, 1, [(1, None), (2, None), (1, None)], nsl, seed, (False, {1: 1.0}), [1.0], 0.0, scr=False)
    # ---- sampling applied directly to other parents (re-iterable partitions, local operations, caches)
    for pc in range(len(PARENTS)):
        for rep in range(3 if quick else 8):
            base = rng.choice([[3, 1, 2, 5, 4, 9, 8], [None, 2, None, 2, 7], [4, 4, 4], list(range(12)), [6], [],
                               ['b', 'a', 'c', 'a']]) if rep or rng.random() < 0.5 else [3, 1, 2, 5, 4, 9, 8]
            nsl = rng.choice([1, 2, 3, 4])
            seed = rng.choice([0, 1, 2, 11, None]) if rep else rng.choice([0, 3])
            keyed_fr = None
            if PARENTS[pc] in ('zip', 'cartesian'):
                keyed_fr = {k: rng.choice([0.0, 0.5, 1.0]) for k in rng.sample([3, 1, 2, 5, 4, None, 'a', 0, 6], 4)}
            for op, params, specials, lam in op_variants(rng, base, keyed_fr):
                both(rng, out, op, base, (pc, nsl), seed, params, specials, lam, scr=(not quick or rng.random() < 0.4))
    # ---- a transient task fault upstream of the sampled dataset (raises once after pos elements; retried)
    for rep in range(14 if quick else 120):
        n = rng.choice([4, 6, 9, 12])
        keyed = rng.random() < 0.35
        data = [(rng.choice([0, 1, 2, 'a']), i) for i in range(n)] if keyed else \
            [rng.choice([i, i % 3, None]) if rng.random() < 0.3 else i for i in range(n)]
        nsl = rng.choice([1, 2, 3, 4])
        psizes = [len(p) for p in parts_of(data, nsl)]
        P = rng.choice([0, 0, max(0, len(psizes) - 1), rng.randrange(len(psizes))])
        pos = rng.choice([0, 1, psizes[P] // 2, max(0, psizes[P] - 1), psizes[P]])
        seed = rng.choice([0, 1, 2, 13, None])
        fr = {k: rng.choice([0.0, 0.5, 1.0]) for k in rng.sample([0, 1, 2, 'a', 9], 3)} if keyed else None
        for op, params, specials, lam in op_variants(rng, data, fr):
            if op == 2:
                # take(num) evaluates lazily outside the retried task: a fault inside the partitions it reads
                # surfaces as the fault itself (retrying is the subject of C04); keep the fault beyond its reach
                wr, num = params
                if not wr or num > sum(psizes[:P]) or num <= 0:
                    continue
            both(rng, out, op, data, (FLAKY, nsl, None, (P, pos)), seed, params, specials, lam,
                 scr=(not quick or rng.random() < 0.4))
    # ---- the same seeded sample seen from different depths
    for rep in range(40 if quick else 600):
        keyed = rng.random() < 0.4
        data = gen_data(rng, keyed=keyed, maxlen=16)
        nsl = gen_slices(rng, len(data))
        seed = gen_seed(rng)
        wr = rng.random() < 0.45
        if keyed:
            keys = rng.sample([0, 1, 2, 3, 'a', 'b', 'zz', -1, 99], rng.randint(1, 6))
            fr = {k: rng.choice(fr_re4 if wr else fr_no4) for k in keys}
            lam = max([0.0] + list(fr.values())) if wr else 0.0
            both(rng, out, 4, data, nsl, seed, (wr, True, fr, rng.randint(0, 40)), list(fr.values()), lam)
        else:
            f = rng.choice(fr_re4 if wr else fr_no4)
            both(rng, out, 4, data, nsl, seed, (wr, False, f, rng.randint(0, 40)), [f], f if wr else 0.0)
    # ---- takeSample on datasets whose elements are spread unevenly over the partitions: every n in 0..size+3
    for name in UNEVEN:
        pc = PARENTS.index(name)
        for data, nsl in (((list(range(12)), 3),) if quick else
                          ((list(range(12)), 3), (list(range(12)), 4), ([None, 1, 1, 2, None, 3, 5, 8, 13, 21], 3),
                           (list(range(25)), 6))):
            lay = with_parts(data, (pc, nsl))
            if lay is None:
                continue
            size = sum(len(p) for p in lay[2])
            UNEVEN_SHAPES[name] = [len(p) for p in lay[2]]
            for num in range(0, size + 4):
                for wr in (False, True):
                    for seed in ((0, rng.randint(1, 50)) if quick else (0, 1, 2, 3, rng.randint(4, 10 ** 6), None)):
                        lam = 10.0 if wr else 0.0
                        both(rng, out, 2, data, lay, seed, (wr, num), [], lam,
                             scr=(rng.random() < (0.25 if quick else 0.6)))
    # ---- rare seeds: one- and two-element datasets, with replacement; seeds 0..200 and seeds whose first draw is below
    # exp(-10) (facts about the twister, re-checked here), where the first Poisson sample is empty and the loop re-samples
    rare = [sd for sd in (22338, 29036, 30818, 42178, 74887, 152559, 166519, 187916, 188224, 190893, 207172, 297100)
            if _random.Random(sd).random() < math.exp(-10)]
    for sd in list(range(0, 201 if not quick else 201, 1 if not quick else 1)) + rare:
        out.append(finish(2, [7], 1, sd, (True, 1), None, 'mt', 0))
        if sd in rare or sd % (10 if quick else 2) == 0:
            out.append(finish(2, [7], 1, sd, (False, 1), None, 'mt', 0))
            out.append(finish(2, [7, None], rng.choice([1, 2]), sd, (True, 2), None, 'mt', 0))
            out.append(finish(2, [7], 2, sd, (True, 3), None, 'mt', 0))
    for sd in rare:
        for pc in (PARENTS.index('filter_one'), PARENTS.index('filter_head')):
            for num in (1, 2):
                both(rng, out, 2, list(range(12)), (pc, 3), sd, (True, num), [], 10.0, scr=False)
    # ---- sampleByKey over composite keys created on the fly (fresh key object per element)
    for name in FRESH_KEYS:
        pc = PARENTS.index(name)
        for rep in range(3 if quick else 12):
            data = list(range(rng.choice([24, 48, 60])))
            nsl = rng.choice([1, 2, 3])
            lay = with_parts(data, (pc, nsl))
            if lay is None:
                continue
            universe = []
            for part in lay[2]:
                for x in part:
                    if x[0] not in universe:
                        universe.append(x[0])
            for wr in (False, True):
                # some keys positive, some 0, some missing; neighbours in the data alternate between them
                fr = {}
                for k in universe:
                    c = rng.choice(['one', 'zero', 'missing', 'half'])
                    if c != 'missing':
                        fr[k] = {'one': 1.0, 'zero': 0.0, 'half': 0.5}[c] if not wr else {'one': 1.0, 'zero': 0.0, 'half': 3.0}[c]
                if rep == 0:
                    fr = {k: (1.0 if i % 2 == 0 else 0.0) for i, k in enumerate(universe)}
                seed = rng.choice([0, 1, 5, 77, None])
                lam = max([0.0] + list(fr.values())) if wr else 0.0
                both(rng, out, 1, data, lay, seed, (wr, fr), list(fr.values()), lam, scr=(not quick or rng.random() < 0.5))
                if rep == 0:
                    both(rng, out, 4, data, lay, seed, (wr, True, fr, rng.randint(0, 30)), list(fr.values()), lam, scr=False)
    # ---- sample
    fr_no = [0.0, 5e-324, 0.01, 0.3, 0.5, 0.99, ONE_MINUS, 1.0, 1.5, -0.5]
    fr_re = [0.0, 0.5, 1.0, 3.0, 0.01, 7.5, -1.0, -0.0]
    for _ in range(100 if quick else 1500):
        data = gen_data(rng)
        nsl = gen_slices(rng, len(data))
        seed = gen_seed(rng)
        wr = rng.random() < 0.45
        f = rng.choice(fr_re if wr else fr_no) if rng.random() < 0.8 else round(rng.random() * (3 if wr else 1), 3)
        as_int = f in (0.0, 1.0, 3.0) and str(f) != '-0.0' and rng.random() < 0.3
        both(rng, out, 0, data, nsl, seed, (wr, f, as_int), [f], f if wr else 0.0)
    # ---- sampleByKey
    for _ in range(60 if quick else 1000):
        data = gen_data(rng, keyed=True)
        nsl = gen_slices(rng, len(data))
        seed = gen_seed(rng)
        wr = rng.random() < 0.45
        keys = rng.sample([0, 1, 2, 3, 'a', 'b', 'zz', -1, 99], rng.randint(0, 6))
        fr = {k: rng.choice(fr_re[:6] if wr else fr_no[:8]) for k in keys}
        both(rng, out, 1, data, nsl, seed, (wr, fr), list(fr.values()), max([0.0] + list(fr.values())) if wr else 0.0)
    # a few malformed elements (not subscriptable / empty)
    for data in ([1, 2], [(), (1, 2)], ['ab', ''], [None]):
        both(rng, out, 1, data, 2, 3, (False, {1: 0.5, 'a': 1.0}), [0.5])
    # ---- takeSample
    for _ in range(80 if quick else 1200):
        data = gen_data(rng, maxlen=14)
        nsl = gen_slices(rng, len(data))
        seed = gen_seed(rng)
        wr = rng.random() < 0.5
        num = rng.choice(list(range(0, len(data) + 4)) + [-1])
        try:
            lam = RDD._computeFractionForSampleSize(max(num, 1), max(1, min(num, len(data))), True) if wr else 0.0
        except Exception:  # pylint: disable=broad-except
            lam = 5.0
        both(rng, out, 2, data, nsl, seed, (wr, num), [], lam)
    both(rng, out, 2, [1, 2, 3], 2, 3, (True, 9223372006484770809), [])
    both(rng, out, 2, [1, 2, 3], 2, 3, (False, 9223372006484770809), [])
    # the witness of C16_takeSample_repl_refuted replayed on the implementation: on a stream of zeros the
    # re-sampling loop runs until the generator has no more raw integers to hand out
    zeros = LazyScript(lambda key: ([0.0] * 8, [0] * 5))
    out.append(finish(2, [7], 1, 0, (True, 1), zeros, 'scr'))
    out.append(finish(2, [7, 7, 8], 2, 0, (True, 2), LazyScript(lambda key: ([0.0] * 8, [0] * 5)), 'scr'))
    # ---- exhaustive small scope: sizes 0..len+3 x replacement x slices x seeds; fractions x seeds x slices
    small = [5, 5, 7, 8]
    seeds = range(2) if quick else range(8)
    for num in range(0, len(small) + 4):
        for wr in (False, True):
            for nsl in (1, 2, 3):
                for seed in seeds:
                    out.append(finish(2, small, nsl, seed, (wr, num), None, 'mt', 0))
    for f in (0.0, 0.01, 0.5, 1.0):
        for nsl in (1, 2, 5):
            for seed in (range(3) if quick else range(20)):
                out.append(finish(0, small + [5, 9], nsl, seed, (False, f, False), None, 'mt', 0))
    for f in (0.5, 1.0, 3.0):
        for nsl in (1, 3):
            for seed in (range(2) if quick else range(20)):
                out.append(finish(0, small, nsl, seed, (True, f, False), None, 'mt', 0))
    # ---- randomSplit
    wvs = [[2, 3], [1], [0.1] * 10, [0.5, 0.5], [1, 1, 1], [0.3, 0.3, 0.4], [1e-3, 1.0], [0, 1], [1, 0], [0.0, 0.0, 2.5],
           [3, 0.5], [0.5, 3], [0.1, 0.2, 0.3, 0.4], [1 / 3] * 3, [1e308, 1e308], [5e-324, 5e-324], [0.7, 0.1, 0.2], [1.0],
           [0, 0], [0.0], [], [1, 2, 3, 4, 5, 6, 7], [0.1] * 7, [2 ** 52 + 1, 1, 0.5]]
    for _ in range(80 if quick else 1200):
        data = gen_data(rng, maxlen=30)
        nsl = gen_slices(rng, len(data))
        seed = gen_seed(rng)
        if rng.random() < 0.6:
            ws = rng.choice(wvs)
        else:
            k = rng.randint(1, 8)
            ws = [rng.choice([rng.random(), rng.randint(0, 5), round(rng.random(), 1), 0.1, 0]) for _ in range(k)]
        out.append(finish(3, data, nsl, seed, (ws,), None, 'mt', rng.getrandbits(40)))
        # scripted: draws on and next to every boundary
        bnd = []
        try:
            s = sum(ws)
            acc = 0
            for w in ws:
                acc = acc + w / s
                bnd.append(float(acc))
        except (ZeroDivisionError, OverflowError):
            pass
        sc = scripted(rng, len(data), bnd, 0.0, zero_pad=False)
        base = sc.make

        def make(key, base=base, n=len(data), bnd=bnd):
            u, b = base(key)
            r = _random.Random(repr(key))
            return (adversarial_u(r, bnd, n + 1, 0), b)
        sc.make = make
        out.append(finish(3, data, nsl, seed, (ws,), sc, 'scr'))
    return [c for c in out if c is not None]


def shrink_candidates(case):
    op, data, nsl, seed, params, streams, exps, logs, tag = case
    if tag == 'scr':
        return
    lay = nsl if isinstance(nsl, int) else (nsl[0], nsl[1], None) + tuple(nsl[3:4])
    cands = [(data[:i] + data[i + 1:], lay, seed) for i in range(len(data))]
    if isinstance(nsl, int) and nsl > 1:
        cands.append((data, nsl - 1, seed))
    if isinstance(seed, int) and seed not in (0, 1):
        cands.append((data, lay, 0))
    if tag == 'timeout':
        cands = cands[:2]          # every attempt costs CALL_LIMIT seconds
    for d, l, sd in cands:
        GEN_TIMEOUTS.clear()
        c = finish(op, d, l, sd, params, None, 'mt')
        if c is not None:
            yield c


assert pysparkling.samplers.numpy is None, 'numpy present: the Poisson sampler would not be the pure-Python one'
