"""C03 -- results are independent of execution backend and task schedule.

case = (backend, timed, parts, stages, draws, jobs)
  backend 0: SchedPool (py/sched_pool.py: one thread per task, interleaved line by line under the schedule), objects shared
          1: SchedPool + cloudpickle/pickle (de)serializer: every task unpickles its own (func, dataset)
          2: DummyPool (the default in-process executor)
          3: concurrent.futures.ThreadPoolExecutor            (events not observable)
          4: multiprocessing.Pool + cloudpickle/pickle.loads   5: multiprocessing.Pool + dill
          6: ProcessPoolExecutor + cloudpickle/pickle.loads    7: ProcessPoolExecutor + dill
          8: an object whose map is the lazy builtin map (tasks run one by one while the driver consumes the results)
  timed   1: Context(cache_manager=TimedCacheManager())
  parts   source partitions (lists of small ints); stages from the source upwards:
          (0, fcode) map/filter/flatMap from the function library | (1,) persist() |
          (2, seed, 0, fraction) sample(False, fraction, seed) | (2, seed, 1, lam, exp(-lam)) sample(True, lam, seed)
  draws   [(seed, the random() values random.Random(seed) hands out while the plain lineage is evaluated)]
          -- the Mersenne twister (and math.exp) are oracles for the model
  jobs    [(depth, action, arg, schedule)]: action on the dataset made of the first `depth` stages;
          0 runJob(unit_map) per-partition lists, 1 collect, 2 count, 3 sum, 4 coalesce(arg) partitions,
          5 unpersist() of that dataset (no job; value None), 6 take(arg) (runs in the driver on every backend and
          materialises only the leading partitions)
result = ([(events, value) per job], cache_obj as [((stage position, partition), data)], stamped idents)
"""
import atexit
import glob
import itertools
import json
import math
import operator
import os
import pickle
import random
import shutil
import threading

from common.coqlit import Err, uncanon
import pysparkling
import pysparkling.rdd as rdd_module
from pysparkling.cache_manager import TimedCacheManager
from pysparkling.rdd import unit_map
from sched_pool import DEFAULT_QUALNAMES, SchedPool

try:
    import cloudpickle
except ImportError:  # pragma: no cover
    cloudpickle = None
try:
    import dill
except ImportError:  # pragma: no cover
    dill = None

ID = 'C03'
KERNELS = ['Gen/Layout.v: coalesce_plan']
SHARD = 150

RULE = ('cases (backend, cache manager kind, source partitions, lineage of map/filter/flatMap, persist() and seeded '
        'sample() stages, 1-3 successive jobs each with an action, a depth in the lineage and a schedule): every schedule '
        'up to a length bound (7/11 grants for 2 tasks, 4/7 for 3 tasks, quick/thorough) on the basic persisted lineages (first job and later job), all complete '
        'interleavings of 2 tasks, random long schedules for 2-4 tasks on random lineages, each on the traced-thread pool '
        'with shared objects and with pickled copies; the same lineages on DummyPool, ThreadPoolExecutor, '
        'multiprocessing.Pool and ProcessPoolExecutor with cloudpickle and dill. Compared with the model per case: the '
        'sequence of (task, source line) events of every job, every job value, the final cache_obj (keys in dict order -> '
        'data) and the idents stamped by a TimedCacheManager. non-trivial = at least two partitions, a persist or sample '
        'stage, and (on the traced pool) a task that is pre-empted by another one before it finishes; distinct by '
        'canonical JSON of the case')
ASSUMPTIONS = [
    'interleaving granularity is the traced source line of PersistedRDD.compute / PartitionwiseSampledRDD.compute; '
    'pre-emption inside a line, inside generator bodies or C-level calls is not modelled',
    'process pools are modelled as copy-in / result-out; pickling fidelity of arbitrary closures and start methods '
    '(fork is used) are not modelled; data (de)serializers are left at their defaults',
    'the Mersenne twister is an oracle: the model receives the random() stream of random.Random(seed + index)',
    'sample(True, lam) is modelled through the pure-Python pysparkling_poisson (numpy absent); math.exp(-lam) is handed to the model',
    'user functions are pure and element-wise (function library of 7 map/filter/flatMap functions)',
]
TRUSTED = ['py/sched_pool.py (sys.settrace gating of task threads)', 'Gen/Layout.v coalesce_plan kernel (translator)']

# ---------------------------------------------------------------------------------------------------
# statement text of the traced lines -> label of the model (Model/Sched.v); looked up by TEXT at run time
LABELS = {
    ('PersistedRDD.compute', 'if self._rdd_id is None or split.index is None:'): 1,
    ('PersistedRDD.compute', 'cid = (self._rdd_id, split.index)'): 2,
    ('PersistedRDD.compute', 'if not task_context.cache_manager.has(cid):'): 3,
    ('PersistedRDD.compute', 'data = list(self.prev.compute(split, task_context._create_child()))'): 4,
    ('PersistedRDD.compute', 'task_context.cache_manager.add(cid, data, self.storageLevel)'): 5,
    ('PersistedRDD.compute', 'self._cache_manager = task_context.cache_manager'): 6,
    ('PersistedRDD.compute', "log.debug('Using cache of RDD %s partition %s.', *cid)"): 7,
    ('PersistedRDD.compute', 'data = task_context.cache_manager.get(cid)'): 8,
    ('PersistedRDD.compute', 'return iter(data)'): 9,
    ('PartitionwiseSampledRDD.compute', 'rng = random.Random(self.seed + split.index)'): 11,
    ('PartitionwiseSampledRDD.compute', 'numpy_rng = None'): 12,
    ('PartitionwiseSampledRDD.compute', 'if numpy is not None:'): 13,
    ('PartitionwiseSampledRDD.compute', 'return ('): 14,
    ('PartitionwiseSampledRDD.compute', 'for x in self.prev.compute(split, task_context._create_child())'): 15,
}

FNS = {
    0: ('map', lambda x: x + 1),
    1: ('map', lambda x: x * 2),
    2: ('filter', lambda x: x % 2 == 0),
    3: ('flatMap', lambda x: [x, x + 10]),
    4: ('map', lambda x: -x),
    5: ('filter', lambda x: x > 2),
    6: ('flatMap', lambda x: [x] * (x % 3)),
}
EXPANDING = (3, 6)
BACKEND_NAMES = {0: 'sched', 1: 'sched+pickle', 2: 'dummy', 3: 'threadpool', 4: 'mp+cloudpickle', 5: 'mp+dill',
                 6: 'ppe+cloudpickle', 7: 'ppe+dill', 8: 'lazy-map',
                 # program cases only (not part of the model protocol): a thread pool with a real serializer pair
                 9: 'threadpool+cloudpickle', 10: 'threadpool+dill'}
ACTION_NAMES = {0: 'runJob', 1: 'collect', 2: 'count', 3: 'sum', 4: 'coalesce', 5: 'unpersist', 6: 'take'}

_POOLS = {}


class LazyMapPool:
    """The smallest 'object exposing map(func, iterable)': nothing runs before the driver asks for a result."""
    map = staticmethod(map)


def _real_pool(backend):
    """Process/thread pools are expensive to start: one per kind, reused by all cases of the run."""
    if backend == 8:
        return LazyMapPool()
    kind = {3: 'tpe', 4: 'mp', 5: 'mp', 6: 'ppe', 7: 'ppe', 9: 'tpe', 10: 'tpe'}[backend]
    if kind not in _POOLS:
        if kind == 'tpe':
            from concurrent.futures import ThreadPoolExecutor
            _POOLS[kind] = ThreadPoolExecutor(4)
        elif kind == 'mp':
            import multiprocessing
            _POOLS[kind] = multiprocessing.get_context('fork').Pool(3)
        else:
            import multiprocessing
            from concurrent.futures import ProcessPoolExecutor
            _POOLS[kind] = ProcessPoolExecutor(3, mp_context=multiprocessing.get_context('fork'))
    return _POOLS[kind]


@atexit.register
def _close_pools():
    for kind, p in list(_POOLS.items()):
        try:
            if kind == 'mp':
                p.terminate()
            else:
                p.shutdown(wait=False, cancel_futures=True)
        except Exception:  # pylint: disable=broad-except
            pass
    _POOLS.clear()


def available_backends():
    b = [0, 2, 3, 8]
    if cloudpickle is not None:
        b += [1, 4, 6]
    if dill is not None:
        b += [5, 7]
    return sorted(b)


def make_context(backend, timed, schedules=(), max_retries=None, trace_map=False):
    kw = {}
    if max_retries is not None:
        kw['max_retries'] = max_retries
    pool = None
    if timed:
        kw['cache_manager'] = TimedCacheManager(timeout=3600.0)
    if backend in (0, 1):
        # trace_map: also gate every element that a map() hands on (the generator of MapF.__call__), so that the tasks
        # interleave INSIDE the code that consumes their iterator (e.g. while a part file is being written)
        names = DEFAULT_QUALNAMES + (('MapF.__call__.<locals>.<genexpr>',) if trace_map else ())
        pool = SchedPool(schedules=[list(s) for s in schedules], qualnames=names)
        kw['pool'] = pool
    elif backend != 2:
        kw['pool'] = _real_pool(backend)
    if backend in (1, 4, 6, 9):
        kw.update(serializer=cloudpickle.dumps, deserializer=pickle.loads)
    elif backend in (5, 7, 10):
        kw.update(serializer=dill.dumps, deserializer=dill.loads)
    return pysparkling.Context(**kw), pool


def build_lineage(sc, parts, stages, keep_persist=True):
    """Returns the datasets after 0, 1, ... len(stages) stages and {real dataset id: stage position}."""
    r = sc._parallelize_partitions([list(p) for p in parts])  # pylint: disable=protected-access
    chain, ids = [r], {}
    for pos, st in enumerate(stages, 1):
        if st[0] == 0:
            how, f = FNS[st[1]]
            r = getattr(r, how)(f)
        elif st[0] == 1:
            if keep_persist:
                r = r.persist()
                ids[r.id()] = pos
        elif st[0] == 2:
            r = r.sample(bool(st[2]), st[3], seed=st[1])
        else:
            raise ValueError('stage')
        chain.append(r)
    return chain, ids


def run_action(r, action, arg):
    if action == 0:
        return [list(p) for p in r.context.runJob(r, unit_map, resultHandler=list)]
    if action == 1:
        return list(r.collect())
    if action == 2:
        return r.count()
    if action == 3:
        return r.sum()
    if action == 4:
        return [list(p.x()) for p in r.coalesce(arg).partitions()]
    if action == 5:
        r.unpersist()
        return None
    if action == 6:
        return list(r.take(arg))
    raise ValueError('action')


def observe(backend, timed, parts, stages, jobs):
    sc, pool = make_context(backend, timed, [j[3] for j in jobs if j[1] not in (5, 6)])   # unpersist() and take() run no pool job
    chain, ids = build_lineage(sc, parts, stages)
    outs, ran = [], 0
    for depth, action, arg, _ in jobs:
        value = run_action(chain[depth], action, arg)
        events = []
        if pool is not None and action not in (5, 6):
            ran += 1
            if len(pool.jobs) != ran:
                return Err('UnexpectedNumberOfPoolJobs')
            events = [(tid, LABELS.get(at, -1)) for tid, at in pool.jobs[-1]]
        outs.append((events, value))
    cm = sc._cache_manager  # pylint: disable=protected-access
    cache = [((ids.get(k[0], -1), k[1]), list(v['mem_obj'])) for k, v in cm.cache_obj.items()]
    stamped = [(ids.get(k[0], -1), k[1]) for k, _ in cm._time_added] if timed else []  # pylint: disable=protected-access
    return (outs, cache, stamped)


def _is_program_case(case):
    """('free' | 'history', backend, timed, spec, schedules): a replayable cross-backend program (judged by the oracle
    alone; the model does not decode it and answers BadCase, which is also what impl returns)."""
    return isinstance(case, (tuple, list)) and len(case) == 5 and case[0] in ('free', 'history', 'partial', 'closure', 'mutzero', 'save')


def impl(case):
    if _is_program_case(case):
        return Err('BadCase')
    backend, timed, parts, stages, _draws, jobs = case
    try:
        return observe(backend, timed, parts, stages, jobs)
    except Exception as e:  # pylint: disable=broad-except
        return Err(type(e).__name__)


# ---------------------------------------------------------------------------------------------------
# oracle: the property's statement on the implementation alone
_REF = {}


def reference(parts, stages, jobs):
    """What the default in-process executor returns for the same program (a fresh Context, DummyPool), and the
    per-partition contents of every persisted dataset computed without persist()."""
    key = repr((parts, stages, [(j[0], j[1], j[2]) for j in jobs]))
    if key not in _REF:
        if len(_REF) > 5000:
            _REF.clear()
        sc = pysparkling.Context()
        chain, _ = build_lineage(sc, parts, stages)
        values = [run_action(chain[d], a, arg) for d, a, arg, _ in jobs]
        plain, _ = build_lineage(pysparkling.Context(), parts, stages, keep_persist=False)
        contents = {}
        for pos, st in enumerate(stages, 1):
            if st[0] == 1:
                contents[pos] = run_action(plain[pos], 0, 0)
        _REF[key] = (values, contents)
    return _REF[key]


def oracle(case, result):
    if _is_program_case(case):
        return _judge_program(case)
    backend, timed, parts, stages, _draws, jobs = case
    bname = BACKEND_NAMES.get(backend, str(backend))
    if isinstance(result, Err):
        return (f'{bname}:job-raised:{result.name}', f'the program raised {result.name}')
    outs, cache, stamped = result
    values, contents = reference(parts, stages, jobs)
    for n, ((_, value), want, job) in enumerate(zip(outs, values, jobs)):
        if value != want or type(value) is not type(want):
            which = 'first-job' if n == 0 else 'later-job'
            return (f'{bname}:{ACTION_NAMES[job[1]]}:{which}-differs-from-default-executor',
                    f'job #{n} ({ACTION_NAMES[job[1]]} at depth {job[0]}) returned {value!r}; the default executor returns {want!r}')
    seen = set()
    for (pos, idx), data in cache:
        if (pos, idx) in seen:
            return (f'{bname}:cache:duplicate-ident', f'{(pos, idx)} twice')
        seen.add((pos, idx))
        own = contents.get(pos)
        if own is None or not 0 <= idx < len(own):
            return (f'{bname}:cache:entry-of-unknown-dataset-or-partition', f'entry {(pos, idx)}')
        if data != own[idx]:
            return (f'{bname}:cache:entry-holds-other-data',
                    f'entry (dataset at stage {pos}, partition {idx}) holds {data!r}; that partition\'s data is {own[idx]!r}')
    if timed:
        missing = [k for k in seen if k not in set(stamped)]
        if missing:
            return (f'{bname}:timed-cache:entry-without-time-stamp', f'entries {missing} can never expire')
    return None


def preempted(events):
    """Some task is granted a line, then another task runs, then the first one continues."""
    last_seen, closed = {}, set()
    prev = None
    for tid, _ in events:
        if prev is not None and prev != tid:
            closed.add(prev)
        if tid in closed:
            return True
        last_seen[tid] = True
        prev = tid
    return False


def nontrivial(case, result):
    if _is_program_case(case):
        return False
    backend, _timed, parts, stages, _draws, _jobs = case
    if isinstance(result, Err) or len(parts) < 2 or not any(s[0] in (1, 2) for s in stages):
        return False
    if backend in (0, 1):
        return any(preempted(ev) for ev, _ in result[0])
    return backend != 2


def kind(case):
    if _is_program_case(case):
        return f'{case[0]}:{BACKEND_NAMES.get(case[1], case[1])}'
    backend, timed, parts, stages, _draws, jobs = case
    shape = ''.join('R' if s[0] == 2 and s[2] else 'MPS'[s[0]] for s in stages)
    return f'{BACKEND_NAMES.get(backend, backend)}{"+timed" if timed else ""}:{len(parts)}p:{shape}:{len(jobs)}j'


# ---------------------------------------------------------------------------------------------------
# generation
class _RecRandom(random.Random):
    """random.Random that records, per seed, the longest prefix of random() values handed out."""
    streams = None

    def __init__(self, seed=None):
        super().__init__(seed)
        self._c03_seed = seed
        self._c03_n = 0

    def random(self):
        v = super().random()
        if _RecRandom.streams is not None:
            lst = _RecRandom.streams.setdefault(self._c03_seed, [])
            if self._c03_n == len(lst):
                lst.append(v)
        self._c03_n += 1
        return v


class _RandomShim:
    Random = _RecRandom

    def __getattr__(self, name):
        return getattr(random, name)


_DRAWS = {}


def draws_for(parts, stages):
    """The random() streams the model needs: the plain lineage (no persist) is evaluated once on the default
    executor with a recording random.Random; every sample stage then draws for its whole input."""
    if not any(st[0] == 2 for st in stages):
        return []
    key = repr((parts, stages))
    if key not in _DRAWS:
        if len(_DRAWS) > 5000:
            _DRAWS.clear()
        _RecRandom.streams = {}
        saved = rdd_module.random
        rdd_module.random = _RandomShim()
        try:
            chain, _ = build_lineage(pysparkling.Context(), parts, stages, keep_persist=False)
            chain[-1].collect()
            _DRAWS[key] = sorted((s, list(v)) for s, v in _RecRandom.streams.items())
        finally:
            rdd_module.random = saved
            _RecRandom.streams = None
    return _DRAWS[key]


def mk(backend, timed, parts, stages, jobs):
    parts = [list(p) for p in parts]
    stages = [tuple(s) for s in stages]
    return (backend, timed, parts, stages, draws_for(parts, stages), [(d, a, arg, list(s)) for d, a, arg, s in jobs])


def all_schedules(ntasks, maxlen):
    for n in range(maxlen + 1):
        yield from itertools.product(range(ntasks), repeat=n)


def interleavings(counts):
    """All complete interleavings of tasks with the given numbers of steps."""
    counts = list(counts)
    total = sum(counts)

    def rec(prefix, left):
        if len(prefix) == total:
            yield tuple(prefix)
            return
        for t, c in enumerate(left):
            if c:
                left[t] -= 1
                prefix.append(t)
                yield from rec(prefix, left)
                prefix.pop()
                left[t] += 1
    yield from rec([], counts)


FRACTIONS = [0.0, 0.25, 0.5, 0.5, 0.75, 1.0, 0.1, 0.9]
LAMBDAS = [0.0, 0.5, 1.0, 1.0, 2.5]


def random_stages(rng):
    n = rng.randint(1, 5)
    stages = []
    for _ in range(n):
        k = rng.random()
        if k < 0.4:
            stages.append((1,))
        elif k < 0.55:
            stages.append((2, rng.randint(0, 50), 0, rng.choice(FRACTIONS) if rng.random() < 0.7 else rng.random()))
        elif k < 0.65:
            lam = rng.choice(LAMBDAS)
            stages.append((2, rng.randint(0, 50), 1, lam, math.exp(-lam)))
        else:
            stages.append((0, rng.randrange(len(FNS))))
    if not any(s[0] in (1, 2) for s in stages):
        stages.insert(rng.randint(0, len(stages)), (1,))
    return stages


def random_parts(rng, lo=2, hi=4):
    return [[rng.randint(-3, 9) for _ in range(rng.randint(0, 4))] for _ in range(rng.randint(lo, hi))]


def random_jobs(rng, nparts, nstages, sched_len, persist_depths=()):
    jobs = []
    for _ in range(rng.randint(1, 4 if persist_depths else 3)):
        depth = nstages if rng.random() < 0.6 else rng.randint(0, nstages)
        action = rng.choice([0, 0, 1, 1, 2, 3, 4])
        if persist_depths and rng.random() < 0.2:          # unpersist() of one of the persisted datasets
            depth, action = rng.choice(persist_depths), 5
        elif persist_depths and rng.random() < 0.2:        # a partial action: only the leading partitions get cached
            action = 6
        arg = rng.randint(1, nparts + 1) if action == 4 else rng.randint(0, 3) if action == 6 else 0
        ids = list(range(nparts)) + ([nparts, -1] if rng.random() < 0.1 else [])
        style = rng.random()
        if style < 0.6:
            sched = [rng.choice(ids) for _ in range(rng.randint(0, sched_len))]
        elif style < 0.8:   # bursts
            sched = []
            while len(sched) < sched_len:
                sched += [rng.choice(ids)] * rng.randint(1, 6)
        else:               # round robin from a random offset
            o = rng.randrange(nparts)
            sched = [(o + k) % nparts for k in range(rng.randint(0, sched_len))]
        jobs.append((depth, action, arg, sched))
    return jobs


BASIC = [
    ([(1,)], [[0, 1], [2, 3]]),
    ([(0, 0), (1,)], [[0, 1], [2, 3]]),
]


def generate(rng, tier):
    quick = tier == 'quick'
    cases = []
    have = available_backends()
    sched_backends = [b for b in (0, 1) if b in have]
    # -- corpus: the minimal inputs on which the repaired defects (and the mutation self-test) showed -------
    root = os.environ.get('VERIF_ROOT', '/verif')
    for path in sorted(glob.glob(os.path.join(root, 'corpus', 'C03', '*.json'))):
        c = uncanon(json.load(open(path))['case'])
        if c[0] in have:
            cases.append(mk(c[0], c[1], c[2], c[3], c[5]))   # draws are regenerated
    # -- the canonical two-job program of the property text, under every schedule prefix --------------
    two, three = [[0, 1], [2, 3]], [[0], [1, 2], [3]]
    l2, l3 = (7, 4) if quick else (11, 7)
    for s in all_schedules(2, l2):
        # job 1 under s; job 2 (all hits) under the mirrored schedule
        cases.append(mk(0, 0, two, [(1,)], [(1, 1, 0, s), (1, 1, 0, [1 - t for t in s])]))
    for s in all_schedules(3, l3):
        cases.append(mk(0, 0, three, [(0, 0), (1,)], [(2, 0, 0, s), (2, 1, 0, s[::-1])]))
    if not quick:
        # all complete interleavings of two tasks of the miss path (7 lines each) and of the hit path (6 lines each)
        for s in interleavings([7, 7]):
            cases.append(mk(0, 0, two, [(1,)], [(1, 1, 0, s), (1, 1, 0, [])]))
        for s in interleavings([6, 6]):
            cases.append(mk(0, 0, two, [(1,)], [(1, 1, 0, []), (1, 1, 0, s)]))
        for s in interleavings([6, 6]):   # sample: 6 traced lines per task
            cases.append(mk(0, 0, two, [(2, 5, 0, 0.5)], [(1, 1, 0, s)]))
        for s in interleavings([6, 6]):
            cases.append(mk(0, 0, two, [(2, 9, 1, 1.5, math.exp(-1.5))], [(1, 1, 0, s)]))
    else:
        srng = random.Random(rng.random())
        pool7 = list(interleavings([7, 7]))
        for s in srng.sample(pool7, 100):
            cases.append(mk(0, 0, two, [(1,)], [(1, 1, 0, s), (1, 1, 0, s[::-1])]))
        for s in srng.sample(list(interleavings([6, 6])), 40):
            cases.append(mk(0, 0, two, [(2, 5, 0, 0.5)], [(1, 1, 0, s)]))
            cases.append(mk(0, 0, two, [(2, 9, 1, 1.5, math.exp(-1.5))], [(1, 1, 0, s)]))
    # persist -> action -> unpersist() -> action again (and an unpersist of the inner dataset only)
    for s in all_schedules(2, 4 if quick else 7):
        cases.append(mk(0, 0, two, [(1,), (0, 0), (1,)], [(3, 1, 0, s), (3, 5, 0, []), (3, 1, 0, s[::-1]), (1, 5, 0, []), (3, 2, 0, s)]))
    # a dataset that is only partly materialised (take) before the pool job, then the same action again
    for s in all_schedules(3, 3 if quick else 6):
        cases.append(mk(0, 0, three, [(1,), (0, 0), (1,)], [(3, 6, 1, []), (3, 1, 0, s), (3, 1, 0, s[::-1]), (2, 6, 3, []), (1, 0, 0, s)]))
        cases.append(mk(0, 0, three, [(0, 0), (1,), (0, 1)], [(3, 6, 2, []), (3, 1, 0, s), (2, 0, 0, s)]))
    # pickled copies: the same canonical program, shorter bound
    if 1 in have:
        for s in all_schedules(2, 4 if quick else 8):
            cases.append(mk(1, 0, two, [(1,)], [(1, 1, 0, s), (1, 1, 0, s[::-1])]))
    # -- random lineages, random long schedules ---------------------------------------------------------
    for _ in range(300 if quick else 5000):
        parts = random_parts(rng)
        stages = random_stages(rng)
        jobs = random_jobs(rng, len(parts), len(stages), 60, [i + 1 for i, st in enumerate(stages) if st[0] == 1])
        cases.append(mk(rng.choice(sched_backends), int(rng.random() < 0.25), parts, stages, jobs))
    # -- edge shapes --------------------------------------------------------------------------------------
    for b in sched_backends + [2]:
        cases.append(mk(b, 0, [[1, 2, 3]], [(1,)], [(1, 1, 0, [0, 0]), (1, 2, 0, [])]))
        cases.append(mk(b, 1, [[], []], [(1,), (1,)], [(2, 0, 0, [1, 0, 1]), (1, 3, 0, [])]))
        cases.append(mk(b, 0, [[5, 6], [7], [8, 9, 1]], [(0, 3), (1,), (2, 7, 0, 0.5), (1,), (0, 1)],
                        [(2, 1, 0, [2, 2, 2, 1]), (5, 0, 0, [0, 1, 2] * 9), (5, 4, 2, [2, 1, 0] * 3)]))
    # -- the same kind of program on the default executor and on the real pools ---------------------------
    for b in [x for x in have if x >= 2]:
        n = (40 if quick else 400) if b == 2 else (12 if quick else 150)
        for _ in range(n):
            parts = random_parts(rng)
            stages = random_stages(rng)
            jobs = [(d, a, arg, []) for d, a, arg, _ in
                    random_jobs(rng, len(parts), len(stages), 0, [i + 1 for i, st in enumerate(stages) if st[0] == 1])]
            cases.append(mk(b, int(rng.random() < 0.25), parts, stages, jobs))
    return cases


def shrink_candidates(case):
    if _is_program_case(case):
        if case[0] == 'mutzero':
            data, slices, ops = case[3]
            for i in range(len(ops)):
                yield (case[0], case[1], case[2], (data, slices, ops[:i] + ops[i + 1:]), case[4])
            if len(data) > 2:
                yield (case[0], case[1], case[2], (data[:-1], slices, ops), case[4])
        if case[0] == 'closure':
            data, slices, how, steps = case[3]
            for i in range(len(steps)):
                yield (case[0], case[1], case[2], (data, slices, how, steps[:i] + steps[i + 1:]), case[4])
            if len(data) > 1:
                yield (case[0], case[1], case[2], (data[:-1], slices, how, steps), case[4])
        if case[0] == 'partial':
            data, slices, steps = case[3]
            for i in range(len(steps)):
                yield (case[0], case[1], case[2], (data, slices, steps[:i] + steps[i + 1:]), case[4])
            if len(data) > 1:
                yield (case[0], case[1], case[2], (data[:-1], slices, steps), case[4])
        if case[0] == 'history':
            data, slices, steps = case[3]
            for i in range(len(steps)):
                yield (case[0], case[1], case[2], (data, slices, steps[:i] + steps[i + 1:]), case[4])
            if len(data) > 1:
                yield (case[0], case[1], case[2], (data[:-1], slices, steps), case[4])
        return
    backend, timed, parts, stages, _draws, jobs = case
    if len(jobs) > 1:
        for i in range(len(jobs)):
            yield mk(backend, timed, parts, stages, jobs[:i] + jobs[i + 1:])
    for i, st in enumerate(stages):
        rest = stages[:i] + stages[i + 1:]
        js = [(d - 1 if d > i else d, a, arg, s) for d, a, arg, s in jobs]
        yield mk(backend, timed, parts, rest, js)
    for ji, (d, a, arg, s) in enumerate(jobs):
        for cut in (s[:len(s) // 2], s[:-1], s[1:]):
            if len(cut) < len(s):
                yield mk(backend, timed, parts, stages, jobs[:ji] + [(d, a, arg, cut)] + jobs[ji + 1:])
    if len(parts) > 2:
        yield mk(backend, timed, parts[:-1], stages,
                 [(d, a, min(arg, len(parts) - 1) if a == 4 else arg, [t for t in s if t < len(parts) - 1]) for d, a, arg, s in jobs])
    for pi, p in enumerate(parts):
        if len(p) > 1:
            yield mk(backend, timed, parts[:pi] + [p[:-1]] + parts[pi + 1:], stages, jobs)
    if timed:
        yield mk(backend, 0, parts, stages, jobs)


# ---------------------------------------------------------------------------------------------------
# backends compared with each other on programs outside the modelled fragment (no model involved):
# sampling with replacement (Poisson), closures capturing values, string data, coalesce, a TimedCacheManager
def _free_program(spec):
    """spec -> function(sc) returning the observed values of the program on context sc."""
    data, slices, ops, seed = spec

    def program(sc, scratch):
        r = sc.parallelize(list(data), slices)
        persisted = []
        for op in ops:
            if op[0] == 'add':
                k = op[1]
                r = r.map(lambda x, k=k: x + k if isinstance(x, int) else x + str(k))
            elif op[0] == 'keep':
                m = op[1]
                r = r.filter(lambda x, m=m: hash(str(x)) % m != 0 if not isinstance(x, int) else x % m != 0)
            elif op[0] == 'dup':
                r = r.flatMap(lambda x: [x, x])
            elif op[0] == 'persist':
                r = r.persist()
                persisted.append(r)
            elif op[0] == 'bern':
                r = r.sample(False, op[1], seed=seed + op[2])
            elif op[0] == 'poisson':
                r = r.sample(True, op[1], seed=seed + op[2])
        def attempt(f):
            try:
                return f()
            except Exception as e:  # pylint: disable=broad-except
                return ('raised', type(e).__name__)

        zero = '' if any(isinstance(x, str) for x in data) else 0
        out = [attempt(f) for f in (
            r.collect, r.count, r.collect,
            lambda: [list(p.x()) for p in r.coalesce(max(1, slices - 1)).partitions()],
            lambda: r.map(lambda x: (x, 1)).sampleByKey(False, {k: 0.5 for k in set(data)}, seed=seed).collect(),
            lambda: r.reduce(operator.add),
            lambda: r.fold(zero, operator.add),
            lambda: r.aggregate((zero, 0), lambda a, x: (a[0] + x, a[1] + 1), lambda a, b: (a[0] + b[0], a[1] + b[1])),
            lambda: r.take(3),
            r.first,
            lambda: r.zipWithUniqueId().collect(),
            lambda: r.zipWithIndex().collect(),
            lambda: r.map(lambda x: (x, 1)).reduceByKey(operator.add).collect(),
            lambda: r.sample(True, 1.5, seed=seed + 1).persist().collect(),
            lambda: r.distinct().count(),
            lambda: sorted(r.distinct().collect(), key=repr),
            lambda: sorted(r.map(lambda x: (x, 1)).aggregateByKey((0, 0), lambda a, v: (a[0] + 1, a[1] + v),
                                                                  lambda a, b: (a[0] + b[0], a[1] + b[1])).collect(), key=repr),
            lambda: sorted(r.map(lambda x: (x, x)).foldByKey(zero, operator.add).collect(), key=repr),
            lambda: sorted(((k, sorted(v, key=repr)) for k, v in r.map(lambda x: (len(str(x)), x)).groupByKey().collect()), key=repr),
            lambda: list(r.toLocalIterator()),
            lambda: list(r.map(lambda x: (x, sc.parallelize([x]).count())).toLocalIterator()),   # a job from inside a task
            lambda: _save_and_read(r, scratch),
            r.collect,
        )]
        ids = {p.id(): n for n, p in enumerate(persisted)}
        cm = sc._cache_manager  # pylint: disable=protected-access
        out.append([((ids.get(k[0], -1), k[1]), list(v['mem_obj'])) for k, v in cm.cache_obj.items()])
        if isinstance(cm, TimedCacheManager):
            stamped = {k for k, _ in cm._time_added}  # pylint: disable=protected-access
            out.append(sorted(k for k in cm.cache_obj if k not in stamped))
        return out
    return program


_SAVE_SEQ = itertools.count()


def _save_and_read(r, scratch):
    """saveAsTextFile of a multi-partition dataset into a fresh directory; returns the files written and their lines."""
    path = os.path.join(scratch, f'save_{os.getpid()}_{next(_SAVE_SEQ)}')
    try:
        r.map(str).saveAsTextFile(path)
        if os.path.isfile(path):          # a single partition is written as one file
            with open(path, 'rb') as f:
                return [('<single file>', f.read().decode('utf8'))]
        out = []
        for name in sorted(os.listdir(path)):
            with open(os.path.join(path, name), 'rb') as f:
                out.append((name, f.read().decode('utf8')))
        return out
    finally:
        if os.path.isfile(path):
            os.remove(path)
        shutil.rmtree(path, ignore_errors=True)


def _free_spec(rng):
    if rng.random() < 0.3:
        data = [rng.choice('abcdefg') * rng.randint(1, 3) for _ in range(rng.randint(0, 12))]
    else:
        data = [rng.randint(-5, 30) for _ in range(rng.choice([0, 1, 1, 2, 3, 5, 8, 14]))]
    ops = []
    for _ in range(rng.randint(1, 6)):
        k = rng.random()
        if k < 0.3:
            ops.append(('persist',))
        elif k < 0.45:
            ops.append(('bern', rng.choice([0.2, 0.5, 0.8]), rng.randint(0, 9)))
        elif k < 0.6:
            ops.append(('poisson', rng.choice([0.5, 1.0, 2.5]), rng.randint(0, 9)))
        elif k < 0.75:
            ops.append(('add', rng.randint(1, 5)))
        elif k < 0.9:
            ops.append(('keep', rng.randint(2, 4)))
        else:
            ops.append(('dup',))
    slices = rng.randint(1, 4) if rng.random() < 0.7 else len(data) + rng.randint(1, 3)   # also: empty partitions
    return (data, min(slices, 8), ops, rng.randint(0, 1000))


_EXTRA = {'programs': 0, 'backend_runs': 0}
NESTED = 20   # position of the nested-job action in the output of a free program


def extra_checks(rng, tier, workdir):  # pylint: disable=unused-argument
    n = 12 if tier == 'quick' else 150
    have = [b for b in available_backends() if b != 2]
    yield from _free_checks(rng, n, have, None)
    yield from _history_checks(rng, n, have, None)
    yield from _partial_checks(rng, 2 * n, have)
    more = have + [b for b, m in ((9, cloudpickle), (10, dill)) if m is not None]
    yield from _closure_checks(rng, 2 * n, more)
    yield from _mutzero_checks(rng, n, more)      # (pysparkling has no combineByKey)
    yield from _save_checks(rng, n, more)


FREE_NAMES = ['collect', 'count', 'second-collect', 'coalesce', 'sampleByKey', 'reduce', 'fold', 'aggregate', 'take',
              'first', 'zipWithUniqueId', 'zipWithIndex', 'reduceByKey', 'poisson-sample-persist', 'distinct-count',
              'distinct', 'aggregateByKey', 'foldByKey', 'groupByKey', 'toLocalIterator', 'nested-job-in-toLocalIterator',
              'saveAsTextFile', 'last-collect', 'cache', 'unstamped']


def _scratch():
    d = os.path.join(os.environ.get('VERIF_ROOT', '/verif'), '.work', f'C03_free_{os.getpid()}')
    os.makedirs(d, exist_ok=True)
    return d


def _judge_program(case):
    """The cross-backend statement for one replayable program: (sig, message) or None."""
    which, backend, timed, spec, sched = case
    scratch = _scratch()
    try:
        if which == 'free':
            return _judge_free(backend, timed, spec, sched, scratch)
        if which == 'partial':
            return _judge_partial(backend, spec, sched)
        if which == 'closure':
            return _judge_closure(backend, spec, sched)
        if which == 'mutzero':
            return _judge_mutzero(backend, spec, sched)
        if which == 'save':
            return _judge_save(backend, spec, sched, scratch)
        return _judge_history(backend, timed, spec, sched, scratch)
    finally:
        shutil.rmtree(scratch, ignore_errors=True)


_WANT = {}


def _default_executor(key, run):
    """What the default executor returns for a program (computed once per program)."""
    key = repr(key)
    if key not in _WANT:
        if len(_WANT) > 2000:
            _WANT.clear()
        try:
            _WANT[key] = (run(), None)
        except Exception as e:  # pylint: disable=broad-except
            _WANT[key] = (None, type(e).__name__)
    return _WANT[key]


def _judge_free(backend, timed, spec, sched, scratch):
    program = _free_program(spec)
    want, err = _default_executor(('free', spec, timed), lambda: program(make_context(2, timed, max_retries=1)[0], scratch))
    if err:
        return ('dummy:free-program-raised', err)
    # toLocalIterator runs its tasks while the job holds the context lock (repair e07529e; the lock itself is C04's
    # clause): a task that starts a job is refused on every backend, it is not run later, outside the lock
    if want[0] and want[NESTED] != ('raised', 'ContextIsLockedException'):
        return ('dummy:free-program:job-started-inside-a-toLocalIterator-task-was-accepted',
                f'{want[NESTED]!r} instead of ContextIsLockedException')
    if backend == 2:
        return None
    bname = BACKEND_NAMES[backend]
    try:
        got = program(make_context(backend, timed, sched, max_retries=1)[0], scratch)
    except Exception as e:  # pylint: disable=broad-except
        return (f'{bname}:free-program-raised:{type(e).__name__}', 'program raised on this backend only')
    if got != want:
        i = next(i for i, (g, w) in enumerate(zip(got, want)) if g != w)
        return (f'{bname}:free-program:{FREE_NAMES[i]}-differs-from-default-executor',
                f'{FREE_NAMES[i]}: {got[i]!r} instead of {want[i]!r}')
    return None


def _free_checks(rng, n, have, scratch):  # pylint: disable=unused-argument
    for _ in range(n):
        spec = _free_spec(rng)
        timed = int(rng.random() < 0.3)
        _EXTRA['programs'] += 1
        for b in have:
            sched = [[rng.randrange(spec[1]) for _ in range(rng.randint(0, 80))] for _ in range(60)] if b in (0, 1) else []
            case = ('free', b, timed, spec, sched)
            o = _judge_program(case)
            _EXTRA['backend_runs'] += 1
            if o is not None:
                yield (o[0], o[1], 'replayable: ./check C03 --replay <this file>', case)
                if o[0].startswith('dummy:'):
                    break


# ---------------------------------------------------------------------------------------------------
# multi-step HISTORIES on one context per backend: persist / cache on several datasets, actions (also partial ones:
# take, first), a change of the data source between the steps, unpersist(), actions again.  After every step the
# value and the driver's cache_obj keys are compared with the default executor.  The source is a factor stored in a
# file, so that every backend (threads, pickled copies, other processes) sees the current value.
def _read_factor(path):
    with open(path, 'r', encoding='utf8') as f:
        return int(f.read())


def _set_factor(path, v):
    with open(path, 'w', encoding='utf8') as f:
        f.write(str(v))


def _history_spec(rng):
    data = [rng.randint(0, 9) for _ in range(rng.choice([1, 2, 3, 5, 8]))]
    slices = rng.randint(2, 4) if rng.random() < 0.6 else len(data) + rng.randint(1, 2)    # also empty partitions
    steps = []
    for _ in range(rng.randint(4, 12)):
        k = rng.random()
        ds = rng.choice('ABC')
        if k < 0.35:
            steps.append((rng.choice(['collect', 'collect', 'count', 'sum']), ds))
        elif k < 0.5:
            steps.append((rng.choice(['first', 'take']), ds))
        elif k < 0.7:
            steps.append(('factor', rng.choice([2, 3, 10, 11])))
        elif k < 0.9:
            steps.append(('unpersist', ds))
        else:
            steps.append(('coalesce', ds))
    # the scenario of the property text at least once: action, source changes, unpersist, action again
    ds = rng.choice('ABC')
    steps += [('collect', ds), ('factor', 7), ('collect', ds), ('unpersist', ds), ('collect', ds), ('collect', ds)]
    return (data, slices, steps)


def _history_program(spec, factor_file):
    data, slices, steps = spec

    def scale(x):
        return x * _read_factor(factor_file)

    def keep(x):
        return (x + _read_factor(factor_file)) % 3 != 0

    def program(sc):
        _set_factor(factor_file, 1)
        a = sc.parallelize(list(data), slices).map(scale).persist()
        b = a.filter(keep).cache()                                  # cache() on a second dataset, on top of the first
        c = sc.parallelize(list(data)[::-1], slices).map(scale).cache()   # and on an unrelated one
        sets = {'A': a, 'B': b, 'C': c}
        ids = {a.id(): 'A', b.id(): 'B', c.id(): 'C'}
        out = []
        for step in steps:
            try:
                if step[0] == 'factor':
                    _set_factor(factor_file, step[1])
                    value = None
                elif step[0] == 'unpersist':
                    sets[step[1]].unpersist()
                    value = None
                elif step[0] == 'coalesce':
                    value = [list(p.x()) for p in sets[step[1]].coalesce(2).partitions()]
                elif step[0] == 'take':
                    value = sets[step[1]].take(2)
                else:
                    value = getattr(sets[step[1]], step[0])()
            except Exception as e:  # pylint: disable=broad-except
                value = ('raised', type(e).__name__)
            cm = sc._cache_manager  # pylint: disable=protected-access
            keys = sorted((ids.get(k[0], '?'), k[1]) for k in cm.cache_obj)
            out.append((step, value, keys))
        return out
    return program


def _judge_history(backend, timed, spec, sched, scratch):
    factor_file = os.path.join(scratch, f'factor_{os.getpid()}.txt')
    program = _history_program(spec, factor_file)
    want, err = _default_executor(('history', spec, timed), lambda: program(make_context(2, timed)[0]))
    if err:
        return ('dummy:history-raised', err)
    if backend == 2:
        return None
    bname = BACKEND_NAMES[backend]
    try:
        got = program(make_context(backend, timed, sched)[0])
    except Exception as e:  # pylint: disable=broad-except
        return (f'{bname}:history-raised:{type(e).__name__}', 'history raised on this backend only')
    for n_step, (g, w) in enumerate(zip(got, want)):
        if g != w:
            what = 'value' if g[1] != w[1] else 'cache-keys'
            prior = [st[0] for st in spec[2][:n_step + 1]]
            after = 'after-unpersist' if 'unpersist' in prior else 'before-any-unpersist'
            return (f'{bname}:history:{w[0][0]}:{what}-differs-from-default-executor:{after}',
                    f'step #{n_step} {w[0]!r}: value, cache keys = {g[1:]!r}; the default executor gives {w[1:]!r}')
    return None


def _history_checks(rng, n, have, scratch):  # pylint: disable=unused-argument
    for _ in range(n):
        spec = _history_spec(rng)
        timed = int(rng.random() < 0.2)
        _EXTRA['histories'] = _EXTRA.get('histories', 0) + 1
        for b in have:
            sched = ([[rng.randrange(spec[1]) for _ in range(rng.randint(0, 60))] for _ in range(len(spec[2]) + 2)]
                     if b in (0, 1) else [])
            case = ('history', b, timed, spec, sched)
            o = _judge_program(case)
            _EXTRA['history_backend_runs'] = _EXTRA.get('history_backend_runs', 0) + 1
            if o is not None:
                yield (o[0], o[1], 'replayable: ./check C03 --replay <this file>', case)
                if o[0].startswith('dummy:'):
                    break


# ---------------------------------------------------------------------------------------------------
# histories on a persisted dataset that is only PARTLY materialised before a pool job:
#   persist()/cache() on a dataset with several partitions (A: persisted map over the source, B: filter over the
#   persisted A, C: persisted child of the persisted A, D: the persisted source itself)
#   -> driver-side partial actions (first, take(n), isEmpty, top, takeOrdered, takeSample, toLocalIterator read partly)
#   -> full actions on the pool (collect, count, sum, glom, a derived map + collect, a seeded sample + collect)
#   -> the same full action again (a poisoned cache must show), optionally unpersist() in between.
# Every value and the cache keys after every step are compared with the default executor, and the values of the
# deterministic actions with their plain-list meaning.
PARTIAL_OPS = ['first', 'take0', 'take1', 'take2', 'isEmpty', 'top', 'takeOrdered', 'takeSample', 'iterPartly']
FULL_OPS = ['collect', 'count', 'sum', 'glom', 'mapCollect', 'sampleCollect']


def _partial_spec(rng):
    data = [rng.randint(0, 9) for _ in range(rng.choice([2, 3, 4, 6, 9]))]
    slices = rng.randint(2, 4) if rng.random() < 0.75 else len(data) + 1
    steps = []
    target = rng.choice('ABCD')
    for _ in range(rng.randint(1, 3)):
        steps.append((rng.choice(PARTIAL_OPS), target if rng.random() < 0.7 else rng.choice('ABCD')))
    if rng.random() < 0.15:
        steps.append(('unpersist', rng.choice('ACD')))
        steps.append((rng.choice(PARTIAL_OPS), target))
    fulls = [(rng.choice(FULL_OPS), target if rng.random() < 0.7 else rng.choice('ABCD')) for _ in range(rng.randint(1, 3))]
    steps += fulls
    if rng.random() < 0.25:
        steps.append(('unpersist', rng.choice('ACD')))
    steps += fulls                      # the same full actions again
    steps.append(('glom', target))       # and the per-partition content at the end
    return (data, slices, steps)


def _plain_meaning(data, op, ds):
    """Plain-list meaning of the deterministic actions (None: judged against the default executor only)."""
    a = [x + 1 for x in data]
    lst = {'A': a, 'B': [x for x in a if x % 3 != 0], 'C': [2 * x for x in a], 'D': list(data)}[ds]
    if op == 'first':
        return lst[0] if lst else ('raised', None)
    if op.startswith('take') and op[4:].isdigit():
        return lst[:int(op[4:])]
    if op == 'isEmpty':
        return not lst
    if op == 'top':
        return sorted(lst, reverse=True)[:1]
    if op == 'takeOrdered':
        return sorted(lst)[:1]
    if op == 'iterPartly':
        return lst[:1]
    if op == 'collect':
        return lst
    if op == 'count':
        return len(lst)
    if op == 'sum':
        return sum(lst)
    if op == 'mapCollect':
        return [x + 100 for x in lst]
    return None


def _partial_program(spec):
    data, slices, steps = spec

    def program(sc):
        a = sc.parallelize(list(data), slices).map(lambda x: x + 1).persist()
        b = a.filter(lambda x: x % 3 != 0)
        c = a.map(lambda x: 2 * x).cache()
        d = sc.parallelize(list(data), slices).cache()
        sets = {'A': a, 'B': b, 'C': c, 'D': d}
        ids = {a.id(): 'A', c.id(): 'C', d.id(): 'D'}
        out = []
        for op, ds in steps:
            r = sets[ds]
            try:
                if op == 'unpersist':
                    r.unpersist()
                    value = None
                elif op.startswith('take') and op[4:].isdigit():
                    value = r.take(int(op[4:]))
                elif op == 'top':
                    value = r.top(1)
                elif op == 'takeOrdered':
                    value = r.takeOrdered(1)
                elif op == 'takeSample':
                    value = r.takeSample(False, 2, seed=5)
                elif op == 'iterPartly':
                    value = list(itertools.islice(r.toLocalIterator(), 1))
                elif op == 'glom':
                    value = [list(p) for p in r.glom().collect()]
                elif op == 'mapCollect':
                    value = r.map(lambda x: x + 100).collect()
                elif op == 'sampleCollect':
                    value = r.sample(False, 0.6, seed=11).collect()
                else:
                    value = getattr(r, op)()
            except Exception as e:  # pylint: disable=broad-except
                value = ('raised', type(e).__name__)
            cm = sc._cache_manager  # pylint: disable=protected-access
            keys = sorted((ids.get(k[0], '?'), k[1]) for k in cm.cache_obj)
            out.append(((op, ds), value, keys))
        return out
    return program


def _judge_partial(backend, spec, sched):
    program = _partial_program(spec)
    want, err = _default_executor(('partial', spec), lambda: program(make_context(2, 0)[0]))
    if err:
        return ('dummy:partial-history-raised', err)
    got = want
    bname = BACKEND_NAMES[backend]
    if backend != 2:
        try:
            got = program(make_context(backend, 0, sched)[0])
        except Exception as e:  # pylint: disable=broad-except
            return (f'{bname}:partial-history-raised:{type(e).__name__}', 'history raised on this backend only')
    seen = set()
    for n_step, (g, w) in enumerate(zip(got, want)):
        (op, ds) = w[0]
        again = 'repeated-' if (op, ds) in seen and op in FULL_OPS else ''
        seen.add((op, ds))
        plain = _plain_meaning(spec[0], op, ds)
        if plain is not None:
            ok = (isinstance(g[1], tuple) and g[1][:1] == ('raised',)) if plain == ('raised', None) else g[1] == plain
            if not ok:
                return (f'{bname}:partly-materialised:{again}{op}:differs-from-plain-list-meaning',
                        f'step #{n_step} {op} on {ds}: {g[1]!r}; the plain-list meaning is {plain!r}')
        if g != w:
            what = 'value' if g[1] != w[1] else 'cache-keys'
            return (f'{bname}:partly-materialised:{again}{op}:{what}-differs-from-default-executor',
                    f'step #{n_step} {op} on {ds}: value, cache keys = {g[1:]!r}; the default executor gives {w[1:]!r}')
    return None


def _partial_checks(rng, n, have):
    for _ in range(n):
        spec = _partial_spec(rng)
        _EXTRA['partial_histories'] = _EXTRA.get('partial_histories', 0) + 1
        for b in [2] + have:
            sched = ([[rng.randrange(spec[1]) for _ in range(rng.randint(0, 60))] for _ in range(3 * len(spec[2]) + 4)]
                     if b in (0, 1) else [])
            case = ('partial', b, 0, spec, sched)
            o = _judge_program(case)
            _EXTRA['partial_backend_runs'] = _EXTRA.get('partial_backend_runs', 0) + 1
            if o is not None:
                yield (o[0], o[1], 'replayable: ./check C03 --replay <this file>', case)
                if o[0].startswith('dummy:'):
                    break


# ---------------------------------------------------------------------------------------------------
# state captured by the functions of a dataset and CHANGED IN PLACE between two actions on the same dataset object:
# a list a lambda closes over, a default argument, an attribute of the object a bound method belongs to, a dict a
# filter closes over, the fractions dict handed to sampleByKey (kept by reference).  A job is submitted with the
# driver's CURRENT state: action A, mutation, the same action A again (and A, mutation, B) must give, on every backend
# -- in particular with real function serializers -- what the in-process executor gives, i.e. the plain-list
# meaning under the new state, never a stale serialized copy.
CLOSURE_KINDS = ['list', 'default', 'attr', 'dictfilter', 'fractions', 'below-persist']
CLOSURE_ACTIONS = ['collect', 'count', 'sum', 'glom', 'take2']


class _Scaler:
    def __init__(self, k):
        self.k = k

    def apply(self, x):
        return x * self.k


def _closure_spec(rng):
    data = [rng.randint(0, 9) for _ in range(rng.choice([2, 3, 5, 8]))]
    slices = rng.randint(1, 4)
    how = rng.choice(CLOSURE_KINDS)
    steps = []
    for _ in range(rng.randint(1, 3)):
        a = rng.choice(CLOSURE_ACTIONS)
        steps += [('act', a), ('mutate', rng.randint(2, 9)), ('act', a)]             # A, mutate, A
        if rng.random() < 0.5:
            steps += [('mutate', rng.randint(2, 9)), ('act', rng.choice(CLOSURE_ACTIONS))]   # ..., mutate, B
    return (data, slices, how, steps)


def _closure_plain(data, how, v):
    """Plain-list content of the dataset when the captured state holds v."""
    if how == 'list':
        return [x + v + 1 for x in data]
    if how in ('default', 'attr', 'below-persist'):
        return [x * v for x in data]
    if how == 'dictfilter':
        return [x for x in data if x % v != 0]
    return [(x % 3, x) for x in data if x % 3 == v % 3]        # fractions: key v % 3 has fraction 1.0, the others 0.0


def _closure_program(spec):
    data, slices, how, steps = spec

    def program(sc):
        src = sc.parallelize(list(data), slices)
        if how == 'list':
            state = [1, 1]
            d = src.map(lambda x: x + sum(state))
            mutate = lambda v: state.__setitem__(0, v)                          # noqa: E731
        elif how == 'default':
            state = [1]
            d = src.map(lambda x, k=state: x * k[0])
            mutate = lambda v: state.__setitem__(0, v)                          # noqa: E731
        elif how == 'attr':
            obj = _Scaler(1)
            d = src.map(obj.apply)
            mutate = lambda v: setattr(obj, 'k', v)                             # noqa: E731
        elif how == 'dictfilter':
            state = {'m': 1}
            d = src.filter(lambda x: x % state['m'] != 0)
            mutate = lambda v: state.update(m=v)                                # noqa: E731
        elif how == 'fractions':
            fractions = {0: 0.0, 1: 1.0, 2: 0.0}
            d = src.map(lambda x: (x % 3, x)).sampleByKey(False, fractions, seed=3)

            def mutate(v):
                for k in (0, 1, 2):
                    fractions[k] = 1.0 if k == v % 3 else 0.0
        else:   # the captured state sits ABOVE a persisted dataset: the cache must not freeze it
            state = [1]
            d = src.persist().map(lambda x: x * state[0])
            mutate = lambda v: state.__setitem__(0, v)                          # noqa: E731
        out = []
        for step in steps:
            try:
                if step[0] == 'mutate':
                    mutate(step[1])
                    value = None
                elif step[1] == 'glom':
                    value = [list(p) for p in d.glom().collect()]
                elif step[1] == 'take2':
                    value = d.take(2)
                else:
                    value = getattr(d, step[1])()
            except Exception as e:  # pylint: disable=broad-except
                value = ('raised', type(e).__name__)
            out.append((step, value))
        return out
    return program


def _judge_closure(backend, spec, sched):
    data, _slices, how, steps = spec
    program = _closure_program(spec)
    want, err = _default_executor(('closure', spec), lambda: program(make_context(2, 0)[0]))
    if err:
        return ('dummy:closure-history-raised', err)
    got = want
    bname = BACKEND_NAMES[backend]
    if backend != 2:
        try:
            got = program(make_context(backend, 0, sched)[0])
        except Exception as e:  # pylint: disable=broad-except
            return (f'{bname}:closure-history-raised:{type(e).__name__}', 'history raised on this backend only')
    v = 1
    acted = False
    for n_step, (g, w) in enumerate(zip(got, want)):
        step = w[0]
        if step[0] == 'mutate':
            v = step[1]
            continue
        lst = _closure_plain(data, how, v)
        if how == 'fractions' and not acted:
            lst = [(x % 3, x) for x in data if x % 3 == 1]
        acted = True
        plain = {'collect': lst, 'count': len(lst), 'take2': lst[:2]}.get(step[1])
        if step[1] == 'sum' and how != 'fractions':
            plain = sum(lst)
        when = 'after-in-place-mutation' if any(st[0] == 'mutate' for st in steps[:n_step]) else 'before-any-mutation'
        if plain is not None and g[1] != plain:
            return (f'{bname}:captured-state:{how}:{step[1]}:{when}:differs-from-plain-list-meaning',
                    f'step #{n_step} {step[1]} with the captured state at {v}: {g[1]!r}; the plain-list meaning is {plain!r}')
        if g != w:
            return (f'{bname}:captured-state:{how}:{step[1]}:{when}:differs-from-default-executor',
                    f'step #{n_step} {step[1]} with the captured state at {v}: {g[1]!r}; the default executor gives {w[1]!r}')
    return None


def _closure_checks(rng, n, have):
    for _ in range(n):
        spec = _closure_spec(rng)
        _EXTRA['closure_histories'] = _EXTRA.get('closure_histories', 0) + 1
        for b in [2] + have:
            sched = ([[rng.randrange(max(1, spec[1])) for _ in range(rng.randint(0, 40))] for _ in range(len(spec[3]) + 2)]
                     if b in (0, 1) else [])
            case = ('closure', b, 0, spec, sched)
            o = _judge_program(case)
            _EXTRA['closure_backend_runs'] = _EXTRA.get('closure_backend_runs', 0) + 1
            if o is not None:
                yield (o[0], o[1], 'replayable: ./check C03 --replay <this file>', case)
                if o[0].startswith('dummy:'):
                    break


# ---------------------------------------------------------------------------------------------------
# aggregations with a MUTABLE zero value (list, set, dict, a counter object) and combine functions that work IN PLACE
# and return their first argument, with keys that occur in several partitions.  Whenever a task or the driver takes
# its copy of the zero value, every backend returns the plain-list meaning, and the caller's zero object is unchanged
# after the job (each aggregation is run twice with the SAME zero object).
class _Tally:
    """A counter object: pickled by reference to this module's class."""
    def __init__(self):
        self.seen = {}

    def add(self, v):
        self.seen[v] = self.seen.get(v, 0) + 1
        return self

    def merge(self, other):
        for k, c in other.seen.items():
            self.seen[k] = self.seen.get(k, 0) + c
        return self

    def __eq__(self, other):
        return isinstance(other, _Tally) and other.seen == self.seen

    def __repr__(self):
        return f'_Tally({sorted(self.seen.items())})'


MUTZERO_OPS = ['aggregateByKey-list', 'aggregateByKey-set', 'aggregateByKey-dict', 'aggregateByKey-object', 'foldByKey-list',
               'aggregate-list', 'aggregate-dict', 'fold-list', 'aggregate-object']


def _mutzero_spec(rng):
    data = [(rng.randint(0, 2), rng.randint(0, 5)) for _ in range(rng.choice([3, 4, 6, 9]))]
    slices = rng.randint(2, 6)
    ops = rng.sample(MUTZERO_OPS, rng.randint(2, 4))
    return (data, slices, ops)


def _counts(vs):
    c = {}
    for v in vs:
        c[v] = c.get(v, 0) + 1
    return c


def _mutzero_plain(data, op):
    keys = sorted({k for k, _ in data})
    per = {k: [v for kk, v in data if kk == k] for k in keys}
    vals = [v for _, v in data]
    if op in ('aggregateByKey-list', 'foldByKey-list'):
        return [(k, per[k]) for k in keys]
    if op == 'aggregateByKey-set':
        return [(k, sorted(set(per[k]))) for k in keys]
    if op == 'aggregateByKey-dict':
        return [(k, sorted(_counts(per[k]).items())) for k in keys]
    if op == 'aggregateByKey-object':
        return [(k, sorted(_counts(per[k]).items())) for k in keys]
    if op in ('aggregate-list', 'fold-list'):
        return vals
    return sorted(_counts(vals).items())       # aggregate-dict, aggregate-object


def _dict_add(a, v):
    a[v] = a.get(v, 0) + 1
    return a


def _dict_merge(a, b):
    for k, c in b.items():
        a[k] = a.get(k, 0) + c
    return a


def _mutzero_run(r, op):
    """Returns (canonical value, the caller's zero object is unchanged)."""
    append = lambda a, v: a.append(v) or a          # noqa: E731
    extend = lambda a, b: a.extend(b) or a          # noqa: E731
    if op == 'aggregateByKey-list':
        zero = []
        v = sorted(r.aggregateByKey(zero, append, extend).collect())
        return [(k, list(x)) for k, x in v], zero == []
    if op == 'aggregateByKey-set':
        zero = set()
        v = r.aggregateByKey(zero, lambda a, x: a.add(x) or a, lambda a, b: a.update(b) or a).collect()
        return sorted((k, sorted(x)) for k, x in v), zero == set()
    if op == 'aggregateByKey-dict':
        zero = {}
        v = r.aggregateByKey(zero, _dict_add, _dict_merge).collect()
        return sorted((k, sorted(x.items())) for k, x in v), zero == {}
    if op == 'aggregateByKey-object':
        zero = _Tally()
        v = r.aggregateByKey(zero, lambda a, x: a.add(x), lambda a, b: a.merge(b)).collect()
        return sorted((k, sorted(x.seen.items())) for k, x in v), zero == _Tally()
    if op == 'foldByKey-list':
        zero = []
        v = sorted(r.mapValues(lambda x: [x]).foldByKey(zero, extend).collect())
        return [(k, list(x)) for k, x in v], zero == []
    if op == 'aggregate-list':
        zero = []
        return list(r.values().aggregate(zero, append, extend)), zero == []
    if op == 'aggregate-dict':
        zero = {}
        return sorted(r.values().aggregate(zero, _dict_add, _dict_merge).items()), zero == {}
    if op == 'fold-list':
        zero = []
        return list(r.values().map(lambda x: [x]).fold(zero, extend)), zero == []
    zero = _Tally()
    return sorted(r.values().aggregate(zero, lambda a, x: a.add(x), lambda a, b: a.merge(b)).seen.items()), zero == _Tally()


def _mutzero_program(spec):
    data, slices, ops = spec

    def program(sc):
        r = sc.parallelize([tuple(p) for p in data], slices)
        out = []
        for op in ops:
            for _ in range(2):                 # twice: a zero object polluted by the first run shows in the second
                try:
                    value = _mutzero_run(r, op)
                except Exception as e:  # pylint: disable=broad-except
                    value = (('raised', type(e).__name__), True)
                out.append((op, value[0], value[1]))
        return out
    return program


def _judge_mutzero(backend, spec, sched):
    program = _mutzero_program(spec)
    want, err = _default_executor(('mutzero', spec), lambda: program(make_context(2, 0)[0]))
    if err:
        return ('dummy:mutable-zero-program-raised', err)
    got = want
    bname = BACKEND_NAMES[backend]
    if backend != 2:
        try:
            got = program(make_context(backend, 0, sched)[0])
        except Exception as e:  # pylint: disable=broad-except
            return (f'{bname}:mutable-zero-program-raised:{type(e).__name__}', 'program raised on this backend only')
    for n_step, (g, w) in enumerate(zip(got, want)):
        op = w[0]
        run = 'second-run' if n_step % 2 else 'first-run'
        plain = _mutzero_plain(spec[0], op)
        if g[1] != plain:
            return (f'{bname}:mutable-zero:{op}:{run}:differs-from-plain-list-meaning',
                    f'{op} ({run}) returned {g[1]!r}; the plain-list meaning is {plain!r}')
        if not g[2]:
            return (f'{bname}:mutable-zero:{op}:{run}:callers-zero-value-was-modified',
                    f'{op} ({run}): the zero object handed in by the caller is no longer empty after the job')
        if g != w:
            return (f'{bname}:mutable-zero:{op}:{run}:differs-from-default-executor', f'{g[1:]!r} instead of {w[1:]!r}')
    return None


def _mutzero_checks(rng, n, have):
    for _ in range(n):
        spec = _mutzero_spec(rng)
        _EXTRA['mutable_zero_programs'] = _EXTRA.get('mutable_zero_programs', 0) + 1
        for b in [2] + have:
            sched = ([[rng.randrange(spec[1]) for _ in range(rng.randint(0, 40))] for _ in range(6 * len(spec[2]) + 4)]
                     if b in (0, 1) else [])
            case = ('mutzero', b, 0, spec, sched)
            o = _judge_program(case)
            _EXTRA['mutable_zero_backend_runs'] = _EXTRA.get('mutable_zero_backend_runs', 0) + 1
            if o is not None:
                yield (o[0], o[1], 'replayable: ./check C03 --replay <this file>', case)
                if o[0].startswith('dummy:'):
                    break


# ---------------------------------------------------------------------------------------------------
# actions whose RESULT IS A SIDE EFFECT: saveAsTextFile / saveAsPickleFile of a dataset with several partitions, and
# foreach() filling a structure of the driver.  On the traced pool every element a map() hands on is a grant
# (trace_map), so the tasks interleave while their part files are being written -- every task has started before any
# has written; on ThreadPoolExecutor a barrier in the upstream map() makes all tasks fill their buffers together.
# Oracle: directory listing and per-file content equal the default executor's output and the plain-list meaning.
def _save_spec(rng):
    data = [rng.randint(0, 99) for _ in range(rng.choice([2, 3, 5, 8]))]
    slices = rng.randint(2, 4)
    return (data, slices, rng.choice(['plain', 'persisted', 'sampled']), rng.choice(['text', 'text', 'pickle', 'foreach']))


def _read_tree(path):
    if os.path.isfile(path):
        with open(path, 'rb') as f:
            return [('<single file>', f.read())]
    out = []
    for name in sorted(os.listdir(path)):
        with open(os.path.join(path, name), 'rb') as f:
            out.append((name, f.read()))
    return out


def _save_program(spec, scratch, barrier_for=None):
    data, slices, lineage, fmt = spec

    def program(sc):
        src = sc.parallelize(list(data), slices)
        layout = [list(p.x()) for p in src.partitions()]
        r = src
        if lineage == 'persisted':
            r = r.persist()
        elif lineage == 'sampled':
            r = r.sample(False, 1.0, seed=4)          # keeps every element (random() < 1.0), draws per element
        if barrier_for:
            barrier = threading.Barrier(barrier_for, timeout=2)
            waited = set()

            def label(x):
                me = threading.get_ident()
                if me not in waited:                  # once per task: all tasks are inside their consumer
                    waited.add(me)                    # (filling their buffers) before any of them goes on
                    try:
                        barrier.wait()
                    except threading.BrokenBarrierError:
                        pass
                return f'v{x}'
        else:
            def label(x):
                return f'v{x}'
        r = r.map(label)
        path = os.path.join(scratch, f'out_{os.getpid()}_{next(_SAVE_SEQ)}')
        try:
            if fmt == 'text':
                r.saveAsTextFile(path)
                return ('files', [(n, c.decode('utf8')) for n, c in _read_tree(path)], layout)
            if fmt == 'pickle':
                r.saveAsPickleFile(path)
                tree = _read_tree(path)
                loaded = [(n, pickle.loads(c) if not n.startswith('_') else None) for n, c in tree]
                return ('pickles', loaded, layout)
            seen = []
            r.foreach(seen.append)
            return ('foreach', sorted(seen), layout)
        except Exception as e:  # pylint: disable=broad-except
            return ('raised', type(e).__name__, layout)
        finally:
            if os.path.isfile(path):
                os.remove(path)
            shutil.rmtree(path, ignore_errors=True)
    return program


def _judge_save(backend, spec, sched, scratch):
    data, slices, _lineage, fmt = spec
    want, err = _default_executor(('save', spec), lambda: _save_program(spec, scratch)(make_context(2, 0, max_retries=1)[0]))
    if err:
        return ('dummy:save-program-raised', err)
    got = want
    bname = BACKEND_NAMES[backend]
    if backend != 2:
        try:
            barrier = min(slices, len(data)) if backend == 3 and slices <= 4 else None
            got = _save_program(spec, scratch, barrier)(make_context(backend, 0, sched, max_retries=1, trace_map=True)[0])
        except Exception as e:  # pylint: disable=broad-except
            return (f'{bname}:save-program-raised:{type(e).__name__}', 'program raised on this backend only')
    layout = want[2]
    if fmt == 'text':
        plain = ('files', [('_SUCCESS', '')] + [(f'part-{i:05d}', ''.join(f'v{x}\n' for x in p)) for i, p in enumerate(layout)])
    elif fmt == 'pickle':
        plain = None
    else:
        plain = ('foreach', sorted(f'v{x}' for x in data))
    if fmt == 'foreach' and backend not in (0, 2, 3, 8):
        return None                  # tasks on copies cannot fill a structure of the driver: nothing to compare
    if plain is not None and got[:2] != plain:
        return (f'{bname}:side-effect:{fmt}:differs-from-plain-list-meaning',
                f'{fmt}: {got[1]!r}; the plain-list meaning is {plain[1]!r}')
    if fmt == 'pickle' and got[0] == 'pickles':
        flat = [x for n, part in got[1] if part is not None for x in part]
        if flat != [f'v{x}' for x in data]:
            return (f'{bname}:side-effect:pickle:differs-from-plain-list-meaning',
                    f'the part files hold {got[1]!r}; the data is {[f"v{x}" for x in data]!r}')
    if got[:2] != want[:2]:
        return (f'{bname}:side-effect:{fmt}:differs-from-default-executor', f'{got[1]!r} instead of {want[1]!r}')
    return None


def _save_checks(rng, n, have):
    for _ in range(n):
        spec = _save_spec(rng)
        _EXTRA['side_effect_programs'] = _EXTRA.get('side_effect_programs', 0) + 1
        for b in [2] + have:
            reps = 3 if b in (0, 1) else 1           # several interleavings on the traced pool
            for _rep in range(reps):
                sched = [[rng.randrange(spec[1]) for _ in range(rng.randint(0, 60))] for _ in range(3)] if b in (0, 1) else []
                case = ('save', b, 0, spec, sched)
                o = _judge_program(case)
                _EXTRA['side_effect_backend_runs'] = _EXTRA.get('side_effect_backend_runs', 0) + 1
                if o is not None:
                    yield (o[0], o[1], 'replayable: ./check C03 --replay <this file>', case)
                    break


def extra_evidence():
    return {'backends_available': [BACKEND_NAMES[b] for b in available_backends()],
            'free_programs_compared_across_backends': dict(_EXTRA)}
