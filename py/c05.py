"""C05 -- caching never changes results, prevents recomputation, unpersist is safe.

case = (managers, contexts, pipelines, history)
  managers  : [None | timeout:int]                 None = CacheManager, int = TimedCacheManager(timeout)
  contexts  : [(manager_index, pool:bool)]         pool = Context(pool=SubmitAllPool()) -> _runJob_distributed
  pipelines : [(ctx, partitions, [(tag, fn)])]     tag 0 map, 1 filter, 2 flatMap, 3 persist (fn 0) / cache (fn 1) / persist(level fn-2: every StorageLevel constant),
                                                   4 mapPartitions (fn<3) / mapPartitionsWithIndex (fn>=3) with generator fn%3,
                                                   5 element function of (partition index, position, element) fn%3: the index from
                                                     mapPartitionsWithIndex (fn<3) or from the task context (fn>=3, as zipWithUniqueId)
  history   : [(0, k, j, kind, n)]  action on node j of pipeline k: kind 0 collect, 1 count, 2 take(n), 3 first
              [(1, k, j)] node.unpersist()   [(2, dt)] the clock advances   [(3, mi)] manager.gc()

result = (ids, steps): ids of every dataset relative to the id counter at case start; per action
(result, user calls [(dataset id, partition, argument)], managers [(cache_obj items, _time_added)]).
The clock is pysparkling.cache_manager.time replaced by a virtual clock; the partition a user call
belongs to is the partition of the task started last (wrapper around pysparkling.context._run_task)."""
import itertools

import pysparkling.cache_manager as cm_mod
import pysparkling.context as ctx_mod
from pysparkling import Context
from pysparkling.cache_manager import CacheManager, TimedCacheManager
from pysparkling.storagelevel import StorageLevel

from common.coqlit import Err

ID = 'C05'
KERNELS = []
SHARD = 150
RULE = ('worlds: 1-2 contexts with own or shared CacheManager/TimedCacheManager, local or pool jobs; 1-3 linear '
        'pipelines of map/filter/flatMap/mapPartitions[WithIndex] stages from a 6+6+6+3 function library (the partition '
        'functions consume their iterator in two steps) over 1-3 explicit partitions with '
        'persist()/cache()/persist(level) for every StorageLevel constant at a random subset of positions; histories of 1-7 steps: collect/count/take(n)/first on '
        'ANY node, unpersist on any node, clock advances, explicit gc(); thorough adds the exhaustive scope '
        '(all persist subsets of a 2-stage pipeline on 2 partitions x all histories of length <= 3 over a 9-letter '
        'alphabet); non-trivial = some persisted node is the target or an ancestor of the target of >= 2 actions; '
        'distinct by canonical JSON')
ASSUMPTIONS = [
    'sources are built with Context._parallelize_partitions (explicit partitions); slicing is C01/C07',
    'user functions are pure and total: element-wise (map/filter/flatMap) or generator functions over the partition '
    'iterator that consume their whole input when first pulled (mapPartitions/mapPartitionsWithIndex, on any node incl. the source); partition '
    'functions that run eagerly at compute() time or stop consuming early are not modelled',
    'the clock is constant during one action and never goes backwards (virtual clock, advances are >= 0)',
    'pool = an in-process pool whose map() takes all task inputs first and runs the tasks in order '
    '(as multiprocessing.Pool.map / ThreadPoolExecutor.map submit everything first); no pickling',
    'reading of "older than its timeout": age > timeout must be gone after gc(), age < timeout must not be recomputed',
]
TRUSTED = ['wrapper around pysparkling.context._run_task attributing user calls to partitions',
           'virtual clock installed as pysparkling.cache_manager.time',
           'wrappers around the driver managers\' add/join recording the time of every add (oracle ground truth)']

# ------------------------------------------------------------------ function library (Gallina twins in Run/C05_run.v)
LIB_MAP = [lambda x: x + 1, lambda x: x * 2, lambda x: -x, lambda x: x % 3, lambda x: x * x, lambda x: x // 2]
LIB_FILTER = [lambda x: x % 2 == 0, lambda x: x > 0, lambda x: x % 3 != 0, lambda x: False, lambda x: True,
              lambda x: x < 2]
LIB_FLAT = [lambda x: [x, x], lambda x: [], lambda x: [x], lambda x: list(range(x % 3)),
            lambda x: [x, x + 1, x + 2], lambda x: [] if x % 2 == 0 else [x]]
MAP, FILTER, FLAT, PERSIST, PART, IDX = 0, 1, 2, 3, 4, 5
# every StorageLevel constant the module defines (found by inspection, so that a new one is picked up)
STORAGE_LEVELS = [getattr(StorageLevel, n) for n in sorted(dir(StorageLevel))
                  if n.isupper() and isinstance(getattr(StorageLevel, n), StorageLevel)]
N_PERSIST = 2 + len(STORAGE_LEVELS)

# functions of (partition index, position in the partition, element)
LIB_IDX = [lambda i, e, x: x + 10 * i, lambda i, e, x: e * 7 + i, lambda i, e, x: x * (i + 1) + e]


# generator functions for mapPartitions / mapPartitionsWithIndex: each consumes the partition ITERATOR in two
# steps, as the API allows (a header and then "the rest"; next() and then the rest; pairing with zip(it, it))
def _pf_header_body(it):
    header = list(itertools.islice(it, 1))
    body = list(it)
    for x in header:
        yield x * 100 + sum(body)


def _pf_next_rest(it):
    try:
        a = next(it)
    except StopIteration:
        return
    rest = list(it)
    yield a
    yield len(rest)


def _pf_pairs(it):
    pairs = list(zip(it, it))
    for a, b in pairs:
        yield a + b


LIB_PART = [_pf_header_body, _pf_next_rest, _pf_pairs]


class Clock:
    t = 0

    def time(self):
        return self.t

    # anything else the module might want from `time`
    def __getattr__(self, name):
        import time as _t
        return getattr(_t, name)


class SubmitAllPool:
    """pool.map(func, iterable): all inputs are taken first, tasks run in order, results in order."""

    def map(self, func, iterable):
        items = list(iterable)
        return [func(x) for x in items]


CLOCK = Clock()
CUR = {'part': None}
_ORIG_RUN_TASK = ctx_mod._run_task          # pylint: disable=protected-access


def _run_task_tap(task_context, rdd, func, partition):
    CUR['part'] = partition.index
    return _ORIG_RUN_TASK(task_context, rdd, func, partition)


def _install():
    cm_mod.time = CLOCK
    ctx_mod._run_task = _run_task_tap       # pylint: disable=protected-access


def _last_id():
    return Context._Context__last_rdd_id    # pylint: disable=protected-access


class Run:
    """One world: contexts, managers, datasets; executes history steps and observes."""

    def __init__(self, case):
        _install()
        managers, contexts, pipelines, _ = case
        CLOCK.t = 0
        self.log = []
        self.adds = []
        self.mgrs = []
        for mi, t in enumerate(managers):
            m = CacheManager() if t is None else TimedCacheManager(timeout=t)
            self._wrap(m, mi)
            self.mgrs.append(m)
        self.ctxs = [Context(cache_manager=self.mgrs[mi], pool=SubmitAllPool() if pool else None)
                     for mi, pool in contexts]
        self.base = _last_id()
        self.nodes = []
        for k, (cx, parts, stages) in enumerate(pipelines):
            sc = self.ctxs[cx]
            node = sc._parallelize_partitions([list(p) for p in parts])   # pylint: disable=protected-access
            chain = [node]
            for tag, fn in stages:
                holder = {}
                if tag == MAP:
                    node = node.map(self._rec(LIB_MAP[fn], holder))
                elif tag == FILTER:
                    node = node.filter(self._rec(LIB_FILTER[fn], holder))
                elif tag == FLAT:
                    node = node.flatMap(self._rec(LIB_FLAT[fn], holder))
                elif tag == IDX:
                    g = self._rec(lambda a: a, holder)       # logs the element, like every element function
                    fi = LIB_IDX[fn % 3]
                    if fn >= 3:
                        # the partition identity read from the TASK CONTEXT, as zipWithUniqueId does
                        from pysparkling.rdd import MapPartitionsRDD
                        node = MapPartitionsRDD(
                            node, lambda tc, i, x, fi=fi, g=g: (fi(tc.partition_id, e, g(xx)) for e, xx in enumerate(x)),
                            preservesPartitioning=True)
                    else:
                        node = node.mapPartitionsWithIndex(
                            lambda i, it, fi=fi, g=g: (fi(i, e, g(xx)) for e, xx in enumerate(it)))
                elif tag == PART:
                    pf = self._rec_part(LIB_PART[fn % 3], holder)
                    if fn >= 3:
                        node = node.mapPartitionsWithIndex(lambda index, it, pf=pf: pf(it))
                    else:
                        node = node.mapPartitions(pf)
                else:
                    # fn 0: persist(), 1: cache(), 2..: persist(<every StorageLevel constant>)
                    node = (node.persist() if fn == 0 else node.cache() if fn == 1
                            else node.persist(STORAGE_LEVELS[(fn - 2) % len(STORAGE_LEVELS)]))
                holder['rid'] = node.id()
                chain.append(node)
            self.nodes.append(chain)

    def _rec(self, f, holder):
        def g(x):
            self.log.append((holder['rid'] - self.base, CUR['part'], x))
            return f(x)
        return g

    def _rec_part(self, pf, holder):
        def g(it):
            # a generator: this line runs when the first element is asked for
            self.log.append((holder['rid'] - self.base, CUR['part'], None))
            yield from pf(it)
        return g

    def _wrap(self, m, mi):
        add, join = m.add, m.join

        def add_w(ident, obj, storageLevel=None):
            self.adds.append((mi, ident, CLOCK.t))
            return add(ident, obj, storageLevel)

        def join_w(cache_objects):
            for ident in cache_objects:
                self.adds.append((mi, ident, CLOCK.t))
            return join(cache_objects)
        m.add, m.join = add_w, join_w

    def ids(self):
        return [[n.id() - self.base for n in chain] for chain in self.nodes]

    def key(self, ident):
        return (ident[0] - self.base, ident[1])

    def observe(self):
        out = []
        for m in self.mgrs:
            entries = [(self.key(k), list(v['mem_obj']) if v['mem_obj'] is not None else None)
                       for k, v in m.cache_obj.items()]
            times = [(self.key(k), t) for k, t in getattr(m, '_time_added', [])]
            out.append((entries, times))
        return out

    def _snapshot(self):
        return [(dict(m.cache_obj), m.cache_cnt, list(getattr(m, '_time_added', []))) for m in self.mgrs]

    def _restore(self, snap):
        for m, (co, cnt, ta) in zip(self.mgrs, snap):
            m.cache_obj = co
            m.cache_cnt = cnt
            if hasattr(m, '_time_added'):
                m._time_added = ta          # pylint: disable=protected-access

    def step(self, a):
        self.log = []
        self.adds = []
        try:
            if a[0] == 0:
                _, k, j, kind, n = a
                node = self.nodes[k][j]
                if kind == 0:
                    r = list(node.collect())
                elif kind == 1:
                    r = node.count()
                elif kind == 2:
                    r = list(node.take(n))
                else:
                    r = (node.first(),)
            elif a[0] == 1:
                _, k, j = a
                ret = self.nodes[k][j].unpersist()
                idx = next((q for q, nd in enumerate(self.nodes[k]) if nd is ret), -1)
                # what the returned dataset contains: probed on a snapshot, so that the history is not disturbed
                snap, log, adds = self._snapshot(), self.log, self.adds
                self.log, self.adds = [], []
                try:
                    contents = list(ret.collect())
                finally:
                    self._restore(snap)
                    self.log, self.adds = log, adds
                r = (idx, contents)
            elif a[0] == 2:
                CLOCK.t += a[1]
                r = None
            else:
                m = self.mgrs[a[1]]
                if hasattr(m, 'gc'):
                    m.gc()
                r = None
        except Exception as e:  # pylint: disable=broad-except
            r = Err(type(e).__name__)
        return r, list(self.log), self.observe(), list(self.adds)


_AUX = {}


def _execute(case):
    run = Run(case)
    steps, aux = [], []
    for a in case[3]:
        r, log, obs, adds = run.step(a)
        steps.append((r, log, obs))
        aux.append([(mi, run.key(ident), t) for mi, ident, t in adds])
    return (run.ids(), steps), aux


def impl(case):
    res, aux = _execute(case)
    if len(_AUX) > 200000:
        _AUX.clear()
    _AUX[repr(case)] = aux
    return res


# ------------------------------------------------------------------ oracle (implementation only)
def _plain(stages, xs, i=0):
    for tag, fn in stages:
        if tag == MAP:
            xs = [LIB_MAP[fn](x) for x in xs]
        elif tag == FILTER:
            xs = [x for x in xs if LIB_FILTER[fn](x)]
        elif tag == FLAT:
            xs = [y for x in xs for y in LIB_FLAT[fn](x)]
        elif tag == PART:
            xs = list(LIB_PART[fn % 3](iter(xs)))
        elif tag == IDX:
            xs = [LIB_IDX[fn % 3](i, e, x) for e, x in enumerate(xs)]
    return xs


def _was_unpersisted(history, upto, k, j):
    return any(a[0] == 1 and a[1] == k and a[2] == j for a in history[:upto])


def oracle(case, result):
    managers, contexts, pipelines, history = case
    if isinstance(result, Err):
        return ('harness:crash', repr(result))
    ids, steps = result
    aux = _AUX.get(repr(case))
    if aux is None:
        aux = _execute(case)[1]
    # ids: pairwise distinct over all datasets of all contexts
    flat_ids = [i for chain in ids for i in chain]
    if len(set(flat_ids)) != len(flat_ids):
        for k, chain in enumerate(ids):
            for j in range(1, len(chain)):
                if chain[j] == chain[j - 1] and pipelines[k][2][j - 1][0] == PERSIST:
                    return ('persist:on-a-persisted-dataset-returns-the-same-dataset',
                            f'pipeline {k}: node {j} = node {j - 1}.persist()/cache() is the SAME dataset (id {chain[j]}): '
                            f'unpersisting it would drop the entries of node {j - 1}; dataset ids {ids}')
        return ('Context.newRddId:duplicate-id', f'dataset ids {ids}')
    now = 0
    added = [dict() for _ in managers]         # ground truth: when each present entry was added
    computed = [dict() for _ in managers]      # (id, i) -> time of the last add, until unpersist
    evaluated = {}                             # (pipeline, node) persisted and fully evaluated by collect/count
    for t, (a, (r, log, obs)) in enumerate(zip(history, steps)):
        if isinstance(r, Err) and not (a[0] == 0 and a[3] == 3 and r.name == 'StopIteration'):
            return (f'step:{r.name}', f'step {t} {a} raised {r.name}')
        if a[0] == 2:
            now += a[1]
        if a[0] == 0:
            _, k, j, kind, n = a
            cx, parts, stages = pipelines[k]
            mi = contexts[cx][0]
            ref = [_plain(stages[:j], p, i) for i, p in enumerate(parts)]
            flat = [x for p in ref for x in p]
            want = (flat if kind == 0 else len(flat) if kind == 1 else flat[:n] if kind == 2
                    else ((flat[0],) if flat else Err('StopIteration')))
            if r != want:
                persisted = [q + 1 for q, s in enumerate(stages[:j]) if s[0] == PERSIST]
                return (f'action:{["collect", "count", "take", "first"][kind]}:result-differs-from-uncached',
                        f'step {t} {a}: got {r!r}, without caching {want!r} (persist at nodes {persisted})')
            # no recomputation: partition i of persisted node q (<= j) was computed (added to the manager) earlier,
            # has not been unpersisted since and is younger than the timeout => no call of a function of a
            # node upstream of q for partition i during this action
            for q in range(1, j + 1):
                if stages[q - 1][0] != PERSIST:
                    continue
                rid = ids[k][q]
                upstream = set(ids[k][1:q])
                tmo = managers[mi]
                for i in range(len(parts)):
                    t_add = computed[mi].get((rid, i))
                    if tmo is None and (k, q) in evaluated:
                        t_add = evaluated[(k, q)]      # fully evaluated by an earlier collect()/count()
                    if t_add is None or (tmo is not None and not now - t_add < tmo):
                        continue
                    calls = [e for e in log if e[0] in upstream and e[1] == i]
                    if calls:
                        if tmo is not None and _was_unpersisted(history, t, k, q):
                            # the stale-stamp defect found by this check, repaired in /repo a58d69d
                            return ('TimedCacheManager.gc:unexpired-entry-recomputed-after-unpersist-and-reuse',
                                    f'step {t} {a}: partition {i} of node {q} was cached at {t_add} '
                                    f'(now {now}, timeout {tmo}) but upstream calls {calls[:4]} happened')
                        return ('PersistedRDD.compute:cached-partition-recomputed',
                                f'step {t} {a}: partition {i} of persisted node {q} (id {rid}) was computed at '
                                f'{t_add} (now {now}), but upstream user calls happened again: {calls[:4]}')
        if a[0] == 1:
            _, k, j = a
            cx, parts, stages = pipelines[k]
            mi = contexts[cx][0]
            contents = [x for i, p in enumerate(parts) for x in _plain(stages[:j], p, i)]
            if r[1] != contents:
                return ('unpersist:contents-differ', f'step {t} {a}: returned dataset contains {r[1]!r}, '
                                                     f'the dataset contained {contents!r}')
            left = [key for key, _ in obs[mi][0] if key[0] == ids[k][j]]
            if left:
                return ('unpersist:entry-left-behind', f'step {t} {a}: entries {left} remain')
            # only the entries of THAT dataset are gone (an adjacent persisted parent keeps its own)
            if t > 0:
                now_keys = {key for o in obs for key, _ in o[0]}
                gone = [key for o in steps[t - 1][2] for key, _ in o[0]
                        if key[0] != ids[k][j] and key not in now_keys]
                if gone:
                    return ('unpersist:entries-of-another-dataset-removed',
                            f'step {t} {a}: unpersist of dataset {ids[k][j]} also removed {gone}')
        # bookkeeping of add times from the recorded add()/join() calls on the driver managers
        for mi, key, tt in aux[t]:
            added[mi][key] = tt
            computed[mi][key] = tt
        if a[0] == 0 and a[3] in (0, 1):
            # the most downstream persisted node at or before the target is certainly consulted for every
            # partition (persisted nodes upstream of it may be hidden by its entries)
            qs = [q for q in range(1, a[2] + 1) if pipelines[a[1]][2][q - 1][0] == PERSIST]
            if qs:
                evaluated.setdefault((a[1], qs[-1]), now)
        if a[0] == 1:
            evaluated.pop((a[1], a[2]), None)
            rid = ids[a[1]][a[2]]
            for cm in computed:
                for key in [key for key in cm if key[0] == rid]:
                    del cm[key]
        for mi in range(len(managers)):
            keys = {key for key, _ in obs[mi][0]}
            for key in list(added[mi]):
                if key not in keys:
                    del added[mi][key]
        # gc: after an explicit gc() and after every add (which runs gc) nothing older than the timeout is left
        for mi, tmo in enumerate(managers):
            if tmo is None:
                continue
            ran_gc = (a[0] == 3 and a[1] == mi) or any(m == mi for m, _, _ in aux[t])
            if not ran_gc:
                continue
            for key, _ in obs[mi][0]:
                t_add = added[mi].get(key)
                if t_add is not None and now - t_add > tmo:
                    site = 'gc' if a[0] == 3 else 'add'
                    return (f'TimedCacheManager.{site}:expired-entry-survives',
                            f'step {t} {a}: entry {key} added at {t_add} still present at {now} (timeout {tmo})')
    return None


# ------------------------------------------------------------------ generation
def _has_persist_use(case):
    _, _, pipelines, history = case
    cnt = {}
    for a in history:
        if a[0] == 0:
            k, j = a[1], a[2]
            for q, s in enumerate(pipelines[k][2][:j]):
                if s[0] == PERSIST:
                    cnt[(k, q)] = cnt.get((k, q), 0) + 1
    return any(v >= 2 for v in cnt.values())


def nontrivial(case, result):
    return _has_persist_use(case)


def kind(case):
    managers, contexts, pipelines, _ = case
    shared = len(contexts) == 2 and contexts[0][0] == contexts[1][0]
    timed = any(m is not None for m in managers)
    pool = any(c[1] for c in contexts)
    return (f'{len(contexts)}ctx{"-shared" if shared else ""}{"-timed" if timed else ""}{"-pool" if pool else ""}')


def _rand_stage(rng):
    tag = rng.choice([MAP, MAP, MAP, FILTER, FILTER, FLAT, FLAT, PART, IDX, IDX])
    return (tag, rng.randrange(6))


def _rand_pipeline(rng, nctx, force_persist=True):
    parts = [[rng.randint(-3, 6) for _ in range(rng.choice([0, 1, 2, 2, 3, 4]))]
             for _ in range(rng.choice([1, 2, 2, 3]))]
    stages = []
    for _ in range(rng.choice([0, 1, 2, 2, 3, 4])):
        stages.append(_rand_stage(rng))
    # persist at a random subset of the positions (after the source, after every stage)
    out = []
    npos = len(stages) + 1
    marks = [rng.random() < 0.4 for _ in range(npos)]
    if force_persist and not any(marks):
        marks[rng.randrange(npos)] = True
    for q in range(npos):
        if q > 0:
            out.append(stages[q - 1])
        if marks[q]:
            v = rng.randrange(N_PERSIST)
            out.append((PERSIST, v))
            if rng.random() < 0.2:
                # directly adjacent persist marks, same or another level
                out.append((PERSIST, v if rng.random() < 0.5 else rng.randrange(N_PERSIST)))
    return (rng.randrange(nctx), parts, out)


def _rand_world(rng):
    shape = rng.choice(['1p', '1p', '1t', '1t', '2sp', '2st', '2u', '2u'])
    pool = lambda: rng.random() < 0.3          # noqa: E731
    tmo = lambda: rng.choice([0, 1, 2, 3, 5, 8])   # noqa: E731
    if shape == '1p':
        return [None], [(0, pool())]
    if shape == '1t':
        return [tmo()], [(0, pool())]
    if shape == '2sp':
        return [None], [(0, pool()), (0, pool())]
    if shape == '2st':
        return [tmo()], [(0, pool()), (0, pool())]
    return [rng.choice([None, tmo()]), rng.choice([None, tmo()])], [(0, pool()), (1, pool())]


def _rand_history(rng, pipelines, managers, length):
    h = []
    timed = [mi for mi, m in enumerate(managers) if m is not None]
    for _ in range(length):
        x = rng.random()
        k = rng.randrange(len(pipelines))
        nn = len(pipelines[k][2])
        # prefer nodes at or after a persist mark
        j = rng.randint(0, nn)
        if x < 0.62:
            kd = rng.choice([0, 0, 1, 2, 2, 3])
            h.append((0, k, j, kd, rng.choice([0, 1, 1, 2, 3, 5]) if kd == 2 else 0))
        elif x < 0.77:
            pj = [q + 1 for q, s in enumerate(pipelines[k][2]) if s[0] == PERSIST]
            h.append((1, k, rng.choice(pj) if pj and rng.random() < 0.85 else j))
        elif x < 0.92 and timed:
            h.append((2, rng.choice([0, 1, 1, 2, 3, 4])))
        elif timed:
            h.append((3, rng.choice(timed)))
        else:
            h.append((0, k, j, 0, 0))
    return h


def _random_case(rng):
    managers, contexts = _rand_world(rng)
    pipelines = [_rand_pipeline(rng, len(contexts)) for _ in range(rng.choice([1, 1, 2, 2, 3]))]
    if len(contexts) == 2 and len(pipelines) >= 2:
        # make sure both contexts own a dataset
        pipelines[0] = (0,) + pipelines[0][1:]
        pipelines[1] = (1,) + pipelines[1][1:]
    history = _rand_history(rng, pipelines, managers, rng.randint(1, 7))
    return (managers, contexts, pipelines, history)


def _exhaustive(rng, tier):
    """2-stage pipelines on 2 partitions, every subset of the 3 persist positions, every history of
    length <= 3 over: collect/first/take(1)/take(2) on the last node, collect on node 1, unpersist of
    each persisted node, advance(2), gc."""
    cases = []
    stage_sets = [[(MAP, 0), (FILTER, 0)], [(MAP, 0), (PART, 0)], [(IDX, 4), (FILTER, 0)], [(FLAT, 0), (MAP, 1)], [(PART, 4), (PART, 2)], [(IDX, 0), (IDX, 5)]]
    worlds = [([None], [(0, False)]), ([2], [(0, False)])]
    if tier == 'quick':
        stage_sets = stage_sets[:3]
    for st in stage_sets:
        for managers, contexts in worlds:
            for marks in itertools.product([False, True], repeat=3):
                sts = []
                for q in range(3):
                    if q > 0:
                        sts.append(st[q - 1])
                    if marks[q]:
                        sts.append((PERSIST, 0))
                nn = len(sts)
                pj = [q + 1 for q, s in enumerate(sts) if s[0] == PERSIST]
                alpha = [(0, 0, nn, 0, 0), (0, 0, nn, 3, 0), (0, 0, nn, 2, 1), (0, 0, nn, 2, 2),
                         (0, 0, min(1, nn), 0, 0)]
                alpha += [(1, 0, q) for q in pj]
                if managers[0] is not None:
                    alpha += [(2, 2), (3, 0)]
                parts = [[1, 2], [3, 4]]
                maxlen = 3 if tier == 'thorough' else 2
                for ln in range(1, maxlen + 1):
                    for h in itertools.product(alpha, repeat=ln):
                        cases.append((managers, contexts, [(0, parts, sts)], list(h)))
    if tier == 'quick' and len(cases) > 700:
        cases = rng.sample(cases, 700)
    return cases


def _level_cases():
    out = []
    for v in range(N_PERSIST):
        for managers, contexts in (([None], [(0, False)]), ([50], [(0, False)]), ([None], [(0, True)])):
            out.append((managers, contexts,
                        [(0, [[1, 2], [3], [4, 5, 6]], [(MAP, 0), (PERSIST, v), (FILTER, 0), (PERSIST, (v + 3) % N_PERSIST), (MAP, 1)])],
                        [(0, 0, 2, 3, 0), (0, 0, 2, 0, 0), (0, 0, 2, 0, 0), (0, 0, 5, 0, 0), (0, 0, 5, 1, 0), (0, 0, 3, 2, 2),
                         (1, 0, 2), (0, 0, 2, 0, 0), (0, 0, 5, 0, 0)]))
    return out


CORPUS = [
    # the doctest of RDD.cache()
    ([None], [(0, False)], [(0, [[1, 2], [3, 4]], [(MAP, 4), (PERSIST, 1)])],
     [(0, 0, 2, 3, 0), (0, 0, 2, 0, 0), (0, 0, 2, 0, 0)]),
    # unpersist then read (the repaired defect)
    ([None], [(0, False)], [(0, [[1, 2], [3]], [(MAP, 1), (PERSIST, 0)])],
     [(0, 0, 2, 0, 0), (1, 0, 2), (0, 0, 1, 0, 0), (0, 0, 2, 0, 0)]),
    # two contexts sharing one manager
    ([None], [(0, False), (0, False)],
     [(0, [[1, 2]], [(MAP, 0), (PERSIST, 0)]), (1, [[5, 6]], [(MAP, 1), (PERSIST, 0)])],
     [(0, 0, 2, 0, 0), (0, 1, 2, 0, 0), (0, 0, 2, 0, 0), (0, 1, 2, 0, 0)]),
    # unpersist of an upstream persisted node that stays hidden behind its persisted descendant
    ([None], [(0, False)], [(0, [[1, 2], [3]], [(MAP, 0), (PERSIST, 0), (MAP, 1), (PERSIST, 0)])],
     [(0, 0, 4, 0, 0), (1, 0, 2), (0, 0, 4, 0, 0), (0, 0, 2, 0, 0), (0, 0, 4, 2, 3)]),
    # a partition function that takes a header and then "the rest", directly on a persisted dataset, served from the cache
    ([None], [(0, False)], [(0, [[1, 2, 3, 4], [5, 6, 7, 8]], [(MAP, 0), (PERSIST, 0), (PART, 0)])],
     [(0, 0, 3, 0, 0), (0, 0, 3, 0, 0), (0, 0, 3, 3, 0)]),
    ([None], [(0, True)], [(0, [[1, 2, 3], [4]], [(PERSIST, 0), (PART, 4), (PERSIST, 1), (PART, 5)])],
     [(0, 0, 2, 2, 1), (0, 0, 4, 0, 0), (0, 0, 4, 0, 0), (0, 0, 2, 0, 0)]),
    # functions of the partition identity (split index / task context's partition id) upstream of persist marks,
    # several partitions, stacked persists, persisted children
    ([None], [(0, False)], [(0, [[1, 2], [3, 4], [5]], [(IDX, 4), (PERSIST, 0), (MAP, 0), (PERSIST, 1), (IDX, 0)])],
     [(0, 0, 2, 0, 0), (0, 0, 2, 0, 0), (0, 0, 5, 0, 0), (0, 0, 4, 2, 3), (0, 0, 1, 0, 0)]),
    ([5], [(0, True)], [(0, [[1, 2], [3, 4]], [(IDX, 3), (FILTER, 4), (PERSIST, 0), (IDX, 5), (PERSIST, 0)])],
     [(0, 0, 5, 3, 0), (0, 0, 5, 0, 0), (0, 0, 3, 0, 0), (1, 0, 3), (0, 0, 5, 0, 0), (0, 0, 3, 0, 0)]),
    # partition functions (header + rest, next + rest) directly on the source, with and without persist in front
    ([None], [(0, False)], [(0, [[1, 2, 3, 4], [5, 6, 7]], [(PART, 0), (PERSIST, 0)]),
                            (0, [[1, 2, 3, 4], [5, 6, 7]], [(PERSIST, 0), (PART, 0)]),
                            (0, [[1, 2, 3, 4], []], [(PART, 1)]), (0, [[1, 2, 3, 4], []], [(PERSIST, 1), (PART, 4)])],
     [(0, 0, 1, 0, 0), (0, 1, 2, 0, 0), (0, 2, 1, 0, 0), (0, 3, 2, 0, 0), (0, 3, 2, 3, 0), (0, 2, 1, 2, 1)]),
    # timed manager through a pool: joined entries expire (the repaired defect)
    ([3], [(0, True)], [(0, [[1], [2]], [(MAP, 0), (PERSIST, 0)])],
     [(0, 0, 2, 0, 0), (2, 4), (3, 0), (0, 0, 2, 0, 0)]),
]


def _corpus_files():
    import glob
    import json
    import os
    from common.coqlit import uncanon
    root = os.path.join(os.environ.get('VERIF_ROOT', '/verif'), 'corpus', 'C05')
    out = []
    for path in sorted(glob.glob(os.path.join(root, '*.json'))):
        out.append(uncanon(json.load(open(path))['case']))
    return out


def _reuse_case(rng):
    """timed manager, a persisted dataset that is unpersisted and used again, time passing: the family
    in which stale stamps of _time_added matter"""
    tmo = rng.choice([3, 5, 8, 10])
    pool = rng.random() < 0.2
    pipe = _rand_pipeline(rng, 1)
    nn = len(pipe[2])
    pj = [q + 1 for q, s in enumerate(pipe[2]) if s[0] == PERSIST]
    h = []
    for _ in range(rng.randint(3, 8)):
        x = rng.random()
        if x < 0.45:
            kd = rng.choice([0, 0, 0, 1, 2, 3])
            h.append((0, 0, rng.choice(pj + [nn]), kd, rng.choice([1, 2, 3]) if kd == 2 else 0))
        elif x < 0.65:
            h.append((1, 0, rng.choice(pj)))
        elif x < 0.9:
            h.append((2, rng.choice([1, 2, 3, 4, 5])))
        else:
            h.append((3, 0))
    return ([tmo], [(0, pool)], [pipe], h)


def generate(rng, tier):
    cases = _adjacent_cases() + _hole_cases() + list(CORPUS) + _level_cases() + _corpus_files()
    for _ in range(200 if tier == 'quick' else 3000):
        cases.append(_reuse_case(rng))
    cases += _exhaustive(rng, tier)
    n = 1500 if tier == 'quick' else 20000
    for _ in range(n):
        cases.append(_random_case(rng))
    return cases


def extra_checks(rng, tier, workdir):
    yield from _unpersist_hole_checks()
    yield from _source_iterator_check()
    yield from _fault_checks(rng, tier)
    yield from _failed_job_checks(rng, tier)
    yield from _api_identity_checks(rng, tier)
    yield from _nonsharing_pool_checks(rng, tier, workdir)
    yield from _interleaving_checks(rng, tier)
    yield from _pool_failed_job_checks(rng, tier, workdir)
    yield from _threadpool_checks(rng, tier)


def _threadpool_checks(rng, tier):
    """A real thread pool (concurrent.futures.ThreadPoolExecutor): results, total call counts and expiry of
    the entries joined from the workers.  Call counts only -- the order of calls is schedule dependent."""
    from concurrent.futures import ThreadPoolExecutor
    _install()
    for _ in range(10 if tier == 'quick' else 60):
        tmo = rng.choice([None, 3, 5])
        parts = [[rng.randint(-3, 6) for _ in range(rng.randint(0, 4))] for _ in range(rng.randint(1, 4))]
        fn = rng.randrange(6)
        calls = []

        def f(x, fn=fn, calls=calls):
            calls.append(x)
            return LIB_MAP[fn](x)
        CLOCK.t = 0
        m = CacheManager() if tmo is None else TimedCacheManager(timeout=tmo)
        with ThreadPoolExecutor(2) as pool:
            sc = Context(pool=pool, cache_manager=m)
            rdd = sc._parallelize_partitions([list(p) for p in parts]).map(f).persist(   # pylint: disable=protected-access
                rng.choice([None] + STORAGE_LEVELS))
            want = [LIB_MAP[fn](x) for p in parts for x in p]
            n = len(want)
            case = ('threadpool', tmo, parts, fn)
            r1 = rdd.collect()
            c1 = len(calls)
            r2 = rdd.collect()
            c2 = len(calls)
            if r1 != want or r2 != want:
                yield ('threadpool:result-differs-from-uncached', 'collect through a thread pool', f'{r1} {r2} {want}', case)
            if c1 != n or (c2 != c1 and (tmo is None or tmo > 0)):
                yield ('threadpool:cached-partition-recomputed', 'second collect called the map function again',
                       f'calls {c1} then {c2}, elements {n}', case)
            if tmo is not None:
                CLOCK.t = tmo + 1
                m.gc()
                if m.cache_obj:
                    yield ('TimedCacheManager.gc:expired-entry-survives', 'entries joined from pool workers survive gc',
                           f'{list(m.cache_obj)} at {CLOCK.t}, timeout {tmo}', case)
                r3 = rdd.collect()
                if r3 != want or len(calls) != c2 + n:
                    yield ('threadpool:not-recomputed-after-expiry', 'collect after expiry',
                           f'{r3} calls {len(calls)} expected {c2 + n}', case)
            ret = rdd.unpersist()
            if [k for k in m.cache_obj if k[0] == rdd.id()]:
                yield ('unpersist:entry-left-behind', 'after a pool job', f'{list(m.cache_obj)}', case)
            if ret.collect() != want:
                yield ('unpersist:contents-differ', 'after a pool job', '', case)


class _Flaky:
    """A user function with a transient fault: raises once, the first time it is called with `bad`."""

    def __init__(self, f, bad):
        self.f, self.bad, self.failed = f, bad, False

    def __call__(self, x):
        if x == self.bad and not self.failed:
            self.failed = True
            raise IOError('transient')
        return self.f(x)


def _fault_checks(rng, tier):
    """Transient faults + the default retries (max_retries=3): a task attempt that fails half-way through a
    partition is retried; with persist marks downstream of the faulty stage every action must still return what
    the fault-free cache-free evaluation returns (a failed attempt must not leave anything in the cache).
    Not in the Coq model (attempts are not modelled): oracle only."""
    _install()
    for _ in range(150 if tier == 'quick' else 2500):
        CLOCK.t = 0
        parts = [[rng.randint(-3, 6) for _ in range(rng.choice([1, 2, 3, 4]))] for _ in range(rng.choice([1, 2, 3]))]
        stages = [_rand_stage(rng) for _ in range(rng.choice([1, 2, 3, 4]))]
        stages = [(MAP, fn) if tag in (PART, IDX) else (tag, fn) for tag, fn in stages]
        q = rng.randrange(len(stages))
        stages[q] = (MAP, stages[q][1])                       # the faulty stage
        # persist marks: at least one downstream of the faulty stage
        marks = [rng.random() < 0.35 for _ in range(len(stages) + 1)]
        down = rng.randint(q + 1, len(stages))
        marks[down] = True
        sts = []
        for pos in range(len(stages) + 1):
            if pos > 0:
                sts.append(stages[pos - 1] + (pos - 1 == q,))
            if marks[pos]:
                sts.append((PERSIST, 0, False))
        qn = next(n for n, st in enumerate(sts) if st[2])      # index of the faulty stage in sts
        first_persist_after = next(n for n in range(qn + 1, len(sts)) if sts[n][0] == PERSIST) + 1   # node number
        inputs = [x for p in parts for x in _plain([st[:2] for st in sts[:qn]], p)]
        if not inputs:
            continue
        bad = rng.choice(inputs)
        tmo = rng.choice([None, None, 5])
        pool = rng.random() < 0.3
        m = CacheManager() if tmo is None else TimedCacheManager(timeout=tmo)
        sc = Context(cache_manager=m, pool=SubmitAllPool() if pool else None)
        node = sc._parallelize_partitions([list(p) for p in parts])   # pylint: disable=protected-access
        chain = [node]
        for tag, fn, faulty in sts:
            if tag == MAP:
                node = node.map(_Flaky(LIB_MAP[fn], bad) if faulty else LIB_MAP[fn])
            elif tag == FILTER:
                node = node.filter(LIB_FILTER[fn])
            elif tag == FLAT:
                node = node.flatMap(LIB_FLAT[fn])
            else:
                node = node.persist()
            chain.append(node)
        history = []
        for _ in range(rng.randint(1, 5)):
            kd = rng.choice([0, 0, 1, 2, 3])
            j = rng.randint(first_persist_after, len(sts)) if kd in (2, 3) or rng.random() < 0.7 else rng.randint(0, len(sts))
            history.append((j, kd, rng.choice([1, 2, 3, 5])))
        case = ('transient-fault', tmo, pool, parts, [st[:2] for st in sts], qn + 1, bad, history)
        for j, kd, n in history:
            flat = [x for p in parts for x in _plain([st[:2] for st in sts[:j]], p)]
            want = flat if kd == 0 else len(flat) if kd == 1 else flat[:n] if kd == 2 else (flat[0] if flat else 'StopIteration')
            try:
                nd = chain[j]
                got = (nd.collect() if kd == 0 else nd.count() if kd == 1 else nd.take(n) if kd == 2 else nd.first())
            except StopIteration:
                got = 'StopIteration'
            except Exception as e:  # pylint: disable=broad-except
                got = f'raised {type(e).__name__}'
            if got != want:
                yield ('fault-retry:result-differs-from-uncached',
                       'a task attempt failed once (transient fault, retried); with persist the action returns something else',
                       f'action {["collect", "count", "take", "first"][kd]}({n if kd == 2 else ""}) on node {j}: got {got!r}, '
                       f'fault-free uncached result {want!r}', case)
                break


class _Faulty:
    """A user function that raises on `bad` while `active` and `budget` (None = unlimited) lasts."""

    def __init__(self, f, bad, budget):
        self.f, self.bad, self.budget, self.active = f, bad, budget, True

    def __call__(self, x):
        if self.active and x == self.bad and (self.budget is None or self.budget > 0):
            if self.budget is not None:
                self.budget -= 1
            raise ValueError('fault')
        return self.f(x)


def _failed_job_checks(rng, tier):
    """Faults DOWNSTREAM of a persist mark, permanent (every retry: the job fails) or transient (the job
    succeeds on a retry), followed by later actions on the persisted node and on descendants.  Judged from the
    observed events alone: after an add() of (id of persisted node, k) was observed, no function of a node
    upstream of that node may be called for partition k again while the entry is alive (no unpersist, younger
    than the timeout) -- whatever happened to the job that computed it.  Local jobs only.  Oracle only."""
    _install()
    events = []
    orig_add = CacheManager.add

    def add_rec(self, ident, obj, storageLevel=None):
        events.append(('add', ident, CLOCK.t))
        return orig_add(self, ident, obj, storageLevel)
    CacheManager.add = add_rec
    try:
        for _ in range(150 if tier == 'quick' else 2500):
            del events[:]
            CLOCK.t = 0
            parts = [[rng.randint(-3, 6) for _ in range(rng.choice([1, 2, 3, 4]))] for _ in range(rng.choice([1, 2, 3]))]
            up = [(rng.choice([MAP, MAP, FILTER, FLAT]), rng.randrange(6)) for _ in range(rng.choice([1, 1, 2]))]
            mid = [(rng.choice([MAP, FILTER, FLAT]), rng.randrange(6)) for _ in range(rng.choice([0, 0, 1]))]
            tail = [(rng.choice([MAP, FILTER]), rng.randrange(6)) for _ in range(rng.choice([0, 1]))]
            fn_g = rng.randrange(6)
            sts = up + [(PERSIST, 0)] + mid + [('G', fn_g)] + tail
            if rng.random() < 0.4:
                sts.append((PERSIST, 1))
            gi = sts.index(('G', fn_g))                        # stage index of the faulty function; node gi + 1
            plain_sts = [(MAP, fn) if tag == 'G' else (tag, fn) for tag, fn in sts]
            g_inputs = [(k, x) for k, p in enumerate(parts) for x in _plain(plain_sts[:gi], p)]
            if not g_inputs:
                continue
            bad = rng.choice(g_inputs)[1]
            permanent = rng.random() < 0.6
            tmo = rng.choice([None, None, 6, 50])
            m = CacheManager() if tmo is None else TimedCacheManager(timeout=tmo)
            sc = Context(cache_manager=m)
            node = sc._parallelize_partitions([list(p) for p in parts])   # pylint: disable=protected-access
            chain, persisted, faulty = [node], [], None
            for n, (tag, fn) in enumerate(sts, 1):
                def rec(f, n=n):
                    def w(x):
                        events.append(('call', n, CUR['part']))
                        return f(x)
                    return w
                if tag == MAP:
                    node = node.map(rec(LIB_MAP[fn]))
                elif tag == FILTER:
                    node = node.filter(rec(LIB_FILTER[fn]))
                elif tag == FLAT:
                    node = node.flatMap(rec(LIB_FLAT[fn]))
                elif tag == 'G':
                    faulty = _Faulty(LIB_MAP[fn], bad, None if permanent else rng.choice([1, 2]))
                    node = node.map(faulty)
                else:
                    node = node.persist()
                    persisted.append(n)
                chain.append(node)
            ids = {chain[n].id(): n for n in persisted}
            history = []
            if rng.random() < 0.4:
                history.append(('act', rng.randint(1, gi), rng.choice([0, 2, 3]), rng.choice([1, 2])))
            history.append(('act', rng.randint(gi + 1, len(sts)), rng.choice([0, 0, 1, 2]), 50))   # the job that hits the fault
            for _ in range(rng.randint(1, 4)):
                x = rng.random()
                if x < 0.15 and tmo is not None:
                    history.append(('advance', rng.choice([1, 2, 3])))
                elif x < 0.3:
                    history.append(('heal',))
                elif x < 0.38:
                    history.append(('unpersist', rng.choice(persisted)))
                else:
                    history.append(('act', rng.randint(1, len(sts)), rng.choice([0, 0, 1, 2, 3]), rng.choice([1, 2, 3, 50])))
            case = ('failed-job', tmo, parts, sts, bad, 'permanent' if permanent else 'transient', history)
            alive = {}
            fail = None
            for h in history:
                start = len(events)
                if h[0] == 'advance':
                    CLOCK.t += h[1]
                    continue
                if h[0] == 'heal':
                    faulty.active = False
                    continue
                if h[0] == 'unpersist':
                    chain[h[1]].unpersist()
                    for key in [key for key in alive if key[0] == h[1]]:
                        del alive[key]
                    continue
                _, j, kd, n = h
                flat = [x for p in parts for x in _plain(plain_sts[:j], p)]
                want = flat if kd == 0 else len(flat) if kd == 1 else flat[:n] if kd == 2 else (flat[0] if flat else 'StopIteration')
                try:
                    nd = chain[j]
                    got = (nd.collect() if kd == 0 else nd.count() if kd == 1 else nd.take(n) if kd == 2 else nd.first())
                except StopIteration:
                    got = 'StopIteration'
                except ValueError:
                    got = 'fault'
                except Exception as e:  # pylint: disable=broad-except
                    got = f'raised {type(e).__name__}'
                if got != 'fault' and got != want:
                    fail = ('failed-job:result-differs-from-uncached', f'step {h}: got {got!r}, uncached fault-free result {want!r}')
                    break
                for ev in events[start:]:
                    if ev[0] == 'add':
                        if ev[1][0] in ids:
                            alive[(ids[ev[1][0]], ev[1][1])] = ev[2]
                        continue
                    _, stage_n, k = ev
                    for (pn, kk), t_add in alive.items():
                        # only actions on the persisted node or a descendant are judged (j >= pn)
                        if kk == k and stage_n < pn <= j and (tmo is None or CLOCK.t - t_add < tmo):
                            fail = ('failed-job:cached-partition-recomputed',
                                    f'step {h}: the entry of partition {k} of persisted node {pn} was added at {t_add} '
                                    f'(now {CLOCK.t}, timeout {tmo}), yet the function of node {stage_n} was called for '
                                    f'partition {k} again')
                            break
                    if fail:
                        break
                if fail:
                    break
            if fail:
                yield (fail[0], 'faults downstream of a persist mark', fail[1], case)
    finally:
        CacheManager.add = orig_add


def _api_identity_checks(rng, tier):
    """The real API transformations whose function depends on the task context / partition identity --
    zipWithUniqueId, mapPartitionsWithIndex, zipWithIndex, sample(seed), glom, coalesce, repartition -- UPSTREAM
    of persist marks (directly or after further map/filter steps, stacked marks, persisted children), on
    datasets with >= 2 partitions.  The statement itself: every action's result with the persist marks inserted
    equals the result of the same pipeline without any persist, on the cache-filling action and on every later
    one; the ids of zipWithUniqueId are pairwise distinct.  Oracle only (elements are tuples/lists; zipWithIndex
    and coalesce run jobs / change the partitioning and are outside the linear-pipeline model)."""
    _install()

    def build(sc, parts, steps, persist):
        node = sc._parallelize_partitions([list(p) for p in parts])   # pylint: disable=protected-access
        nodes = [node]
        for kind, arg, mark in steps:
            if kind == 'uid':
                node = node.zipWithUniqueId()
            elif kind == 'index':
                node = node.zipWithIndex()
            elif kind == 'mpwi':
                node = node.mapPartitionsWithIndex(lambda i, it: ((i, x) for x in it))
            elif kind == 'sample':
                node = node.sample(False, 0.6, seed=arg)
            elif kind == 'glom':
                node = node.glom()
            elif kind == 'coalesce':
                node = node.coalesce(arg)
            elif kind == 'repartition':
                node = node.repartition(arg)
            elif kind == 'map':
                node = node.map(lambda x: (x, 'm'))
            elif kind == 'filter':
                node = node.filter(lambda x: hash(repr(x)) % 5 != 0)
            for _ in range(mark if persist else 0):
                node = node.persist()
            nodes.append(node)
        return nodes

    def act(node, a):
        try:
            if a[0] == 'collect':
                return node.collect()
            if a[0] == 'count':
                return node.count()
            if a[0] == 'take':
                return node.take(a[1])
            return node.first()
        except StopIteration:
            return 'StopIteration'
        except Exception as e:  # pylint: disable=broad-except
            return f'raised {type(e).__name__}'

    for _ in range(120 if tier == 'quick' else 2000):
        CLOCK.t = 0
        parts = [[rng.randint(0, 9) for _ in range(rng.choice([0, 1, 2, 3, 4]))] for _ in range(rng.choice([2, 3, 4]))]
        steps = []
        for pos in range(rng.choice([1, 2, 3, 4])):
            kind = rng.choice(['uid', 'uid', 'uid', 'mpwi', 'mpwi', 'index', 'sample', 'glom', 'coalesce',
                               'repartition', 'map', 'filter', 'filter'])
            arg = rng.randint(0, 99) if kind == 'sample' else rng.choice([1, 2, 3])
            steps.append((kind, arg, rng.choice([0, 0, 1, 1, 2])))
        if not any(st[2] for st in steps):
            steps[-1] = steps[-1][:2] + (1,)
        if not any(st[0] in ('uid', 'mpwi', 'index', 'sample', 'glom', 'coalesce', 'repartition') for st in steps):
            steps[0] = ('uid', 1, steps[0][2])
        history = []
        for _ in range(rng.randint(2, 5)):
            history.append((rng.randint(1, len(steps)), rng.choice([('collect',), ('collect',), ('count',),
                                                                   ('take', rng.choice([1, 2, 5])), ('first',)])))
        tmo = rng.choice([None, None, 50])
        pool = rng.random() < 0.25
        case = ('api-identity', tmo, pool, parts, steps, history)

        def ctx():
            m = CacheManager() if tmo is None else TimedCacheManager(timeout=tmo)
            return Context(cache_manager=m, pool=SubmitAllPool() if pool else None)
        plain = build(ctx(), parts, steps, False)
        cached = build(ctx(), parts, steps, True)
        fail = None
        for t, (j, a) in enumerate(history):
            want, got = act(plain[j], a), act(cached[j], a)
            if got != want:
                fail = ('persist:result-differs-from-pipeline-without-persist',
                        f'step {t}: {a} on node {j} ({steps[j - 1][0]}): with persist {got!r}, without {want!r}')
                break
            if a[0] == 'collect' and steps[j - 1][0] == 'uid' and isinstance(got, list):
                uids = [p[1] for p in got]
                if len(set(uids)) != len(uids):
                    fail = ('zipWithUniqueId:duplicate-id', f'step {t}: ids {uids}')
                    break
        if fail:
            yield (fail[0], 'task-context / partition-identity dependent transformation upstream of persist()', fail[1], case)


# ---- (a) pools whose workers do NOT share objects with the driver -------------------------------------------------
_COUNT = {'calls': [], 'file': None}


def _counted_inc(x):
    """module-level (pickled by reference); counts in-process and, for process pools, through a file"""
    _COUNT['calls'].append(x)
    if _COUNT['file']:
        import os
        fd = os.open(_COUNT['file'], os.O_WRONLY | os.O_APPEND | os.O_CREAT)
        os.write(fd, b'%d\n' % x)
        os.close(fd)
    return x + 1


def _times_ten(x):
    return x * 10


def _ncalls():
    import os
    return len(_call_values())


def _call_values():
    import os
    if _COUNT['file']:
        if not os.path.exists(_COUNT['file']):
            return []
        return [int(l) for l in open(_COUNT['file']).read().split()]
    return list(_COUNT['calls'])


_FAULT = {'bad': frozenset(), 'flag': None}


def _flaky_times_ten(x):
    """module-level; raises on the chosen elements while the flag file exists (armed), also in forked workers"""
    import os
    if x in _FAULT['bad'] and _FAULT['flag'] and os.path.exists(_FAULT['flag']):
        raise ValueError('fault')
    return x * 10


def _pool_failed_job_checks(rng, tier, workdir):
    """A job on a real pool over q = p.map(g), p persisted, that fails for good in a LATER partition (g raises on
    every attempt), after earlier partitions were computed and delivered; then the fault is disarmed and further
    actions run on p and q.  Exact per-element call counts of the upstream function over the whole history: every
    element of a partition delivered before the failing one is computed exactly once (its entry reached the
    driver's manager although the job raised).  Backends whose map() yields results in order as they arrive
    (ThreadPoolExecutor with identity or pickling serializers, ProcessPoolExecutor); plain/timed; failing partition
    last/middle.  Partitions at or after the failing one are not judged (their results never reached the driver).
    Oracle only."""
    import collections
    import multiprocessing
    import os
    import pickle
    from concurrent.futures import ProcessPoolExecutor, ThreadPoolExecutor
    import cloudpickle
    _install()
    combos = [(b, where, tmo) for b in ('thread', 'thread+pickle', 'process') for where in ('last', 'middle')
              for tmo in (None, 50)]
    if tier == 'quick':
        combos = [c for c in combos if c[0] != 'process' or c[2] is None]
    else:
        combos = combos * 3
    for n_sc, (backend, where, tmo) in enumerate(combos):
        CLOCK.t = 0
        nparts = rng.choice([3, 4])
        parts = [[100 * k + j for j in range(rng.choice([1, 2, 3]))] for k in range(nparts)]
        kfail = nparts - 1 if where == 'last' else rng.randint(1, nparts - 2)
        _COUNT['calls'] = []
        _COUNT['file'] = os.path.join(workdir, f'pf_calls_{n_sc}') if backend == 'process' else None
        _FAULT['bad'] = frozenset(x + 1 for x in parts[kfail][:1])          # g sees f's outputs
        _FAULT['flag'] = os.path.join(workdir, f'pf_flag_{n_sc}')
        open(_FAULT['flag'], 'w').close()                                   # armed
        m = CacheManager() if tmo is None else TimedCacheManager(timeout=tmo)
        if backend == 'process':
            pool = ProcessPoolExecutor(2, mp_context=multiprocessing.get_context('fork'))
        else:
            pool = ThreadPoolExecutor(2)
        try:
            kw = {} if backend == 'thread' else {'serializer': cloudpickle.dumps, 'deserializer': pickle.loads}
            sc = Context(pool=pool, cache_manager=m, **kw)
            p = sc._parallelize_partitions([list(x) for x in parts]).map(_counted_inc).persist(   # pylint: disable=protected-access
                rng.choice([None] + STORAGE_LEVELS))
            q = p.map(_flaky_times_ten)
            want_p = [x + 1 for part in parts for x in part]
            want_q = [x * 10 for x in want_p]
            case = ('pool-failed-job', backend, where, tmo, parts, kfail)
            fail = None
            try:
                r = q.collect() if rng.random() < 0.7 else q.count()
                fail = ('pool-failed-job:fault-not-raised', f'the armed job returned {r!r}')
            except ValueError:
                pass
            except Exception as e:  # pylint: disable=broad-except
                fail = ('pool-failed-job:unexpected-exception', type(e).__name__)
            if not fail:
                os.remove(_FAULT['flag'])                                   # disarmed
                later = [rng.choice([('p', 'collect'), ('q', 'collect')]), ('q', 'collect'), ('p', 'count')]
                for which, a in later:
                    node, want = (p, want_p) if which == 'p' else (q, want_q)
                    try:
                        got = node.collect() if a == 'collect' else node.count()
                    except Exception as e:  # pylint: disable=broad-except
                        got = f'raised {type(e).__name__}'
                    if got != (want if a == 'collect' else len(want)):
                        fail = ('pool-failed-job:result-differs-from-uncached', f'{which}.{a} after the failed job: {got!r}')
                        break
            if not fail:
                counts = collections.Counter(_call_values())
                delivered = [x for part in parts[:kfail] for x in part]
                twice = {x: counts[x] for x in delivered if counts[x] != 1}
                missing = [x for part in parts for x in part if counts[x] < 1]
                if twice or missing:
                    fail = ('pool-failed-job:delivered-partition-recomputed',
                            f'the job failed in partition {kfail} of {nparts}; elements of the partitions delivered before it '
                            f'were passed to the upstream function {twice} times (expected once each); never computed: {missing}')
            if fail:
                yield (fail[0], 'a pool job over a descendant of a persisted dataset fails for good in a later partition',
                       fail[1], case)
        finally:
            pool.shutdown()
            if os.path.exists(_FAULT['flag']):
                os.remove(_FAULT['flag'])
    _COUNT['file'] = None
    _FAULT['flag'] = None


def _nonsharing_pool_checks(rng, tier, workdir):
    """unpersist() after the partitions were computed by pool workers that do not share objects with the driver
    (thread pool / in-order pool with pickling serializers; a real process pool): backend x which actions
    materialised the dataset (pool actions only / pool + a local partial action) x unpersist point.  Afterwards the
    driver's manager holds no entry of the dataset and a later action on the persisted object or a descendant
    recomputes; before unpersist nothing is recomputed.  Oracle only."""
    import multiprocessing
    import os
    import pickle
    from concurrent.futures import ThreadPoolExecutor
    _install()
    backends = ['thread+pickle', 'inorder+pickle'] * (3 if tier == 'quick' else 12) + ['process'] * (2 if tier == 'quick' else 8)
    for n_sc, backend in enumerate(backends):
        CLOCK.t = 0
        _COUNT['calls'] = []
        _COUNT['file'] = os.path.join(workdir, f'calls_{n_sc}') if backend == 'process' else None
        parts = [[rng.randint(0, 9) for _ in range(rng.choice([1, 2, 3]))] for _ in range(rng.choice([2, 3, 4]))]
        n = sum(len(p) for p in parts)
        tmo = rng.choice([None, 50])
        m = CacheManager() if tmo is None else TimedCacheManager(timeout=tmo)
        if backend == 'process':
            pool = multiprocessing.get_context('fork').Pool(2)
        elif backend == 'thread+pickle':
            pool = ThreadPoolExecutor(2)
        else:
            pool = SubmitAllPool()
        try:
            # (func, rdd) and the task context travel pickled: the workers get COPIES of the dataset objects
            import cloudpickle
            sc = Context(pool=pool, cache_manager=m, serializer=cloudpickle.dumps, deserializer=pickle.loads)
            p = sc._parallelize_partitions([list(x) for x in parts]).map(_counted_inc).persist(
                rng.choice([None] + STORAGE_LEVELS))   # pylint: disable=protected-access
            q = p.map(_times_ten)
            want_p = [x + 1 for part in parts for x in part]
            want_q = [x * 10 for x in want_p]
            materialise = rng.choice(['pool-only', 'pool-only', 'pool+local'])
            history = [rng.choice([('p', 'collect'), ('q', 'collect'), ('q', 'count')])]
            if materialise == 'pool+local':
                history.insert(rng.randrange(2), (rng.choice('pq'), rng.choice(['first', 'take2'])))
            if rng.random() < 0.5:
                history.append(rng.choice([('p', 'collect'), ('q', 'collect')]))
            history.append(('p', 'unpersist'))
            history += [rng.choice([('p', 'collect'), ('q', 'collect')]), rng.choice([('p', 'collect'), ('q', 'count')])]
            case = ('nonsharing-pool', backend, tmo, parts, history)
            fail = None
            full = False             # every partition computed and not unpersisted since
            for t, (which, a) in enumerate(history):
                node = p if which == 'p' else q
                before = _ncalls()
                if a == 'unpersist':
                    ret = node.unpersist()
                    left = [k for k in m.cache_obj if k[0] == p.id()]
                    if left:
                        fail = ('unpersist:entry-left-behind', f'step {t}: after unpersist() the driver\'s manager still holds {left}')
                        break
                    if ret.collect() != want_p:
                        fail = ('unpersist:contents-differ', f'step {t}')
                        break
                    full = False
                    continue
                want = want_p if which == 'p' else want_q
                got = (node.collect() if a == 'collect' else node.count() if a == 'count'
                       else [node.first()] if a == 'first' else node.take(2))
                exp = (want if a == 'collect' else len(want) if a == 'count' else want[:1] if a == 'first' else want[:2])
                if got != exp:
                    fail = ('nonsharing-pool:result-differs-from-uncached', f'step {t} {which}.{a}: got {got!r}, expected {exp!r}')
                    break
                delta = _ncalls() - before
                if full and delta:
                    fail = ('nonsharing-pool:cached-partition-recomputed',
                            f'step {t} {which}.{a}: every partition was cached, {delta} upstream calls happened')
                    break
                if a in ('collect', 'count'):
                    if not full and t > 0 and history[t - 1][1] == 'unpersist' and delta != n:
                        fail = ('unpersist:stale-entries-served',
                                f'step {t} {which}.{a}: first full action after unpersist() made {delta} upstream calls, '
                                f'recomputation needs {n}')
                        break
                    full = True
            if fail:
                yield (fail[0], 'pool whose workers do not share objects with the driver', fail[1], case)
        finally:
            if backend == 'process':
                pool.terminate()
                pool.join()
            elif backend == 'thread+pickle':
                pool.shutdown()
    _COUNT['file'] = None


# ---- (b) interleavings inside one job on a thread pool sharing the PersistedRDD object ---------------------------
class FinishOrderPool:
    """pool.map over threads: every task runs in its own thread, tasks ENTER in partition order and FINISH in the
    given order.  The gates are events (no sleeps): task k is started once task k-1 has reached the user function
    (or has finished); the user function of task k blocks until the task before it in the finish order is done."""

    def __init__(self, finish_order):
        import threading
        self.order = list(finish_order)
        n = len(self.order)
        self.started = [threading.Event() for _ in range(n)]
        self.done = [threading.Event() for _ in range(n)]
        self.local = threading.local()

    def reset(self):
        for e in self.started + self.done:
            e.clear()

    def gate(self):
        """called by the upstream user function: blocks until it is this task's turn to finish"""
        k = getattr(self.local, 'k', None)
        if k is None or k >= len(self.order):
            return
        self.started[k].set()
        pos = self.order.index(k)
        if pos > 0:
            self.done[self.order[pos - 1]].wait(5)

    def map(self, func, iterable):
        import threading
        items = list(iterable)
        self.reset()
        results = [None] * len(items)
        errors = []

        def run(k, item):
            self.local.k = k
            try:
                results[k] = func(item)
            except Exception as e:  # pylint: disable=broad-except
                errors.append(e)
            finally:
                if k < len(self.done):
                    self.started[k].set()
                    self.done[k].set()
        threads = []
        for k, item in enumerate(items):
            th = threading.Thread(target=run, args=(k, item))
            th.start()
            threads.append(th)
            if k < len(self.started):
                self.started[k].wait(5)
        for th in threads:
            th.join(30)
        if errors:
            raise errors[0]
        return results


def _interleaving_checks(rng, tier):
    """One job on a thread pool with identity serializers (all tasks share the PersistedRDD object), tasks
    entering compute() in partition order and finishing in every other order: after the job every partition's
    entry is in the driver's manager and the next action calls no upstream function.  Oracle only."""
    import itertools as it
    import threading
    _install()
    orders = [list(o) for o in it.permutations(range(3))]
    orders += [list(o) for o in (rng.sample(list(it.permutations(range(4))), 4 if tier == 'quick' else 24))]
    for order in orders:
        for tmo in ([None] if tier == 'quick' and len(order) == 4 else [None, 50]):
            CLOCK.t = 0
            nparts = len(order)
            parts = [[100 * k + j for j in range(rng.choice([1, 2, 3]))] for k in range(nparts)]
            n = sum(len(p) for p in parts)
            pool = FinishOrderPool(order)
            calls = []
            lock = threading.Lock()

            def f(x, pool=pool, calls=calls, lock=lock):
                pool.gate()
                with lock:
                    calls.append(x)
                return x + 1
            m = CacheManager() if tmo is None else TimedCacheManager(timeout=tmo)
            sc = Context(pool=pool, cache_manager=m)
            p = sc._parallelize_partitions([list(x) for x in parts]).map(f).persist()   # pylint: disable=protected-access
            q = p.map(lambda x: x * 10)
            want_p = [x + 1 for part in parts for x in part]
            first = rng.choice(['p', 'q'])
            case = ('interleaving', order, tmo, parts, first)
            r1 = (p if first == 'p' else q).collect()
            c1 = len(calls)
            keys = sorted(k for k in m.cache_obj if k[0] == p.id())
            fail = None
            if r1 != (want_p if first == 'p' else [x * 10 for x in want_p]) or c1 != n:
                fail = ('interleaving:result-differs-from-uncached', f'first collect on {first}: {r1!r}, {c1} calls for {n} elements')
            elif keys != [(p.id(), k) for k in range(nparts)]:
                fail = ('interleaving:entry-missing-after-job',
                        f'tasks finished in order {order}: the driver\'s manager holds {keys} of {nparts} partitions')
            else:
                r2, r3 = q.collect(), p.count()
                if r2 != [x * 10 for x in want_p] or r3 != n:
                    fail = ('interleaving:result-differs-from-uncached', f'later actions: {r2!r} {r3!r}')
                elif len(calls) != c1:
                    fail = ('interleaving:cached-partition-recomputed',
                            f'tasks finished in order {order}: later actions made {len(calls) - c1} upstream calls')
                else:
                    p.unpersist()
                    if [k for k in m.cache_obj if k[0] == p.id()]:
                        fail = ('unpersist:entry-left-behind', f'after the job with finish order {order}')
            if fail:
                yield (fail[0], 'tasks of one job sharing the PersistedRDD object, finishing out of order', fail[1], case)


def _adjacent_cases():
    """Directly adjacent persist marks (q = p.persist() with p already persisted): same level, different levels,
    cache() on a persisted dataset, three in a row; an action fills the cache, q.unpersist(), then actions on p, on
    q (still usable), on the returned dataset and on a descendant; also unpersist of p with q kept."""
    out = []
    pairs = [(0, 0), (1, 1), (0, 1), (1, 0)] + [(v, v) for v in range(2, N_PERSIST)] + \
            [(v, (v + 1) % N_PERSIST) for v in range(N_PERSIST)] + [(v, 1) for v in range(2, N_PERSIST)]
    parts = [[1, 2], [3], [4, 5]]
    for a, b in pairs:
        for managers, contexts in (([None], [(0, False)]), ([50], [(0, False)]), ([None], [(0, True)])):
            sts = [(MAP, 0), (PERSIST, a), (PERSIST, b), (MAP, 1)]
            # nodes: 1 map, 2 p, 3 q, 4 descendant
            out.append((managers, contexts, [(0, parts, sts)],
                        [(0, 0, 3, 0, 0), (1, 0, 3), (0, 0, 2, 0, 0), (0, 0, 4, 0, 0), (0, 0, 3, 1, 0), (0, 0, 2, 2, 2)]))
            out.append((managers, contexts, [(0, parts, sts)],
                        [(0, 0, 4, 3, 0), (0, 0, 4, 0, 0), (1, 0, 2), (0, 0, 3, 0, 0), (0, 0, 4, 0, 0), (1, 0, 3), (0, 0, 2, 0, 0)]))
        out.append(([None], [(0, False)], [(0, parts, [(PERSIST, a), (PERSIST, b), (PERSIST, a), (MAP, 0)])],
                    [(0, 0, 4, 0, 0), (1, 0, 2), (0, 0, 1, 0, 0), (0, 0, 3, 0, 0), (1, 0, 3), (0, 0, 4, 0, 0)]))
    return out


def _hole_cases():
    """Case-protocol histories that leave HOLES in front of present entries when unpersist() runs: timed manager,
    take() computes the first h partitions at time 0, a collect the others at time 3, gc at time 6 (timeout 5)
    expires only the earlier ones.  Every partition count 2..4 and every hole prefix length."""
    out = []
    for nparts in (2, 3, 4):
        for h in range(1, nparts):
            parts = [[10 * k + 1, 10 * k + 2] for k in range(nparts)]
            for pool in (False, True):
                out.append(([5], [(0, pool)], [(0, parts, [(MAP, 0), (PERSIST, 0), (MAP, 1)])],
                            [(0, 0, 2, 2, 2 * h), (2, 3), (0, 0, 2, 0, 0), (2, 3), (3, 0), (1, 0, 2),
                             (0, 0, 2, 0, 0), (0, 0, 3, 0, 0)]))
    return out


def _unpersist_hole_checks():
    """Cache states with holes at the moment of unpersist(): for 2..4 partitions and EVERY subset of partitions
    that have an entry (all hole patterns, in particular every non-prefix subset), produced by
      'runjob'  Context.runJob(p, f, partitions=[only those]),
      'delete'  a full collect, then CacheManager.delete of the others,
      'gc'      TimedCacheManager: the others computed at time 0, those at time 3, gc() at time 6 (timeout 5);
    afterwards the manager holds no entry of the dataset and the next action recomputes every partition (exactly
    one upstream call per element).  Deterministic and exhaustive, the same in both tiers.  Oracle only."""
    import itertools as it
    _install()
    for nparts in (2, 3, 4):
        parts = [[10 * k + j for j in range(1 + k % 2)] for k in range(nparts)]
        n = sum(len(x) for x in parts)
        want = [x + 1 for part in parts for x in part]
        for r in range(1, nparts + 1):
            for present in it.combinations(range(nparts), r):
                for how in ('runjob', 'runjob-timed', 'delete', 'delete-timed', 'gc'):
                    CLOCK.t = 0
                    calls = []

                    def f(x, calls=calls):
                        calls.append(x)
                        return x + 1
                    timed = how in ('runjob-timed', 'delete-timed', 'gc')
                    m = TimedCacheManager(timeout=5 if how == 'gc' else 50) if timed else CacheManager()
                    sc = Context(cache_manager=m)
                    p = sc._parallelize_partitions([list(x) for x in parts]).map(f).persist()   # pylint: disable=protected-access
                    q = p.map(lambda x: x * 10)
                    ps = p.partitions()
                    force = lambda tc, i: list(i)     # noqa: E731
                    if how.startswith('runjob'):
                        sc.runJob(q, force, partitions=[ps[k] for k in present])
                    elif how.startswith('delete'):
                        p.collect()
                        for k in range(nparts):
                            if k not in present:
                                m.delete((p.id(), k))
                    else:
                        others = [ps[k] for k in range(nparts) if k not in present]
                        if others:
                            sc.runJob(p, force, partitions=others)
                        CLOCK.t = 3
                        sc.runJob(p, force, partitions=[ps[k] for k in present])
                        CLOCK.t = 6
                        m.gc()
                    case = ('unpersist-holes', nparts, list(present), how)
                    have = sorted(k[1] for k in m.cache_obj if k[0] == p.id())
                    if have != list(present):
                        yield ('unpersist-holes:setup', 'the hole pattern could not be produced',
                               f'wanted entries for {list(present)}, manager has {have}', case)
                        continue
                    ret = p.unpersist()
                    left = sorted(k for k in m.cache_obj if k[0] == p.id())
                    if left:
                        yield ('unpersist:entry-left-behind', 'cache state with holes at the moment of unpersist()',
                               f'{nparts} partitions, entries for {list(present)} ({how}): after unpersist() {left} remain', case)
                        continue
                    before = len(calls)
                    got = rng_free_choice(p, q, len(present))
                    exp = want if got[0] == 'p' else [x * 10 for x in want]
                    if got[1] != exp or len(calls) - before != n:
                        yield ('unpersist:stale-entries-served', 'cache state with holes at the moment of unpersist()',
                               f'{nparts} partitions, entries for {list(present)} ({how}): the next collect on {got[0]} gave '
                               f'{got[1]!r} with {len(calls) - before} upstream calls (recomputation needs {n})', case)
                        continue
                    if ret.collect() != want:
                        yield ('unpersist:contents-differ', 'cache state with holes', '', case)


def rng_free_choice(p, q, r):
    """alternate deterministically between the persisted node and its descendant"""
    return ('p', p.collect()) if r % 2 else ('q', q.collect())


def _source_iterator_check():
    """Regression case (finding of this check, repaired in /repo: RDD.compute used to hand the partition LIST to
    a partition function applied directly to a parallelized source): persist() inserted between the source and
    mapPartitions must not change the result."""
    for k, pf in enumerate(LIB_PART):
        for parts in ([[1, 2, 3, 4], [5, 6, 7]], [[2], [3, 4]]):
            outs = []
            for persist in (False, True):
                sc = Context()
                node = sc._parallelize_partitions([list(p) for p in parts])   # pylint: disable=protected-access
                if persist:
                    node = node.persist()
                try:
                    outs.append(node.mapPartitions(pf).collect())
                except Exception as e:  # pylint: disable=broad-except
                    outs.append(f'raised {type(e).__name__}')
            if outs[0] != outs[1]:
                yield ('RDD.compute:partition-function-directly-on-source-sees-list-not-iterator',
                       'persist() inserted between a parallelized source and mapPartitions changes the result',
                       f'partition function {pf.__name__} on {parts}: without persist {outs[0]!r}, with persist {outs[1]!r}',
                       ('source-iterator', k, parts))
                return


def shrink_candidates(case):
    managers, contexts, pipelines, history = case
    for t in range(len(history)):
        yield (managers, contexts, pipelines, history[:t] + history[t + 1:])
    for k, (cx, parts, stages) in enumerate(pipelines):
        for i in range(len(parts)):
            if parts[i]:
                for e in range(len(parts[i])):
                    np_ = [list(p) for p in parts]
                    del np_[i][e]
                    yield (managers, contexts, pipelines[:k] + [(cx, np_, stages)] + pipelines[k + 1:], history)
