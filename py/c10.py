"""C10 -- each stream batch is processed exactly once; per-batch ops equal RDD ops.

case = (program, history)
  program = list of API calls (opcode, args...); stream arguments are handles = positions of earlier
            calls; user functions are tags into the library below (the same functions exist in
            coq/Run/C10_run.v)
  history = list of (t, [(handle_of_file_source, [(name, [lines])...])...]) : the virtual time of each
            firing of the periodic callback and what the monitored directories contain then

The implementation side builds the streams with the real API on a real StreamingContext, calls the
real ssc.start() under py/vclock.py and fires the captured callback once per history entry.  It
reports the structure of ssc._dstreams, and per tick: the sequence of source get() calls and node
function calls (with what every foreachRDD action received), and (_current_time, _current_rdd) of
every registered node."""
import functools
import itertools
import os
import shutil
import tempfile

import pysparkling
from pysparkling.rdd import EmptyRDD
from pysparkling.streaming import StreamingContext

from common.coqlit import Err
from vclock import VirtualClock

ID = 'C10'
KERNELS = ['Gen/DStreamStep.v: step_guard_DStream', 'Gen/DStreamStep.v: step_guard_TransformedDStream',
           'Gen/DStreamStep.v: step_guard_TransformedWithDStream', 'Gen/DStreamStep.v: step_guard_CogroupedDStream',
           'Gen/DStreamStep.v: queue_get_branch', 'Gen/Parallelize.v: par_take', 'Gen/Parallelize.v: par_single']
SHARD = 40
VERIF = os.environ.get('VERIF_ROOT', '/verif')

RULE = ('cases (program, history): typed random stream DAGs (1-3 queue/file sources, up to 12 API calls, depth <= 4 '
        'above a source, diamonds re-joined by union/join/outer joins/cogroup/transformWith, 1-3 foreachRDD actions) x '
        'histories of 1-6 callback firings (batches of 0-3 elements, queue shorter/longer than the history, '
        'oneAtATime both ways, default batch or None, occasional repeated timestamp, files appearing between ticks); '
        'plus a systematic family: every op on a source, every ordered op pair, every diamond combiner, each under '
        '3 fixed histories; plus harness-driven stepping orders (the harness calls _step on the registered nodes in a '
        'prescribed sequence instead of firing the callback; correspondence only) and programs with a transform function '
        'returning None (children take the early return of TransformedDStream._step; correspondence only); graph '
        'construction interleaved with ticks (2-3 registration phases: sources, branches, joins with existing branches and '
        'actions registered after start(), judged from the next interval on); queues with None entries (alone, first, '
        'last, consecutive) x every default, oneAtATime=True; non-trivial = at least one tick delivers a non-empty batch to a node below a source; '
        'distinct by canonical JSON of the case')
ASSUMPTIONS = [
    'user functions are pure, total on the element type they are applied to and (for reduce/reduceByKey) commutative '
    'and associative; keys are ints; generated programs are well typed',
    'observed RDD contents are compared as multisets (canonical deep sort; the [self, other] lists of cogroup stay positional)',
    'tick times are integral floats, non-decreasing; a repeated timestamp is not a new interval',
    'a None entry is only queued with oneAtATime=True (with oneAtATime=False the comprehension in QueueStream.get raises '
    'TypeError on it, on the unchanged code as well)',
    'files are immutable once they appear and are never removed; file names contain no comma or wildcard',
    'WindowedDStream / StatefulDStream (C11), cache(), pprint(), saveAsTextFiles(), TCP sources are not modelled',
]
TRUSTED = ['py/vclock.py: PeriodicCallback and time of pysparkling.streaming.context replaced from outside; '
           'node functions and stream get() wrapped on the instances for logging',
           'Python set iteration order in RDD.cogroup is abstracted (multiset comparison)']

# ---------------------------------------------------------------- opcodes
QUEUE, FILE, MAP, FLATMAP, FILTER, MAPVALUES, FLATMAPVALUES, REDUCEBYKEY, GROUPBYKEY, COUNT, COUNTBYVALUE, REDUCE, \
    UNION, COGROUPED, TRANSFORM, REPARTITION, SLICE, FOREACH, MAPPARTITIONS, MAPPARTITIONSWITHINDEX, TRANSFORMWITH = range(21)
OPNAMES = ['queueStream', 'textFileStream', 'map', 'flatMap', 'filter', 'mapValues', 'flatMapValues', 'reduceByKey',
           'groupByKey', 'count', 'countByValue', 'reduce', 'union', 'cogrouped', 'transform', 'repartition', 'slice',
           'foreachRDD', 'mapPartitions', 'mapPartitionsWithIndex', 'transformWith']
CGOPS = ['cogroup', 'join', 'leftOuterJoin', 'rightOuterJoin', 'fullOuterJoin']


def _z(v):
    return 0 if v is None else v


EFUN = {
    0: lambda v: v,
    1: lambda x: x + 1,
    2: lambda x: 2 * x,
    3: lambda x: -x,
    4: lambda x: (x % 2, x),
    5: lambda x: (x % 3, x),
    6: lambda e: e[1],
    7: lambda e: e[0] + e[1],
    8: int,
    9: lambda e: (e[1], e[0]),
    20: len,
    21: sum,
    22: lambda v: _z(v[0]) + _z(v[1]),
    23: lambda v: len(v[0]) + len(v[1]),
}
GFUN = {
    0: lambda v: [v, v],
    1: lambda x: range(x % 3),
    2: lambda v: [],
    3: lambda x: [(x % 2, x), (x % 3, x + 1)],
    4: lambda v: v,
}
PFUN = {
    0: lambda v: True,
    1: lambda v: False,
    2: lambda x: x % 2 == 0,
    3: lambda x: x > 0,
    4: lambda e: e[0] == 0,
    5: lambda e: e[1] % 2 == 0,
}
OPFUN = {0: lambda a, b: a + b, 1: max, 2: min}
OPFUN[1] = lambda a, b: max(a, b)
OPFUN[2] = lambda a, b: min(a, b)
# neither associative nor commutative: bracketing and order of the RDD operation matter
OPFUN[3] = lambda a, b: a - b
OPFUN[4] = lambda a, b: (a + b) // 2
OPFUN[5] = lambda a, b: a
OPFUN[6] = lambda a, b: b
OPFUN[7] = lambda a, b: 2 * a - b
NONASSOC = (3, 4, 5, 6, 7)
TFUN = {
    0: lambda rdd: rdd,
    1: lambda t, rdd: rdd,
    2: lambda rdd: rdd.map(EFUN[1]),
    3: lambda rdd: rdd.filter(PFUN[2]),
    4: lambda rdd: rdd.filter(PFUN[3]).map(EFUN[2]),
    5: lambda t, rdd: rdd.map(lambda x: x + int(t)),
    6: lambda rdd: None,
}


# the same functions with other signatures: transform() decides by func.__code__.co_argcount == 1
def _t7(rdd, *, n=1):
    return rdd.map(lambda x: x + n)


def _t8(rdd, *more):
    assert not more
    return rdd.filter(PFUN[2])


def _t9(rdd, **kw):
    assert not kw
    return rdd


def _t10(rdd, n=2):
    # two positional parameters: called as (time, rdd); the RDD arrives in the second one
    return n


class _Shift:
    def m(self, t, rdd):
        return rdd.map(lambda x: x + int(t))


TFUN.update({7: _t7, 8: _t8, 9: _t9, 10: _t10, 11: _Shift().m})

PPFUN = {
    0: lambda p: p,
    1: lambda p: [sum(p)],
    2: lambda p: reversed(list(p)),
}
PIFUN = {
    0: lambda i, p: ((i, v) for v in p),
    1: lambda i, p: [i],
}


def _tw0(sc):
    return lambda a, b: sc.union((b, a))


# ---------------------------------------------------------------- canonical form of contents
def _key(v):
    if v is None:
        return (0,)
    if isinstance(v, bool):
        return (1, int(v))
    if isinstance(v, int):
        return (2, v)
    if isinstance(v, str):
        return (4, tuple(ord(c) for c in v))
    if isinstance(v, tuple):
        return (5, tuple(_key(x) for x in v))
    if isinstance(v, list):
        return (6, tuple(_key(x) for x in v))
    raise TypeError(f'no canonical key for {type(v)}')


def canon_elem(v):
    if isinstance(v, tuple):
        return tuple(canon_elem(x) for x in v)
    if isinstance(v, list):
        l = [canon_elem(x) for x in v]
        if l and all(isinstance(x, list) for x in l):
            return l
        return sorted(l, key=_key)
    return v


def canon_contents(xs):
    return sorted((canon_elem(x) for x in xs), key=_key)


def exact_contents(xs):
    """Collect order, untouched (lists of the elements themselves)."""
    return [_plain(x) for x in xs]


def _plain(v):
    if isinstance(v, tuple):
        return tuple(_plain(x) for x in v)
    if isinstance(v, list):
        return [_plain(x) for x in v]
    return v


def ordered_flags(prog):
    """ordered[k]: the order of the stream returned by call k is determined by the RDD operations: neither the
    call nor one of its ancestors is a cogroup / fullOuterJoin (whose key order is that of a Python set)."""
    out = []
    for c in prog:
        if c[0] in (QUEUE, FILE):
            out.append(True)
            continue
        args = [c[1]] + ([c[2]] if c[0] in (UNION, COGROUPED, TRANSFORMWITH) else [])
        setorder = c[0] == COGROUPED and c[3] in (0, 4)
        out.append(not setorder and all(a < len(out) and out[a] for a in args))
    return out


# kinds of iterables a batch / the default / the queue can be handed over as (presentation only: the elements
# are the same); RDDs are described by their number of partitions
K_LIST, K_TUPLE, K_GEN, K_ITER, K_MAP, K_ZIP, K_DEQUE, K_RANGE = range(8)
KIND_NAMES = ['list', 'tuple', 'generator', 'iterator', 'map object', 'zip', 'deque', 'range']


def present(elems, kind):
    elems = list(elems)
    if kind == K_TUPLE:
        return tuple(elems)
    if kind == K_GEN:
        return (x for x in elems)
    if kind == K_ITER:
        return iter(elems)
    if kind == K_MAP:
        return map(lambda x: x, elems)
    if kind == K_ZIP and elems and all(isinstance(x, tuple) and len(x) == 2 for x in elems):
        return zip([x[0] for x in elems], [x[1] for x in elems])
    if kind == K_DEQUE:
        import collections
        return collections.deque(elems)
    if kind == K_RANGE and elems and all(isinstance(x, int) for x in elems) and \
            elems == list(range(elems[0], elems[0] + len(elems))):
        return range(elems[0], elems[0] + len(elems))
    return elems


# ---------------------------------------------------------------- implementation side
class _Run:
    def __init__(self, case):
        self.prog, self.hist = case[0], case[1]
        # optional clock: (tenths, start): batch duration tenths/10 s, tick k happens at start + d + d + ... (k times,
        # accumulated in floating point, e.g. 0.7999999999999999); the history then lists the tick NUMBERS
        self.clock = case[2] if len(case) > 2 else None
        self.ftime = {}
        if self.clock:
            d, t = self.clock[0] / 10.0, float(self.clock[1])
            for k in range(1, 200):
                t += d
                self.ftime[k] = t
        self.events = []
        self.sink_nodes = {}
        self.dirs = {}
        self.instrumented = 0
        self.final = False
        self.tnow = 0
        self.exact = set()

    def tick_of(self, x):
        """The tick number a time value stands for (identity for the integral clock; for the fractional clock
        the nearest grid point, so that a time merely re-aligned to the grid still names its own interval)."""
        if not self.clock:
            return int(x) if x == int(x) else x
        if x == 0:
            return 0
        return int(round((x - self.clock[1]) / (self.clock[0] / 10.0)))

    def now_time(self):
        return self.ftime[self.tnow] if self.clock else self.tnow

    def index_of(self, ssc, d):
        for i, x in enumerate(ssc._dstreams):
            if x is d:
                return i
        return -1

    def build(self, sc, ssc, base, calls, handles):
        """Make the given calls now (handles of earlier calls in `handles`, extended in place)."""
        for call in calls:
            h = len(handles)
            op = call[0]
            s = handles[call[1]] if op not in (QUEUE, FILE) else None
            if op == QUEUE:
                _, batches, one, default = call[:4]
                eparts, dpart, (ckind, ekinds, dkind, mut) = call[4] if len(call) > 4 else \
                    ([0] * len(batches), 0, (K_LIST, [K_LIST] * len(batches), K_LIST, 0))
                entries = []
                for b, k, kd in zip(batches, eparts, ekinds):
                    entries.append(None if b is None else sc.parallelize(list(b), k) if k else present(b, kd))
                dobj = None if default is None else sc.parallelize(list(default), dpart) if dpart else present(default, dkind)
                container = present(entries, ckind) if ckind in (K_LIST, K_TUPLE, K_GEN, K_ITER, K_DEQUE) else entries
                r = ssc.queueStream(container, oneAtATime=one, default=dobj)
                # the caller goes on using its own object after queueStream() returned
                if mut == 1 and isinstance(dobj, list):
                    dobj.append(dobj[0] if dobj else 0)
                elif mut == 2 and isinstance(dobj, list):
                    dobj.clear()
            elif op == FILE:
                _, done0, pre = call
                d = os.path.join(base, f'src{h}')
                os.makedirs(d)
                self.dirs[h] = d
                for name, lines in pre:
                    _write(d, name, lines)
                r = ssc.textFileStream(os.path.join(d, '*'), process_all=bool(pre) and not done0)
            elif op == MAP:
                r = s.map(EFUN[call[2]])
            elif op == FLATMAP:
                r = s.flatMap(GFUN[call[2]])
            elif op == FILTER:
                r = s.filter(PFUN[call[2]])
            elif op == MAPVALUES:
                r = s.mapValues(EFUN[call[2]])
            elif op == FLATMAPVALUES:
                r = s.flatMapValues(GFUN[call[2]])
            elif op == REDUCEBYKEY:
                r = s.reduceByKey(OPFUN[call[2]])
            elif op == GROUPBYKEY:
                r = s.groupByKey()
            elif op == COUNT:
                r = s.count()
            elif op == COUNTBYVALUE:
                r = s.countByValue()
            elif op == REDUCE:
                r = s.reduce(OPFUN[call[2]])
            elif op == UNION:
                r = s.union(handles[call[2]])
            elif op == COGROUPED:
                r = getattr(s, CGOPS[call[3]])(handles[call[2]], call[4])
            elif op == TRANSFORM:
                r = s.transform(TFUN[call[2]])
            elif op == REPARTITION:
                r = s.repartition(call[2])
            elif op == SLICE:
                r = s.slice(call[2], call[3])
            elif op == FOREACH:
                cell = [None]
                s.foreachRDD(self._sink(cell, ssc if len(call) > 2 and call[2] else None, call[3] if len(call) > 3 else 0))
                r = ssc._dstreams[-1]
                cell[0] = len(ssc._dstreams) - 1
                self.sink_nodes[cell[0]] = h
            elif op == MAPPARTITIONS:
                r = s.mapPartitions(PPFUN[call[2]])
            elif op == MAPPARTITIONSWITHINDEX:
                r = s.mapPartitionsWithIndex(PIFUN[call[2]])
            elif op == TRANSFORMWITH:
                f = _tw0(sc) if call[3] == 0 else (lambda t, a, b: a)
                r = s.transformWith(f, handles[call[2]])
            else:
                raise ValueError(op)
            handles.append(r)
        return handles

    def _sink(self, cell, stop_ssc=None, sig=0):
        def record(t, rdd):
            self.events.append((2, cell[0], self.tick_of(t), None if rdd is None else
                                (exact_contents if cell[0] in self.exact else canon_contents)(rdd.collect())))
            if stop_ssc is not None and self.final:
                stop_ssc.stop()      # "stop once enough data has been seen", from inside the output action

        # signature of the function handed to foreachRDD: (time, rdd) forms and one-positional-parameter forms
        # (for those the time is the harness's own tick time)
        if sig == 1:
            def action(rdd, *, tag=None):
                record(self.now_time(), rdd)
        elif sig == 2:
            def action(rdd, *more):
                assert not more
                record(self.now_time(), rdd)
        elif sig == 3:
            def action(rdd, **kw):
                record(self.now_time(), rdd)
        elif sig == 4:
            action = lambda rdd: record(self.now_time(), rdd)      # noqa: E731
        elif sig == 5:
            def action(t, rdd=None):
                record(t, rdd)
        else:
            def action(t, rdd):
                record(t, rdd)
        return action

    def instrument(self, ssc):
        first, self.instrumented = self.instrumented, len(ssc._dstreams)
        for i, d in enumerate(ssc._dstreams):
            if i < first:
                continue
            if type(d).__name__ == 'DStream':
                self._wrap_get(d._stream, i)
            elif hasattr(d, '_func') and i not in self.sink_nodes:
                d._func = self._logged(d._func, i)

    def _wrap_get(self, stream, i):
        orig = stream.get

        def get():
            self.events.append((0, i))
            return orig()
        stream.get = get

    def _logged(self, f, i):
        def call(*a):
            self.events.append((1, i))
            return f(*a)
        return call

    def structure(self, ssc):
        out = []
        for d in ssc._dstreams:
            n = type(d).__name__
            if n == 'DStream':
                out.append((0, []))
            elif n == 'TransformedDStream':
                out.append((1, [self.index_of(ssc, d._prev)]))
            elif n == 'TransformedWithDStream':
                out.append((2, [self.index_of(ssc, d._prev), self.index_of(ssc, d._other_prev)]))
            elif n == 'CogroupedDStream':
                out.append((3, [self.index_of(ssc, d._prev1), self.index_of(ssc, d._prev2)]))
            else:
                out.append((9, []))
        return out

    def run(self):
        base = tempfile.mkdtemp(prefix='c10_', dir=_workroot())
        try:
            sc = pysparkling.Context()
            with VirtualClock() as vc:
                ssc = StreamingContext(sc, self.clock[0] / 10.0 if self.clock else 1.0)
                hist = list(self.hist)
                if not any(len(e) == 1 for e in hist):
                    hist.insert(0, (len(self.prog),))
                handles, pos, started, ticks = [], 0, False, []
                last_cb = max([j for j, e in enumerate(hist) if len(e) == 2], default=-1)
                for j, entry in enumerate(hist):
                    self.final = j == last_cb
                    if len(entry) == 1:
                        # graph construction, possibly after start(): the next n calls of the program
                        self.build(sc, ssc, base, self.prog[pos:pos + entry[0]], handles)
                        pos += entry[0]
                        self.instrument(ssc)
                        flags = ordered_flags(self.prog[:pos])
                        self.exact = {self.index_of(ssc, handles[k]) for k in range(pos) if flags[k]}
                        if not started:
                            ssc.start()
                            started = True
                        continue
                    t, env = entry[0], entry[1]
                    self.tnow = t
                    for h, ls in env:
                        if h not in self.dirs:
                            continue
                        for name, lines in ls:
                            if not os.path.exists(os.path.join(self.dirs[h], name)):
                                _write(self.dirs[h], name, lines)
                    self.events = []
                    if len(entry) == 2:
                        vc.fire(self.ftime[t] if self.clock else float(t))
                    else:
                        # the harness walks the nodes itself, in the order the case prescribes
                        n = len(ssc._dstreams)
                        for x in entry[2]:
                            ssc._dstreams[x % n]._step(float(t))
                    states = []
                    for i, d in enumerate(ssc._dstreams):
                        r = d._current_rdd
                        o = None if r is None else (isinstance(r, EmptyRDD), r.getNumPartitions(),
                                                    (exact_contents if i in self.exact else canon_contents)(r.collect()))
                        ct = d._current_time
                        states.append((self.tick_of(ct), o))
                    layouts = []
                    for h, call in enumerate(self.prog[:pos]):
                        if call[0] == REPARTITION:
                            r = handles[h]._current_rdd
                            layouts.append((h, None if r is None else [len(x) for x in r.glom().collect()]))
                    ticks.append((sorted(self.events, key=_key), states, layouts))
                struct = self.structure(ssc)
                hnodes = [self.index_of(ssc, r) for r in handles]
            return (struct, hnodes, ticks)
        finally:
            shutil.rmtree(base, ignore_errors=True)


def _workroot():
    d = os.path.join(VERIF, '.work', 'C10_files')
    os.makedirs(d, exist_ok=True)
    return d


def _write(d, name, lines):
    tmp = os.path.join(d, '.tmp_' + name)
    with open(tmp, 'w') as f:
        f.write(''.join(l + '\n' for l in lines))
    os.replace(tmp, os.path.join(d, name))


def impl(case):
    try:
        return _Run(case).run()
    except Exception as e:  # pylint: disable=broad-except
        return Err(type(e).__name__)


# ---------------------------------------------------------------- oracle (implementation only)
def _top_eq(a, b):
    """Same elements (as a multiset at the top level), every element compared exactly: the value order inside
    groupByKey lists and the bracketing of non-associative reductions are visible."""
    return sorted((_plain(x) for x in a), key=_key) == sorted((_plain(x) for x in b), key=_key)


def _multiset_eq(a, b):
    return canon_contents(a) == canon_contents(b)


def _group(xs):
    d = {}
    for k, v in xs:
        d.setdefault(k, []).append(v)
    return d


def ref_op(call, ins, t):
    """Plain-list meaning of one API call on this interval's input batches (multisets)."""
    op = call[0]
    a = ins[0]
    if op == MAP:
        return [EFUN[call[2]](x) for x in a]
    if op == FLATMAP:
        return [y for x in a for y in GFUN[call[2]](x)]
    if op == FILTER:
        return [x for x in a if PFUN[call[2]](x)]
    if op == MAPVALUES:
        return [(e[0], EFUN[call[2]](e[1])) for e in a]        # RDD.mapValues indexes the record, extra fields are dropped
    if op == FLATMAPVALUES:
        return [(e[0], y) for e in a for y in GFUN[call[2]](e[1])]
    if op == REDUCEBYKEY:
        return [(k, functools.reduce(OPFUN[call[2]], vs)) for k, vs in _group(a).items()]
    if op == GROUPBYKEY:
        return [(k, vs) for k, vs in _group(a).items()]
    if op == COUNT:
        return [len(a)]
    if op == COUNTBYVALUE:
        d = {}
        for x in a:
            d[x] = d.get(x, 0) + 1
        return list(d.items())
    if op == REDUCE:
        return [functools.reduce(OPFUN[call[2]], a)] if a else []
    if op == UNION:
        return list(a) + list(ins[1])
    if op == COGROUPED:
        b = ins[1]
        ga, gb = _group(a), _group(b)
        kind = CGOPS[call[3]]
        if kind == 'cogroup':
            return [(k, [ga.get(k, []), gb.get(k, [])]) for k in set(ga) | set(gb)]
        out = []
        for k in set(ga) | set(gb):
            la, lb = ga.get(k, []), gb.get(k, [])
            if kind == 'join' and (not la or not lb):
                continue
            if kind == 'leftOuterJoin' and not la:
                continue
            if kind == 'rightOuterJoin' and not lb:
                continue
            for x in (la or [None]):
                for y in (lb or [None]):
                    out.append((k, (x, y)))
        return out
    if op == TRANSFORM:
        f = call[2]
        if f in (0, 1, 9, 10):
            return list(a)
        if f in (2, 7):
            return [x + 1 for x in a]
        if f in (3, 8):
            return [x for x in a if x % 2 == 0]
        if f == 4:
            return [2 * x for x in a if x > 0]
        if f in (5, 11):
            return [x + t for x in a]
    if op == REPARTITION:
        return list(a)
    if op == SLICE:
        return list(a) if call[2] <= t <= call[3] else []
    if op == TRANSFORMWITH:
        return list(ins[1]) + list(a) if call[3] == 0 else list(a)
    return None


def oracle(case, result):
    prog, hist = case[0], case[1]
    if any(len(e) == 3 for e in hist):
        return None   # harness-driven stepping order: model tie only, the property is about the callback
    if any(c[0] == TRANSFORM and c[2] == 6 for c in prog):
        return None   # a transform function returning None: outside the property, model tie only
    if isinstance(result, Err):
        return (f'run:{result.name}', 'building or stepping the streams raised')
    struct, hn, ticks = result
    ordered = ordered_flags(prog)
    qpos = {h: 0 for h, c in enumerate(prog) if c[0] == QUEUE}
    seen = {h: set(c[1]) for h, c in enumerate(prog) if c[0] == FILE}
    last_t = 0
    entries = list(hist)
    if not any(len(e) == 1 for e in entries):
        entries.insert(0, (len(prog),))
    reg = 0          # calls made so far: only these streams/actions exist in the interval being judged
    k = -1
    for entry in entries:
        if len(entry) == 1:
            reg = min(len(prog), reg + entry[0])
            continue
        k += 1
        (t, env), (events, states, tick_layouts) = entry, ticks[k]
        if t <= last_t:
            continue   # not a new interval
        last_t = t
        where = f'tick {k} (t={t})'
        if reg > len(hn) or any(hn[h] >= len(states) or hn[h] < 0 for h in range(reg)):
            return ('register:missing-node', f'{where}: a stream returned by a call is not among the registered streams')
        n = len(states)
        # every registered stream advanced to this interval
        for i, (ct, _) in enumerate(states):
            if ct != t:
                return ('step:node-not-advanced', f'{where}: node {i} has _current_time {ct}')
        # each source asked for exactly one batch; each registered function called exactly once
        for i in range(n):
            pops = sum(1 for e in events if e[0] == 0 and e[1] == i)
            fires = sum(1 for e in events if e[0] in (1, 2) and e[1] == i)
            kind = struct[i][0]
            if kind == 0 and pops != 1:
                return ('source:get-count', f'{where}: source node {i} called get() {pops} times')
            if kind != 0 and pops != 0:
                return ('source:get-count', f'{where}: node {i} (not a source) called get() {pops} times')
            if kind in (1, 2) and fires != 1:
                is_action = i in hn[:reg] and prog[hn.index(i)][0] == FOREACH
                what = 'foreachRDD action' if is_action else 'function'
                return (f'fire:{"action" if is_action else "function"}-count',
                        f'{where}: {what} of node {i} called {fires} times')
        # contents per API-level stream
        obs = {}
        for h in range(reg):
            o = states[hn[h]][1]
            obs[h] = None if o is None else o[2]
        # Partition-level reference, from the history and the RDD operations alone:
        #   inst[h]: the stream holds the EmptyRDD placeholder of an interval WITHOUT data (exhausted queue
        #            without default, queued None, no new file, slice out of range, and what passes it through);
        #   zp[h]:   its RDD has no partition at all (the placeholder, or an element-wise/partition-wise
        #            operation on such an RDD).  Every other RDD operation builds partitions (parallelize).
        # count() must be [n], also for n = 0, unless its input has no partition (reading: then empty);
        # repartition(n) must have the layout of RDD.repartition(n) unless its input is the placeholder itself
        # (documented pass-through of DStream.repartition).
        inst, zp = {}, {}
        layouts = dict(tick_layouts)
        for h, call in enumerate(prog[:reg]):
            op = call[0]
            if op == QUEUE:
                _, batches, one, default = call[:4]
                p = qpos[h]
                if p >= len(batches):
                    want = list(default) if default is not None else []
                elif one:
                    # a queued None is an interval without data; the default only applies to an exhausted queue
                    want = list(batches[p]) if batches[p] is not None else []
                    qpos[h] = p + 1
                else:
                    want = [x for b in batches[p:] for x in b]
                    qpos[h] = len(batches)
                nodata = (p >= len(batches) and default is None) or (p < len(batches) and one and batches[p] is None)
                inst[h] = zp[h] = nodata
                if obs[h] is None or not _top_eq(obs[h], want):
                    return ('queue:delivery', f'{where}: queue stream (call {h}) delivered {obs[h]!r}, expected {want!r}')
                continue
            if op == FILE:
                ls = dict(env).get(h, [])
                new = [(nm, lines) for nm, lines in ls if nm not in seen[h]]
                seen[h] |= {nm for nm, _ in new}
                want = [l for _, lines in new for l in lines]
                inst[h] = zp[h] = not new
                if obs[h] is None or not _multiset_eq(obs[h], want):
                    return ('file:delivery', f'{where}: file stream (call {h}) delivered {obs[h]!r}, expected {want!r}')
                continue
            ins = [obs[call[1]]]
            a_ = call[1]
            if op in (UNION, COGROUPED, TRANSFORMWITH):
                ins.append(obs[call[2]])
            b_ = call[2] if op in (UNION, COGROUPED, TRANSFORMWITH) else None
            ia, za = inst.get(a_, False), zp.get(a_, False)
            if op in (MAP, FLATMAP, FILTER, MAPVALUES, FLATMAPVALUES, MAPPARTITIONS, MAPPARTITIONSWITHINDEX) or \
                    (op == TRANSFORM and call[2] in (2, 3, 4, 5, 7, 8, 11)):
                inst[h], zp[h] = False, za            # MapPartitionsRDD: the parent's partitions
            elif op == TRANSFORM or (op == TRANSFORMWITH and call[3] == 1):
                inst[h], zp[h] = ia, za               # returns the RDD it was given
            elif op == UNION or op == TRANSFORMWITH:
                both = ia and inst.get(b_, False)     # Context.union: EmptyRDD only if all are, else parallelize
                inst[h], zp[h] = both, both
            elif op == REPARTITION:
                inst[h], zp[h] = ia, ia
            elif op == SLICE:
                inside = call[2] <= t <= call[3]
                inst[h], zp[h] = (ia, za) if inside else (True, True)
            else:
                inst[h], zp[h] = False, False         # groupByKey/reduceByKey/count/reduce/joins...: parallelize
            if any(x is None for x in ins):
                continue
            if op == FOREACH:
                got = [e for e in events if e[0] == 2 and e[1] == hn[h]]
                if len(got) != 1:
                    return ('fire:action-count', f'{where}: foreachRDD action (call {h}) ran {len(got)} times')
                if got[0][2] != t:
                    return ('fire:action-time', f'{where}: foreachRDD action (call {h}) got time {got[0][2]}')
                if got[0][3] is None or not (_top_eq if ordered[h] else _multiset_eq)(got[0][3], ins[0]):
                    return ('fire:action-input', f'{where}: foreachRDD action (call {h}) received {got[0][3]!r}, '
                            f'its stream holds {ins[0]!r}')
                continue
            want = ref_op(call, ins, t)
            if want is None:
                continue
            if obs[h] is None:
                return (f'op:{OPNAMES[op]}', f'{where}: call {h} produced no RDD')
            if op == COUNT and not ins[0] and obs[h] == [] and za:
                continue   # reading (DESIGN): count of an RDD without any partition may be an empty RDD;
                #            every other empty input must count [0]
            if op == REPARTITION:
                n_, L = call[2], len(ins[0])
                exp = [] if ia else ([L] if n_ <= 1 else [(i + 1) * L // n_ - i * L // n_ for i in range(n_)])
                if layouts.get(h) != exp:
                    return ('op:repartition-layout', f'{where}: call {h} repartition({n_}) of {ins[0]!r} has partition sizes '
                            f'{layouts.get(h)!r}, RDD.repartition gives {exp!r}')
            # an ordered stream (and hence its inputs) is observed in collect order: the reference is computed from the
            # inputs in that order and compared element by element (top-level multiset); otherwise deep multisets
            if not (_top_eq if ordered[h] else _multiset_eq)(obs[h], want):
                name = CGOPS[call[3]] if op == COGROUPED else OPNAMES[op]
                return (f'op:{name}', f'{where}: call {h} {name} on {ins!r} gave {obs[h]!r}, the RDD operation gives {want!r}')
    return None


# ---------------------------------------------------------------- generation
I, S, KI, KL, KT, KC = 'I', 'S', 'KI', 'KL', 'KT', 'KC'
# values that are not mutually orderable (None among numbers, strings mixed with ints, tuples mixed with scalars):
# M = such elements, KM = (int key, such a value), X = whatever comes out of them (generic operations only)
M, KM, X = 'M', 'KM', 'X'
# K3: pair-like records of other shapes: (k, v, extra...) tuples, [k, v, extra] lists, [k, v] lists
K3 = 'K3'
MIXED = [None, 1, 2, 3, 'a', 'b', (1, 2), None, 1, 'a']


def _elem(rng, ty):
    if ty == K3:
        k, v, x = rng.randint(0, 2), rng.randint(-3, 9), rng.choice([0, 7, 'x', None])
        return rng.choice([(k, v, x), [k, v, x], [k, v], (k, v, x, x), (k, v)])
    if ty == M:
        return rng.choice(MIXED)
    if ty == KM:
        return (rng.randint(0, 2), rng.choice(MIXED))
    if ty == I:
        return rng.randint(-3, 9)
    return (rng.randint(0, 2), rng.randint(-3, 9))


def _batch(rng, ty):
    return [_elem(rng, ty) for _ in range(rng.choice([0, 0, 1, 1, 2, 2, 3]))]


def _unary_choices(ty):
    """(call-without-stream, result type) choices applicable to a stream of element type ty."""
    out = []
    ident = [(MAP, 0), (FILTER, 0), (FILTER, 1), (FLATMAP, 0), (FLATMAP, 2), (TRANSFORM, 0), (TRANSFORM, 1),
             (TRANSFORM, 9), (TRANSFORM, 10),
             (MAPPARTITIONS, 0), (MAPPARTITIONS, 2)]
    for op, f in ident:
        out.append(((op, f), ty))
    out.append(((COUNT,), I))
    for n in (1, 2, 3):
        out.append(((REPARTITION, n), ty))
    out.append(((SLICE, 2, 4), ty))
    out.append(((MAPPARTITIONSWITHINDEX, 1), I))
    if ty == I:
        out.append(((MAPPARTITIONSWITHINDEX, 0), KI))
        for f in (1, 2, 3):
            out.append(((MAP, f), I))
        for f in (4, 5):
            out.append(((MAP, f), KI))
        out += [((FLATMAP, 1), I), ((FLATMAP, 3), KI), ((FILTER, 2), I), ((FILTER, 3), I), ((COUNTBYVALUE,), KI)]
        for f in (0, 1, 2):
            out.append(((REDUCE, f), I))
        for f in (2, 3, 4, 5, 7, 8, 11):
            out.append(((TRANSFORM, f), I))
        out.append(((MAPPARTITIONS, 1), I))
    if ty == K3:
        for f in (1, 2, 3):
            out += [((MAPVALUES, f), KI), ((MAPVALUES, f), KI)]
        for f in (0, 1, 2):
            out += [((FLATMAPVALUES, f), KI), ((FLATMAPVALUES, f), KI)]
        out += [((MAP, 6), I), ((FILTER, 4), K3), ((MAPVALUES, 0), X)]
    if ty == M:
        out += [((COUNTBYVALUE,), X), ((COUNTBYVALUE,), X), ((FLATMAP, 0), M)]
    if ty == KM:
        out += [((GROUPBYKEY,), X), ((GROUPBYKEY,), X), ((MAPVALUES, 0), KM), ((MAP, 6), M), ((FILTER, 4), KM),
                ((FLATMAPVALUES, 0), KM)]
    if ty == S:
        out.append(((MAP, 8), I))
        out.append(((MAP, 8), I))
    if ty == KI:
        out += [((MAP, 6), I), ((MAP, 7), I), ((MAP, 9), KI), ((FILTER, 4), KI), ((FILTER, 5), KI), ((GROUPBYKEY,), KL)]
        for f in (1, 2, 3):
            out.append(((MAPVALUES, f), KI))
        for f in (0, 1, 2):
            out.append(((FLATMAPVALUES, f), KI))
            out.append(((REDUCEBYKEY, f), KI))
        out.append(((GROUPBYKEY,), KL))
    if ty == KL:
        out += [((MAPVALUES, 20), KI), ((MAPVALUES, 21), KI), ((FLATMAPVALUES, 4), KI), ((FILTER, 4), KL)]
    if ty == KT:
        out += [((MAPVALUES, 22), KI), ((FILTER, 4), KT), ((FLATMAPVALUES, 0), KT)]
    if ty == KC:
        out += [((MAPVALUES, 23), KI), ((FILTER, 4), KC)]
    return out


def _mk(spec, s):
    return (spec[0], s) + tuple(spec[1:])


def _queue_batches(rng, ty, one):
    nb = rng.choice([0, 1, 2, 3, 4, 6, 8])
    bs = [_batch(rng, ty) for _ in range(nb)]
    if one and rng.random() < 0.35:
        # None entries ("nothing arrived in this interval"): alone, first, last, consecutive, scattered
        mode = rng.randrange(5)
        if mode == 0:
            bs = [None]
        elif mode == 1:
            bs = [None] + bs
        elif mode == 2:
            bs = bs + [None]
        elif mode == 3:
            k = rng.randint(0, len(bs))
            bs = bs[:k] + [None, None] + bs[k:]
        else:
            bs = [None if rng.random() < 0.3 else b for b in bs] or [None]
    return bs


def _big_batch(rng, ty):
    """A batch for an RDD with several partitions: a key's values span partitions."""
    n = rng.randint(3, 7)
    if ty in (M, KM, K3):
        return [_elem(rng, ty) for _ in range(n)]
    if ty == I:
        return [rng.randint(-3, 9) for _ in range(n)]
    return [(rng.randint(0, 1), rng.randint(-3, 9)) for _ in range(n)]


def _queue_meta(rng, ty, bs, one, default):
    """How the batches, the default and the queue are handed over (same elements): kinds of iterables, RDDs
    with 1..3 partitions, a default list the caller mutates afterwards."""
    eparts, ekinds = [], []
    for j, b in enumerate(bs):
        if b is not None and one and rng.random() < 0.3:
            eparts.append(rng.randint(1, 3))          # an RDD (only iterable entries work with oneAtATime=False)
            if rng.random() < 0.7:
                bs[j] = _big_batch(rng, ty)
        else:
            eparts.append(0)
        ekinds.append(rng.choice([K_LIST, K_LIST, K_TUPLE, K_GEN, K_ITER, K_MAP, K_ZIP, K_DEQUE]))
    dpart, dkind, mut = 0, K_LIST, 0
    if default is not None:
        r = rng.random()
        if r < 0.2:
            dpart = rng.randint(1, 3)
        elif r < 0.45:
            mut = rng.choice([1, 2])                  # a list that is appended to / cleared after queueStream()
        else:
            dkind = rng.choice([K_LIST, K_TUPLE, K_GEN, K_ITER, K_MAP, K_ZIP, K_DEQUE])
    ckind = rng.choice([K_LIST, K_LIST, K_DEQUE, K_GEN, K_TUPLE])
    return (eparts, dpart, (ckind, ekinds, dkind, mut))


def _add_source(rng, prog, types, depth, with_files, first):
    if with_files and (first or rng.random() < 0.3):
        prog.append('FILE')
        types.append(S)
    else:
        ty = rng.choice([I, I, I, KI, KI, M, KM, K3])
        one = rng.random() < 0.75
        default = None if rng.random() < 0.5 else ([] if rng.random() < 0.2 else _batch(rng, ty))
        bs = _queue_batches(rng, ty, one)
        if rng.random() < 0.5:
            prog.append((QUEUE, bs, one, default, _queue_meta(rng, ty, bs, one, default)))
        else:
            prog.append((QUEUE, bs, one, default))
        types.append(ty)
    depth.append(0)


def _add_actions(rng, prog, types, depth, k):
    live = [h for h in range(len(prog)) if types[h] is not None]
    for s in rng.sample(live, min(len(live), k)):
        prog.append((FOREACH, s) if rng.random() < 0.6 else (FOREACH, s, 0, rng.randrange(6)))
        types.append(None)
        depth.append(9)


def gen_program(rng, max_calls=12, with_files=False, with_none=False):
    prog, types, depth = [], [], []
    nsrc = rng.choice([1, 1, 2, 2, 3])
    for j in range(nsrc):
        _add_source(rng, prog, types, depth, with_files, j == 0)
    _add_calls(rng, prog, types, depth, rng.randint(1, max_calls), with_none)
    _add_actions(rng, prog, types, depth, rng.choice([1, 1, 2, 3]))
    return prog, types


def _add_calls(rng, prog, types, depth, ncalls, with_none=False):
    for _ in range(ncalls):
        live = [h for h in range(len(prog)) if types[h] is not None and depth[h] < 4]
        if not live:
            break
        s = rng.choice(live[-4:]) if rng.random() < 0.6 else rng.choice(live)
        ty = types[s]
        if isinstance(ty, tuple) or (with_none and rng.random() < 0.15):
            # a stream that never holds an RDD (below a transform returning None): unary calls only,
            # their functions are never called, every node takes the early return of _step
            base = ty[1] if isinstance(ty, tuple) else ty
            if isinstance(ty, tuple):
                spec, rty = rng.choice(_unary_choices(base))
                prog.append(_mk(spec, s))
                types.append(('N', rty))
            else:
                prog.append((TRANSFORM, s, 6))
                types.append(('N', base))
            depth.append(depth[s] + 1)
            continue
        partners = [h for h in range(len(prog)) if types[h] == ty and depth[h] <= 4]
        r = rng.random()
        if r < 0.3 and partners:
            o = rng.choice(partners)
            if ty == KI and rng.random() < 0.7:
                k = rng.randrange(5)
                prog.append((COGROUPED, s, o, k, rng.choice([None, None, 1, 2, 3])))
                types.append(KC if k == 0 else KT)
            elif rng.random() < 0.8:
                prog.append((UNION, s, o))
                types.append(ty)
            else:
                prog.append((TRANSFORMWITH, s, o, rng.randrange(2)))
                types.append(ty)
            depth.append(max(depth[s], depth[o]) + 1)
        else:
            spec, rty = rng.choice(_unary_choices(ty))
            if spec[0] in (REDUCEBYKEY, REDUCE) and rng.random() < 0.5 and \
                    ordered_flags([c if c != 'FILE' else (FILE,) for c in prog])[s]:
                spec = (spec[0], rng.choice(NONASSOC))   # order/bracketing sensitive: only where the order is determined
            prog.append(_mk(spec, s))
            types.append(rty)
            depth.append(depth[s] + 1)


def gen_times(rng, n):
    ts, t = [], 0
    for _ in range(n):
        if ts and rng.random() < 0.08:
            ts.append(t)          # the callback fires twice with the same timestamp
        else:
            t += rng.choice([1, 1, 1, 2])
            ts.append(t)
    return ts


def _maybe_stopper(rng, prog, p=0.25):
    """One output action (any position among the registered ones) calls ssc.stop() in the last interval."""
    acts = [h for h, c in enumerate(prog) if c != 'FILE' and c[0] == FOREACH]
    if acts and rng.random() < p:
        h = rng.choice(acts)
        prog[h] = (FOREACH, prog[h][1], 1) + tuple(prog[h][3:4])


def gen_case(rng, with_files=False, with_none=False):
    prog, _ = gen_program(rng, with_files=with_files, with_none=with_none)
    _maybe_stopper(rng, prog)
    nt = rng.randint(1, 6)
    times = gen_times(rng, nt)
    fsrc = [h for h, c in enumerate(prog) if c == 'FILE']
    present = {}
    for h in fsrc:
        pre = [(f'f{j:02d}', [str(rng.randint(0, 30)) for _ in range(rng.randint(0, 3))])
               for j in rng.sample(range(20), rng.choice([0, 0, 1, 2]))]
        pre.sort()
        process_all = bool(pre) and rng.random() < 0.5
        prog[h] = (FILE, [] if process_all else [nm for nm, _ in pre], pre)
        present[h] = list(pre)
    hist = []
    for t in times:
        env = []
        for h in fsrc:
            have = {nm for nm, _ in present[h]}
            for _ in range(rng.choice([0, 0, 1, 1, 2])):
                nm = f'f{rng.randrange(20):02d}'
                if nm not in have:
                    have.add(nm)
                    present[h].append((nm, [str(rng.randint(0, 30)) for _ in range(rng.randint(0, 3))]))
            present[h].sort()
            env.append((h, list(present[h])))
        hist.append((t, env))
    return (prog, hist)


SYS_UNARY = {
    I: [(FILTER, 1), (MAP, 1), (MAP, 4), (FLATMAP, 1), (FLATMAP, 3), (FILTER, 2), (COUNT,), (COUNTBYVALUE,), (REDUCE, 0), (REDUCE, 1),
        (TRANSFORM, 2), (TRANSFORM, 5), (REPARTITION, 2), (SLICE, 2, 3), (MAPPARTITIONS, 1), (MAPPARTITIONSWITHINDEX, 0)],
    KI: [(FILTER, 1), (MAPVALUES, 1), (FLATMAPVALUES, 1), (REDUCEBYKEY, 0), (GROUPBYKEY,), (COUNT,), (MAP, 6), (REPARTITION, 3),
         (FILTER, 4)],
}
SYS_BIN = [(UNION,), (COGROUPED, 0, None), (COGROUPED, 1, None), (COGROUPED, 1, 2), (COGROUPED, 2, None),
           (COGROUPED, 3, None), (COGROUPED, 4, None), (TRANSFORMWITH, 0)]
SYS_HIST = [
    # (oneAtATime, default: False = None | True = the first batch | 'empty' = [], times)
    (True, False, [1, 2, 3, 4, 5]),          # two exhausted intervals without default
    (True, True, [1, 2, 3, 4]),
    (False, True, [1, 2, 3]),
    (True, 'empty', [1, 2, 3, 4]),
    # queues with None entries (first, consecutive, last) x every default; light: no ordered op pairs
    (True, False, 'none'),
    (True, True, 'none'),
    (True, 'empty', 'none'),
]
B_I = [[1, 2, 2], [], [4]]
B_KI = [[(0, 1), (1, 2), (0, 3)], [], [(2, 4)]]


def _res_type(spec, ty):
    for sp, rty in _unary_choices(ty):
        if tuple(sp) == tuple(spec):
            return rty
    return ty


def systematic():
    cases = []
    for one, dflt, times in SYS_HIST:
        for ty, bs in ((I, B_I), (KI, B_KI)):
            light = times == 'none'
            dv = [] if dflt == 'empty' else bs[0] if dflt else None
            if light:
                bs = [None, bs[0], None, None, bs[2], None]
                times = [1, 2, 3, 4, 5, 6, 7, 8]
            src = (QUEUE, bs, one, dv)
            hist = [(t, []) for t in times]
            if not light and one and dflt is False:
                # repartition (and count behind it) directly on the source and behind 1-2 lazily derived streams,
                # through batches, an empty batch and exhausted intervals
                lazy = SYS_UNARY[ty][:1] + [sp for sp in SYS_UNARY[ty] if sp[0] in (MAP, FLATMAP, FILTER, MAPVALUES,
                                                                                   FLATMAPVALUES, TRANSFORM, MAPPARTITIONS)]
                for n_ in (1, 2, 3):
                    cases.append(([src, (REPARTITION, 0, n_), (COUNT, 1), (FOREACH, 1), (FOREACH, 2)], hist))
                    for sp in lazy:
                        if _res_type(sp, ty) not in (I, KI):
                            continue
                        cases.append(([src, _mk(sp, 0), (REPARTITION, 1, n_), (COUNT, 2), (FOREACH, 2), (FOREACH, 3)], hist))
                        cases.append(([src, _mk(sp, 0), (FILTER, 1, 0), (REPARTITION, 2, n_), (COUNT, 3), (FOREACH, 4)], hist))
            if not light and one and dflt is True:
                # registration after start(): the source (+ an action) first, 0 or 1 ticks, then each op /
                # each diamond with its actions, then two more ticks
                for pre in (0, 1):
                    h1 = [(2,)] + [(t, []) for t in times[:pre]]
                    h2 = [(t, []) for t in times[pre:pre + 2]]
                    for spec in SYS_UNARY[ty]:
                        cases.append(([src, (FOREACH, 0), _mk(spec, 0), (FOREACH, 2)], h1 + [(2,)] + h2))
                    for b in SYS_BIN:
                        if b[0] == COGROUPED and ty != KI:
                            continue
                        br = (MAP, 0) if ty == KI else (MAP, 1)
                        cases.append(([src, (FOREACH, 0), _mk(br, 0), (b[0], 0, 2) + tuple(b[1:]), (FOREACH, 3)],
                                      h1 + [(1,)] + h2[:1] + [(2,)] + h2[1:]))
            # every op directly on the source, with an action on the source and on the result
            for spec in SYS_UNARY[ty]:
                cases.append(([src, _mk(spec, 0), (FOREACH, 1), (FOREACH, 0)], hist))
                if dflt is True and not light:
                    # the first action calls ssc.stop() in the last interval; the second one must still fire
                    cases.append(([src, _mk(spec, 0), (FOREACH, 1, 1), (FOREACH, 0)], hist))
                # every ordered pair of ops
                rty = _res_type(spec, ty)
                for spec2 in ([] if light else SYS_UNARY.get(rty, [])):
                    cases.append(([src, _mk(spec, 0), _mk(spec2, 1), (FOREACH, 2)], hist))
            # diamonds: two branches of the same source re-joined
            branches = [(MAP, 0), (FILTER, 4)] if ty == KI else [(MAP, 1), (FILTER, 2)]
            for b in SYS_BIN:
                if b[0] == COGROUPED and ty != KI:
                    continue
                for br1, br2 in itertools.product([None] + branches, repeat=2):
                    prog = [src]
                    h1 = 0
                    if br1:
                        prog.append(_mk(br1, 0))
                        h1 = len(prog) - 1
                    h2 = 0
                    if br2:
                        prog.append(_mk(br2, 0))
                        h2 = len(prog) - 1
                    prog.append((b[0], h1, h2) + tuple(b[1:]))
                    j = len(prog) - 1
                    prog.append((COUNT, j))
                    prog.append((FOREACH, j))
                    prog.append((FOREACH, j + 1))
                    cases.append((prog, hist))
    return cases


def systematic_kinds():
    """(a) every kind of default batch / queue entry / queue container, >= 3 exhausted intervals, oneAtATime both
    ways; (b) keyed and reducing operations with non-associative functions on RDD batches with 2-3 partitions
    in which a key's values span partitions."""
    cases = []
    acts = lambda n: [(FOREACH, j) for j in range(n)]
    for one in (True, False):
        for ty, b0, b1, d in ((I, [1, 2, 2], [4, 0], [7, 8, 9]),
                              (KI, [(0, 1), (1, 2), (0, 3)], [(2, 4)], [(0, 4), (1, 2), (0, 2)])):
            body = [(COUNT, 0), (REDUCEBYKEY, 0, 3) if ty == KI else (REDUCE, 0, 3), (MAP, 0, 0)]
            variants = [(0, k, 0) for k in range(8)] + [(p_, K_LIST, 0) for p_ in (1, 2, 3)] + [(0, K_LIST, 1), (0, K_LIST, 2)]
            for dpart, dkind, mut in variants:
                src = (QUEUE, [list(b0)], one, list(d), ([0], dpart, (K_LIST, [K_LIST], dkind, mut)))
                cases.append(([src] + body + acts(4), [(t, []) for t in (1, 2, 3, 4)]))
            for ek in range(8):
                src = (QUEUE, [list(d), list(b1)], one, None, ([0, 0], 0, (K_LIST, [ek, ek], K_LIST, 0)))
                cases.append(([src] + body + acts(4), [(t, []) for t in (1, 2, 3)]))
            if one:
                for k in (1, 2, 3):
                    src = (QUEUE, [list(d), list(b1)], one, list(b0), ([k, k], 0, (K_LIST, [K_LIST, K_LIST], K_LIST, 0)))
                    cases.append(([src] + body + acts(4), [(t, []) for t in (1, 2, 3, 4, 5)]))
            for ck in (K_LIST, K_TUPLE, K_GEN, K_ITER, K_DEQUE):
                src = (QUEUE, [list(b0), list(b1)], one, list(d), ([0, 0], 0, (ck, [K_LIST, K_TUPLE], K_GEN, 0)))
                cases.append(([src] + body + acts(4), [(t, []) for t in (1, 2, 3, 4, 5)]))
    # values that are not mutually orderable / signatures of transform and foreachRDD functions
    mixed = [[1, None, 1, 'a', (1, 2), None, 2], [], ['b', 'a', 3, 'a'], [None]]
    kmixed = [[(0, 1), (1, None), (0, 'a'), (1, (1, 2)), (0, None)], [], [(2, 'b'), (2, 3)]]
    h4 = [(t, []) for t in (1, 2, 3, 4, 5)]
    for one in (True, False):
        for k in (0, 2):
            meta = ([k if one else 0] * 4, 0, (K_LIST, [K_LIST] * 4, K_LIST, 0))
            sm = (QUEUE, [list(b) for b in mixed], one, None, meta)
            cases.append(([sm, (COUNTBYVALUE, 0), (COUNT, 0), (COUNT, 1), (FOREACH, 1), (FOREACH, 2), (FOREACH, 3)], h4))
            cases.append(([sm, (UNION, 0, 0), (REPARTITION, 1, 2), (COUNTBYVALUE, 2), (FILTER, 0, 0), (FOREACH, 3), (FOREACH, 4)], h4))
            skm = (QUEUE, [list(b) for b in kmixed], one, None, ([k if one else 0] * 3, 0, (K_LIST, [K_LIST] * 3, K_LIST, 0)))
            cases.append(([skm, (GROUPBYKEY, 0), (MAP, 0, 6), (COUNTBYVALUE, 2), (COUNT, 1), (FOREACH, 1), (FOREACH, 3), (FOREACH, 4)], h4))
    # records of other shapes reaching the pair operations that index the record (mapValues, flatMapValues)
    k3 = [[(0, 1, 'x'), [1, 2, 9], [0, 3], (1, 5)], [], [(2, 4, 5, 6), [2, 0, None]]]
    for one in (True, False):
        for k in (0, 2):
            s3 = (QUEUE, [list(b) for b in k3], one, None, ([k if one else 0] * 3, 0, (K_LIST, [K_LIST] * 3, K_LIST, 0)))
            for sp in [(MAPVALUES, 1), (MAPVALUES, 0), (FLATMAPVALUES, 0), (FLATMAPVALUES, 1)]:
                cases.append(([s3, _mk(sp, 0), (COUNT, 1), (FOREACH, 1), (FOREACH, 2), (FOREACH, 0)], h4))
                cases.append(([s3, (FILTER, 0, 4), _mk(sp, 1), (UNION, 2, 2), (FOREACH, 3)], h4))
                cases.append(([s3, (FOREACH, 0), _mk(sp, 0), (FOREACH, 2)], [(2,), (1, []), (2,), (2, []), (3, []), (4, [])]))
            cases.append(([s3, (MAPVALUES, 0, 2), (REDUCEBYKEY, 1, 3), (GROUPBYKEY, 1), (FOREACH, 2), (FOREACH, 3)], h4))
    si0 = (QUEUE, [[1, 2, 2], [], [4]], True, [5, 6])
    for f in (0, 1, 2, 3, 4, 5, 7, 8, 9, 10, 11):
        for sig in range(6):
            cases.append(([si0, (TRANSFORM, 0, f), (FOREACH, 1, 0, sig), (COUNT, 1), (FOREACH, 3, 0, (sig + 1) % 6)],
                          [(t, []) for t in (1, 2, 3, 4)]))
            cases.append(([si0, (FOREACH, 0, 0, sig), (TRANSFORM, 0, f), (FOREACH, 2, 0, sig)],
                          [(2,), (1, []), (2, []), (2,), (3, []), (4, [])]))
    big_ki = [[(0, 1), (1, 2), (0, 5), (0, 3), (1, 7), (0, 2)], [(1, 4), (0, 6), (1, 1), (1, 3)]]
    big_i = [[5, 1, 4, 0, 3, 2, 8], [0, 4, 2, 2]]
    hist = [(t, []) for t in (1, 2, 3)]
    for k in (2, 3):
        meta = ([k, k], 0, (K_LIST, [K_LIST, K_LIST], K_LIST, 0))
        ski = (QUEUE, [list(b) for b in big_ki], True, None, meta)
        si = (QUEUE, [list(b) for b in big_i], True, None, meta)
        for f in range(8):
            cases.append(([ski, (REDUCEBYKEY, 0, f), (FOREACH, 1)], hist))
            cases.append(([ski, (MAP, 0, 0), (REDUCEBYKEY, 1, f), (FOREACH, 2)], hist))
            cases.append(([ski, (MAPVALUES, 0, 1), (UNION, 0, 1), (REDUCEBYKEY, 2, f), (FOREACH, 3)], hist))
            cases.append(([si, (REDUCE, 0, f), (FOREACH, 1)], hist))
            cases.append(([si, (FILTER, 0, 3), (REDUCE, 1, f), (FOREACH, 2)], hist))
        cases.append(([ski, (GROUPBYKEY, 0), (FOREACH, 1)], hist))
        cases.append(([ski, (FILTER, 0, 5), (GROUPBYKEY, 1), (MAPVALUES, 2, 21), (FOREACH, 2), (FOREACH, 3)], hist))
        cases.append(([si, (COUNTBYVALUE, 0), (FOREACH, 1)], hist))
        for op in (1, 2, 3):
            cases.append(([ski, (MAPVALUES, 0, 1), (COGROUPED, 0, 1, op, None), (FOREACH, 2)], hist))
            cases.append(([ski, (MAPVALUES, 0, 1), (COGROUPED, 0, 1, op, 2), (GROUPBYKEY, 2), (FOREACH, 3)], hist))
    return cases


def gen_late_case(rng):
    """Graph construction interleaved with ticks: part of the DAG, start(), 0..3 ticks, then further
    sources / branches (also joined with existing ones) / output actions, more ticks, possibly a third phase."""
    prog, types, depth = [], [], []
    hist, t = [], 0
    for phase in range(rng.choice([2, 2, 3])):
        before = len(prog)
        if phase == 0:
            for j in range(rng.choice([1, 1, 2])):
                _add_source(rng, prog, types, depth, False, False)
            _add_calls(rng, prog, types, depth, rng.randint(0, 5))
            _add_actions(rng, prog, types, depth, rng.choice([0, 1, 1, 2]))
        else:
            if rng.random() < 0.25:
                _add_source(rng, prog, types, depth, False, False)
            _add_calls(rng, prog, types, depth, rng.randint(0, 5))
            _add_actions(rng, prog, types, depth, rng.choice([1, 1, 2]))
        hist.append((len(prog) - before,))
        for _ in range(rng.randint(0 if phase == 0 else 1, 3)):
            t += rng.choice([1, 1, 2])
            hist.append((t, []))
    _maybe_stopper(rng, prog)
    return (prog, hist)


def gen_order_case(rng):
    """Same programs, but the harness steps the registered nodes itself: sinks only, a random
    permutation, or a random sequence with repetitions and omissions."""
    prog, hist = gen_case(rng)
    out = []
    for t, env in hist:
        r = rng.random()
        if r < 0.25:
            out.append((t, env))
        elif r < 0.5:
            out.append((t, env, [-1 - j for j in range(rng.randint(1, 3))]))      # the last registered nodes (actions)
        elif r < 0.75:
            perm = list(range(40))
            rng.shuffle(perm)
            out.append((t, env, perm))                                            # every node, shuffled (with repeats mod n)
        else:
            out.append((t, env, [rng.randrange(40) for _ in range(rng.randint(1, 8))]))
    return (prog, out)


def clock_cases():
    """Tick times on the batch grid of durations that are no binary fractions, accumulated in floating point
    (0.1 + 0.1 + ... gives 0.7999999999999999, 0.9999999999999999 ...), from three starting times; every tick has a
    strictly larger time than the one before and must step everything once."""
    cases = []
    n = 12
    qa = (QUEUE, [[j, j + 1] for j in range(n)], True, None)
    qb = (QUEUE, [[(j % 3, j)] for j in range(n)] , True, [(0, 0)])
    prog = [qa, qb, (MAP, 0, 1), (UNION, 0, 2), (COUNT, 3), (MAPVALUES, 1, 1), (COGROUPED, 1, 5, 1, None), (REDUCEBYKEY, 6 - 1, 0),
            (FOREACH, 3), (FOREACH, 4), (FOREACH, 6), (FOREACH, 0, 0, 1)]
    for tenths in (1, 3, 7):
        for start in (0, 7, 1000):
            cases.append((prog, [(k, []) for k in range(1, n + 1)], (tenths, start)))
            cases.append((prog[:9], [(9,)] + [(k, []) for k in range(1, 6)] + [(0,)] + [(k, []) for k in range(6, n + 3)], (tenths, start)))
    return cases


def generate(rng, tier):
    cases = clock_cases() + list(_corpus())
    cases += systematic()
    cases += systematic_kinds()
    n_rand, n_file = (600, 100) if tier == 'quick' else (8000, 1200)
    for _ in range(150 if tier == 'quick' else 1500):
        cases.append(gen_order_case(rng))
    for _ in range(100 if tier == 'quick' else 1000):
        cases.append(gen_case(rng, with_none=True))
    for _ in range(250 if tier == 'quick' else 2500):
        cases.append(gen_late_case(rng))
    for _ in range(n_rand):
        cases.append(gen_case(rng))
    for _ in range(n_file):
        cases.append(gen_case(rng, with_files=True))
    return cases


def _corpus():
    import glob
    import json
    from common.coqlit import uncanon
    for p in sorted(glob.glob(os.path.join(VERIF, 'corpus', 'C10', '*.json'))):
        yield _tuplify(uncanon(json.load(open(p))['case']))


def _tuplify(c):
    return c


def kind(case):
    prog, hist = case[0], case[1]
    if any(len(e) == 3 for e in hist):
        return 'order'
    if any(len(e) == 1 for e in hist):
        return 'late'
    if any(c[0] == TRANSFORM and c[2] == 6 for c in prog):
        return 'none'
    if any(c[0] == FILE for c in prog):
        return 'file'
    nsrc = sum(1 for c in prog if c[0] in (QUEUE, FILE))
    binary = any(c[0] in (UNION, COGROUPED, TRANSFORMWITH) for c in prog)
    return f'src{nsrc}{"-dag" if binary else "-tree"}-t{len(hist)}'


def nontrivial(case, result):
    if isinstance(result, Err):
        return False
    struct, _, ticks = result
    for _, states, _ in ticks:
        for (k, _), (_, o) in zip(struct, states):
            if k != 0 and o is not None and o[2]:
                return True
    return False


def shrink_candidates(case):
    prog, hist = case[0], case[1]
    # fewer ticks
    for i in range(len(hist)):
        yield (prog, hist[:i] + hist[i + 1:])
    if any(len(e) != 2 for e in hist):
        return
    # drop a call nobody refers to
    for i in range(len(prog) - 1, -1, -1):
        used = False
        for c in prog[i + 1:]:
            refs = []
            if c[0] not in (QUEUE, FILE):
                refs.append(c[1])
                if c[0] in (UNION, COGROUPED, TRANSFORMWITH):
                    refs.append(c[2])
            if i in refs:
                used = True
        if used:
            continue
        new = []
        for c in prog[:i] + prog[i + 1:]:
            if c[0] in (QUEUE, FILE):
                new.append(c)
                continue
            c = list(c)
            if c[1] > i:
                c[1] -= 1
            if c[0] in (UNION, COGROUPED, TRANSFORMWITH) and c[2] > i:
                c[2] -= 1
            new.append(tuple(c))
        h2 = [(t, [((h - 1 if h > i else h), ls) for h, ls in env if h != i]) for t, env in hist]
        if new:
            yield (new, h2)
    # smaller batches (the presentation info, if any, is kept in step)
    for i, c in enumerate(prog):
        if c[0] == QUEUE:
            _, bs, one, d = c[:4]
            meta = c[4] if len(c) > 4 else None

            def q(bs2, drop=None):
                if meta is None:
                    return (QUEUE, bs2, one, d)
                ep, dp, (ck, ek, dk, mut) = meta
                if drop is not None:
                    ep, ek = ep[:drop] + ep[drop + 1:], ek[:drop] + ek[drop + 1:]
                return (QUEUE, bs2, one, d, (ep, dp, (ck, ek, dk, mut)))
            for j in range(len(bs)):
                yield (prog[:i] + [q(bs[:j] + bs[j + 1:], j)] + prog[i + 1:], hist)
                if bs[j]:
                    yield (prog[:i] + [q(bs[:j] + [bs[j][1:]] + bs[j + 1:])] + prog[i + 1:], hist)
            if meta is not None:
                # plain lists everywhere
                plain = (QUEUE, bs, one, d)
                yield (prog[:i] + [plain] + prog[i + 1:], hist)
