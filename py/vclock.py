"""Virtual clock for pysparkling.streaming (used by C10).

`pysparkling.streaming.context` looks up `PeriodicCallback` and `time` as module globals when
`StreamingContext.start()` runs.  Inside a `VirtualClock` block both are replaced:
`PeriodicCallback` by a fake that only captures the callback built by the REAL `start()`, and
`time` by an object whose `.time()` returns the virtual time.  `fire(t)` sets the clock and calls
the captured callback once -- one batch interval.  Nothing in /repo is modified; no IOLoop runs."""
import pysparkling.streaming.context as _ctx


class _FakePCB:
    def __init__(self, clock, callback, callback_time):
        self.callback = callback
        self.callback_time = callback_time
        self.started = False
        clock.pcbs.append(self)

    def start(self):
        self.started = True

    def stop(self):
        self.started = False

    def is_running(self):
        return self.started


class _Time:
    def __init__(self):
        self.now = 0.0
        self.reads = 0

    def time(self):
        self.reads += 1
        return self.now


class VirtualClock:
    def __init__(self):
        self.pcbs = []
        self.clock = _Time()
        self._saved = None

    def __enter__(self):
        self._saved = (_ctx.PeriodicCallback, _ctx.time)
        _ctx.PeriodicCallback = lambda cb, ms: _FakePCB(self, cb, ms)
        _ctx.time = self.clock
        return self

    def __exit__(self, *exc):
        _ctx.PeriodicCallback, _ctx.time = self._saved
        _ctx.StreamingContext._activeContext = None
        return False

    def fire(self, t):
        """One batch interval at virtual time t: run the callback that start() registered."""
        assert len(self.pcbs) == 1 and self.pcbs[0].started, 'start() did not register exactly one periodic callback'
        self.clock.now = t
        self.pcbs[0].callback()
