"""C06 -- transformations are lazy and actions evaluate each element exactly once.

case = (src, stages, action)
  src    = (0, xs, n)            -> Context().parallelize(xs, n)     (n = 0: parallelize(xs), the default)
           (1, parts, 0)         -> RDD([Partition(p, i) ...], ctx)   (arbitrary partitioning, empty partitions anywhere)
  stages = [(kind, code, flag), ...]   kind: 0 map, 1 filter, 2 flatMap, 3 sample, 4 persist, 5 mapPartitions[WithIndex]
                                       with a list-returning function (eager), 6 mapPartitionsWithIndex with a generator
                                       function that yields the sum, 7 cache()
  action = (acode, a1, a2, a3)   see ACTIONS; (13, [action, ...], 0, 0) = a HISTORY: the actions run one after the
                                 other on the SAME dataset object (lineage without persist/cache); log and result
                                 become lists with one entry per action
  sample stages: flag 0/1 = sampler replaced by the logged multiplicity function MFN[code] (without/with replacement);
                 flag >= 2 = the REAL sampler of sample(withReplacement=(flag-2)%2, fraction=FRACS[(flag-2)//2]) at a
                 boundary fraction where its outcome is certain (code = that multiplicity, 0 or 1), wrapped for logging

Elements are ints or one of the falsy / sentinel-like values None, '', False, (), [] ("specials").  In cases, logs
and results a special is written as an int code > 100000 (NONE, STR, FALSE, TUP, LST below); the implementation
sees the real Python objects.  The function library works on codes and is mirrored in coq/Run/C06_run.v.

Every pipeline starts with a hidden stage 0, `mapPartitionsWithIndex(tagger)`, that turns the raw values into
tagged values (int / str / tuple / list subclasses that remember the partition they came from; None and False
cannot be subclassed and take the partition of the element the tagging stage yielded last) and logs the read.  Every library function is
wrapped: the wrapper appends (stage, partition, k, value) to LOG, where k is the number of earlier calls of
that stage function on elements of that partition (= the index of the element in that stage's input when each
element is evaluated once, in order).  impl returns
    ([len(LOG) after each definition step], LOG after the action, canonical result of the action, partitioning)
and the Gallina model (coq/Model/Lazy.v via coq/Run/C06_run.v) must predict exactly that tuple."""
import io
import logging
import os
import shutil
import tempfile

from common.coqlit import Err

import pysparkling
from pysparkling import rdd as rdd_mod
from pysparkling.partition import Partition

ID = 'C06'
KERNELS = []
SHARD = 200
RULE = ('cases (source, pipeline, action): source = parallelize(xs, n) with len 0..8 and n 1..6 (plus n > len), or explicit '
        'partitions incl. empty ones; elements are ints (0 over-represented) and the falsy / sentinel-like values None, \'\', '
        'False, (), [] -- in the data, RETURNED by map functions (for the value 0, for even values, always), yielded by '
        'flatMap functions, kept / dropped by filter predicates (also predicates answering 1 / None instead of bool); '
        'pipeline = hidden tagging stage + 0..4 stages drawn from map/filter/flatMap/sample/persist/cache/mapPartitions'
        '(eager list function)/mapPartitionsWithIndex(generator) with library functions; action = each single-pass action '
        'the output values admit (collect, count, fold, aggregate, foreach always; reduce unless None/False can come out; '
        'sum, stats, countByValue, saveAsTextFile on int outputs), take(n) for EVERY n in 0..len(output)+1, first(), '
        'isEmpty(); sentinel block: 15 sentinel stages x 11 sources placing the special at the head of the first partition / '
        'a whole partition / every head / everywhere / in the data x 5 pipeline shapes x all admissible actions (sampled in '
        'the quick tier, every one-stage isEmpty/first case kept); exhaustive block: length <= 4, <= 3 slices, depth <= 2 over '
        'one representative per stage kind (sampled in the quick tier; the thorough tier adds all depth-3 pipelines over the '
        'representatives on two multi-partition sources); None-position block: a None (in the data or produced by map / '
        'flatMap) at the head / middle / tail of every partition, driven by slice counts 1..6, for every admissible single-pass '
        'action incl. reduce with every reducer; drop-all block: the REAL samplers at boundary fractions (0.0, 1e-300, -1.0 '
        'with and without replacement; 1.0 Bernoulli), filter(False), flatMap([]) below instrumented stages for every '
        'single-pass action; histories: 2-3 actions in sequence on ONE dataset object of an uncached lineage (same action '
        'twice, two members of the stats family, an action after take/first/isEmpty), every per-action log judged; '
        'pair block: keyBy / map-to-pairs, mapValues, flatMapValues, sampleByKey (real per-key samplers, fractions missing '
        'keys) downstream of counted functions, followed by keys() / values() projections; save block: saveAsTextFile / '
        'saveAsPickleFile to targets with and without codec suffix (.gz .bz2 .lzma .xz .zip) on 1 and several partitions; configuration slice: 60/900 cases per action kind re-run with DEBUG logging '
        'enabled; API sweep (extra_checks): every public transformation defined downstream of counted functions; exhausted '
        'block: first / isEmpty / take(n) on ONE partition (parallelize default and numSlices=1) and on several whose '
        'pipeline yields nothing or fewer than n; non-trivial = at least one logged user-function call and >= 1 '
        'pipeline stage; distinct by canonical JSON')
ASSUMPTIONS = [
    'local execution (default DummyPool): partitions are evaluated one after the other by the driver',
    'user functions do not raise (no retries) and are observed through wrappers that log (stage, partition, call index, value)',
    'the sampler of sample() is replaced by a logged deterministic multiplicity function of the element (the random draw '
    'itself is C16); the generator in PartitionwiseSampledRDD.compute is the real one',
    'one action per freshly built lineage on a fresh Context (caches are empty: "uncached lineage"); histories (several '
    'actions on one dataset object) only on lineages without persist/cache',
    'integer element values stay below 100000 (codes above denote the special values); sum-like partition functions '
    'are only applied to ints; reduce is not run on outputs containing None / False',
    'parallelize slicing is modelled locally (sizes (i+1)L/n - iL/n, remainder to the last slice); C07 owns that contract',
]
TRUSTED = ['py/c06.py wrappers (logging; int/str/tuple/list subclasses as partition tags; None and False are attributed '
           'to the partition of the tagged element seen last)', 'encoding of None, \'\', False, (), [] as codes 100001..100005', 'function library pairs py/c06.py <-> coq/Run/C06_run.v']

MAP, FILTER, FLATMAP, SAMPLE, PERSIST, EAGER, GENSUM, CACHE, KEYBY, MAPVALUES, FLATMAPVALUES, SAMPLEBYKEY, \
    KEYS, VALUES = range(14)
KIND_NAMES = ['map', 'filter', 'flatMap', 'sample', 'persist', 'mapPartitions', 'genSum', 'cache',
              'keyBy', 'mapValues', 'flatMapValues', 'sampleByKey', 'keys', 'values']
ELEMENTWISE = (MAP, FILTER, FLATMAP, SAMPLE, KEYBY, MAPVALUES, FLATMAPVALUES, SAMPLEBYKEY)
PAIR_STAGES = (MAPVALUES, FLATMAPVALUES, SAMPLEBYKEY, KEYS, VALUES)
# codec suffixes of saveAsTextFile / saveAsPickleFile targets: (A_SAVE, suffix index, 0 text | 1 pickle, 0)
SUFFIXES = ['', '.gz', '.bz2', '.lzma', '.xz', '.zip']

A_COLLECT, A_COUNT, A_SUM, A_REDUCE, A_FOLD, A_AGGREGATE, A_FOREACH, A_COUNTBYVALUE, A_STATS, A_SAVE, \
    A_TAKE, A_FIRST, A_ISEMPTY, A_HISTORY = range(14)
ACTIONS = ['collect', 'count', 'sum', 'reduce', 'fold', 'aggregate', 'foreach', 'countByValue', 'stats',
           'saveAsTextFile', 'take', 'first', 'isEmpty', 'history']
# the stats family: (A_STATS, member, 0, 0); every member is one pass through stats()
STATS_FAMILY = ['stats', 'mean', 'max', 'min', 'stdev', 'variance', 'sampleStdev', 'sampleVariance']
# boundary fractions at which the real samplers are deterministic: never / always (Bernoulli) / never / never
FRACS = [0.0, 1.0, 1e-300, -1.0]
SINGLE_PASS = range(10)

# ---- element domain: ints and the falsy / sentinel-like "specials", written as codes -------------------------------
NONE, STR, FALSE, TUP, LST = 100001, 100002, 100003, 100004, 100005
SPECIALS = [NONE, STR, FALSE, TUP, LST]
UNTAGGABLE = (NONE, FALSE)


def sp(c):
    return c > 100000


# (key, value) pairs of small ints are written as codes >= 200000 (so they count as "special" for the int functions)
def pair(k, v):
    assert -100 <= k < 900 and -100 <= v < 900, (k, v)
    return 200000 + (k + 100) * 1000 + (v + 100)


def ispair(c):
    return c >= 200000


def unpair(c):
    return (c - 200000) // 1000 - 100, (c - 200000) % 1000 - 100


class E(int):
    """An int that remembers the partition it was read from."""

    def __new__(cls, v, pid=-1):
        o = int.__new__(cls, v)
        o.pid = pid
        return o


class EStr(str):
    pass


class ETup(tuple):
    pass


class EList(list):
    pass


def raw(c):
    """code -> plain Python object (source data)"""
    return {NONE: None, STR: '', FALSE: False, TUP: (), LST: []}[c] if sp(c) else c


def obj(c, pid):
    """code -> tagged Python object"""
    if c == NONE:
        return None
    if c == FALSE:
        return False
    if ispair(c):
        k, v = unpair(c)
        val = E(v, pid)
        val.key = k          # lets the function of mapValues / flatMapValues (which only sees the value) log the pair
        o = ETup((E(k, pid), val))
    elif c == STR:
        o = EStr('')
    elif c == TUP:
        o = ETup(())
    elif c == LST:
        o = EList([])
    else:
        return E(c, pid)
    o.pid = pid
    return o


def enc(x):
    """Python object -> code"""
    if x is None:
        return NONE
    if x is False:
        return FALSE
    if isinstance(x, str):
        return STR
    if isinstance(x, tuple):
        return pair(enc(x[0]), enc(x[1])) if len(x) == 2 else TUP
    if isinstance(x, list):
        return LST
    return int(x)


# ---- function library on codes (the Gallina twins are in coq/Run/C06_run.v) -------------------------------------
def lift(f):
    return lambda x: x if sp(x) else f(x)


FN = [lift(lambda x: x + 1), lift(lambda x: 2 * x), lift(lambda x: -x), lift(lambda x: x % 7), lambda x: 0,
      lift(lambda x: NONE if x == 0 else x),          # 5: None for the value 0 (d.get with a missing key)
      lambda x: NONE,                                  # 6: a function without return value
      lift(lambda x: FALSE if x % 2 == 0 else x),      # 7
      lambda x: STR,                                   # 8
      lift(lambda x: SPECIALS[x % 5]),                 # 9: every special
      lift(lambda x: 0 if x % 2 == 1 else x),          # 10: falsy int
      lift(lambda x: pair(x % 3, x))]                  # 11: map to (key, value) pairs
PRED = [lambda x: sp(x) or x % 2 == 0, lambda x: sp(x) or x > 0, lambda x: True, lambda x: False,
        lambda x: sp(x) or x % 5 < 3, sp, lambda x: not sp(x)]
GFN = [lambda x: [x, x], lambda x: [x] if sp(x) else list(range(x % 4)), lambda x: [], lambda x: [x],
       lambda x: [x] if sp(x) else [x, x + 1],
       lambda x: [NONE, x],                                         # 5
       lambda x: [x] if sp(x) else ([NONE] if x % 2 == 0 else [x]),  # 6
       lambda x: [NONE, NONE],                                      # 7
       lambda x: [x, FALSE, STR]]                                   # 8
MFN = [lambda x: 0, lambda x: 1, lambda x: 1 if sp(x) else x % 3, lambda x: 1 if sp(x) or x % 2 == 0 else 0, lambda x: 2]
HFN = [list, sorted, lambda xs: list(reversed(xs)), lambda xs: xs[1:], lambda xs: [sum(xs)]]


def lift2(f):
    return lambda a, b: b if sp(a) or sp(b) else f(a, b)


OP = [lift2(lambda a, b: a + b), lift2(max), lift2(lambda a, b: a - b), lambda a, b: b,
      lambda a, b: b if sp(a) else a,                             # 4: first non-null
      lambda a, b: ((a % 1009) * 3 + b % 1009) % 1009]            # 5: order-sensitive digest of everything seen
# pair datasets: keyBy(KF), mapValues(VF), flatMapValues(GV), sampleByKey(fractions) with the REAL per-key samplers at
# fractions where the outcome is certain (1.0 Bernoulli: always; 0.0 or a key without fraction: never)
KF = [lambda x: x % 2, lambda x: x % 3, lambda x: 0]
VF = [lambda v: v + 1, lambda v: 2 * v, lambda v: 0]
GV = [lambda v: [v, v], lambda v: [], lambda v: list(range(v % 3))]
FRACTIONS = [{0: 1.0, 1: 0.0, 2: 1.0}, {}, {0: 0.0, 1: 0.0, 2: 0.0}, {1: 0.0}, {0: 1.0}]
KEPT_KEYS = [{0, 2}, set(), set(), set(), {0}]        # Bernoulli; with replacement only tables 1..3 (nothing is drawn)


def keyby_code(c):
    return lambda x: x if sp(x) else pair(KF[c](x), x)


def mapvalues_code(c):
    return lambda pc: pair(unpair(pc)[0], VF[c](unpair(pc)[1])) if ispair(pc) else pc


def flatmapvalues_code(c):
    return lambda pc: [pair(unpair(pc)[0], w) for w in GV[c](unpair(pc)[1])] if ispair(pc) else [pc]


def samplebykey_code(c):
    return lambda pc: (1 if unpair(pc)[0] in KEPT_KEYS[c] else 0) if ispair(pc) else 0


NLIB = {KEYBY: len(KF), MAPVALUES: len(VF), FLATMAPVALUES: len(GV), SAMPLEBYKEY: len(FRACTIONS), MAP: len(FN), FILTER: len(PRED), FLATMAP: len(GFN), SAMPLE: len(MFN), EAGER: len(HFN)}


class Rec:
    def __init__(self):
        self.log = []
        self.cnt = {}
        self.cur = -1      # partition of the tagged element (or partition index) seen last

    def rec(self, stage, pid, value):
        k = self.cnt.get((stage, pid), 0)
        self.cnt[(stage, pid)] = k + 1
        self.log.append((stage, pid, k, enc(value)))

    def pid(self, x):
        """partition of an element: its tag; None / False carry no tag and belong to the partition being read;
        anything else (a plain int: a partial result) has none"""
        if hasattr(x, 'pid'):
            self.cur = x.pid
            return x.pid
        if isinstance(x, tuple) and len(x) == 2:
            return self.pid(x[1])         # a plain (key, value) pair built by keyBy / mapValues: the value is tagged
        if x is None or x is False:
            return self.cur
        return -1


def build(R, ctx, src, stages):
    """Define the lineage with the real API; returns the rdd. Nothing here may call a wrapped function."""
    if src[0] == 0:
        rdd = ctx.parallelize([raw(c) for c in src[1]], src[2] or None)     # n = 0 stands for the default (None)
    else:
        rdd = rdd_mod.RDD([Partition([raw(c) for c in p], i) for i, p in enumerate(src[1])], ctx)

    def tagger(i, it):
        for v in it:
            R.cur = i
            R.rec(0, i, v)
            yield obj(enc(v), i)
    rdd = rdd.mapPartitionsWithIndex(tagger)
    seen = [len(R.log)]
    for s, (k, c, flag) in enumerate(stages, 1):
        rdd = define_stage(R, rdd, s, k, c, flag)
        seen.append(len(R.log))
    return rdd, seen


def define_stage(R, rdd, s, k, c, flag):
    if k == MAP:
        f = FN[c]

        def w(x):
            pid = R.pid(x)
            R.rec(s, pid, x)
            return obj(f(enc(x)), pid)
        return rdd.map(w)
    if k == FILTER:
        f = PRED[c]

        def w(x):
            R.rec(s, R.pid(x), x)
            r = f(enc(x))
            # flag: a predicate that answers with truthy / falsy OBJECTS instead of bool
            return [r, (1 if r else None), ('x' if r else ''), ([0] if r else []), (1.5 if r else 0.0)][flag]
        return rdd.filter(w)
    if k == FLATMAP:
        f = GFN[c]

        def w(x):
            pid = R.pid(x)
            R.rec(s, pid, x)
            out = [obj(v, pid) for v in f(enc(x))]
            # flag: the function returns a list / an iterator / a tuple / a generator
            return [out, iter(out), tuple(out), (o for o in out)][flag]
        return rdd.flatMap(w)
    if k == SAMPLE:
        f = MFN[c]
        if flag >= 2:
            # the real sampler at a boundary fraction, wrapped for logging (an RDD without a sampler logs nothing)
            r = rdd.sample(bool((flag - 2) % 2), FRACS[(flag - 2) // 2], seed=7)
            orig = getattr(r, 'sampler', None)
            if orig is not None:
                def wr(x, rng=None, numpy_rng=None):
                    R.rec(s, R.pid(x), x)
                    return orig(x, rng, numpy_rng)
                r.sampler = wr
            return r

        def w(x, rng=None, numpy_rng=None):
            R.rec(s, R.pid(x), x)
            return f(enc(x))
        saved = {}
        for name in ('BernoulliSampler', 'PoissonSampler'):
            if hasattr(rdd_mod, name):
                saved[name] = getattr(rdd_mod, name)
                setattr(rdd_mod, name, lambda fraction, _w=w: _w)
        try:
            r = rdd.sample(bool(flag), 0.5, seed=7)
        finally:
            for name, v in saved.items():
                setattr(rdd_mod, name, v)
        if getattr(r, 'sampler', w) is not w:
            r.sampler = w
        return r
    if k == KEYBY:
        f = KF[c]

        def w(x):
            R.rec(s, R.pid(x), x)
            x.key = f(enc(x))
            return E(x.key, R.pid(x))      # a tagged key, so that keys() yields elements that know their partition
        return rdd.keyBy(w)
    if k == MAPVALUES:
        f = VF[c]

        def w(v):
            pid = R.pid(v)
            R.rec(s, pid, pair(v.key, enc(v)))
            out = E(f(enc(v)), pid)
            out.key = v.key
            return out
        return rdd.mapValues(w)
    if k == FLATMAPVALUES:
        f = GV[c]

        def w(v):
            pid = R.pid(v)
            R.rec(s, pid, pair(v.key, enc(v)))
            out = []
            for u in f(enc(v)):
                o = E(u, pid)
                o.key = v.key
                out.append(o)
            return iter(out) if flag else out
        return rdd.flatMapValues(w)
    if k == SAMPLEBYKEY:
        r = rdd.sampleByKey(bool(flag), dict(FRACTIONS[c]), seed=7)
        orig = getattr(r, 'sampler', None)
        if orig is not None:
            def wr(x, rng=None, numpy_rng=None):
                R.rec(s, R.pid(x), x)
                return orig(x, rng, numpy_rng)
            r.sampler = wr
        return r
    if k == KEYS:
        return rdd.keys()
    if k == VALUES:
        return rdd.values()
    if k == PERSIST:
        return rdd.persist()
    if k == CACHE:
        return rdd.cache()
    if k == EAGER:
        h = HFN[c]
        if flag:
            def w(i, it):
                R.cur = i
                R.rec(s, i, 0)
                return [obj(v, i) for v in h([enc(x) for x in it])]
            return rdd.mapPartitionsWithIndex(w)

        def w(it):
            R.rec(s, -1, 0)
            xs = list(it)
            pid = R.pid(xs[0]) if xs else -1
            return [obj(v, pid) for v in h([enc(x) for x in xs])]
        return rdd.mapPartitions(w)
    if k == GENSUM:
        def w(i, it):
            R.cur = i
            R.rec(s, i, 0)
            yield obj(sum(enc(x) for x in it), i)
        return rdd.mapPartitionsWithIndex(w)
    raise ValueError(k)


def run_action(R, rdd, sa, action):
    a, a1, a2, a3 = action
    if a == A_COLLECT:
        return [enc(x) for x in rdd.collect()]
    if a == A_COUNT:
        return int(rdd.count())
    if a == A_SUM:
        return int(rdd.sum())
    if a == A_REDUCE:
        op = OP[a1]

        def w(x, y):
            R.rec(sa, R.pid(y), y)
            return int(op(enc(x), enc(y)))       # always a plain int (the code of the result)
        return enc(rdd.reduce(w))
    if a == A_FOLD:
        op = OP[a2]

        def w(x, y):
            R.rec(sa, R.pid(y), y)
            return int(op(enc(x), enc(y)))
        return enc(rdd.fold(a1, w))
    if a == A_AGGREGATE:
        seq, comb = OP[a2], OP[a3]

        def ws(x, y):
            R.rec(sa, R.pid(y), y)
            return int(seq(enc(x), enc(y)))

        def wc(x, y):
            R.rec(sa + 1, R.pid(y), y)
            return int(comb(enc(x), enc(y)))
        return enc(rdd.aggregate(a1, ws, wc))
    if a == A_FOREACH:
        # a1: what the function RETURNS (foreach ignores it): nothing / the new tally / the element itself (dict.setdefault
        # style, truthy for most) / truthy for odd codes only / a non-empty list
        tally = [0]

        def w(x):
            R.rec(sa, R.pid(x), x)
            tally[0] += 1
            return [None, tally[0], x, (enc(x) % 2 or None), [x]][a1]
        return rdd.foreach(w)
    if a == A_COUNTBYVALUE:
        d = rdd.countByValue()
        return sorted((enc(k), int(v)) for k, v in d.items())
    if a == A_STATS:
        if a1 == 0:
            return int(rdd.stats().count())
        getattr(rdd, STATS_FAMILY[a1])()       # the value is C17's business
        return True
    if a == A_SAVE:
        base = os.path.join(os.environ.get('VERIF_ROOT', '/verif'), '.work')
        os.makedirs(base, exist_ok=True)
        d = tempfile.mkdtemp(prefix='c06_', dir=base)
        text = {'None': NONE, '': STR, 'False': FALSE, '()': TUP, '[]': LST}
        try:
            path = os.path.join(d, 'out' + SUFFIXES[a1])
            if a2 == 1:
                rdd.saveAsPickleFile(path)
                return [enc(x) for x in pysparkling.Context().pickleFile(path).collect()]
            rdd.saveAsTextFile(path)
            if a1:
                lines = pysparkling.Context().textFile(path).collect()      # read back through the codec
            elif os.path.isdir(path):
                names = sorted(n for n in os.listdir(path) if n.startswith('part-'))
                lines = []
                for n in names:
                    with open(os.path.join(path, n)) as f:
                        lines.extend(f.read().split('\n')[:-1])
            else:
                with open(path) as f:
                    lines = f.read().split('\n')[:-1]
            return [text[l] if l in text else int(l) for l in lines]
        finally:
            shutil.rmtree(d, ignore_errors=True)
    if a == A_TAKE:
        return [enc(x) for x in rdd.take(a1)]
    if a == A_FIRST:
        return enc(rdd.first())
    if a == A_ISEMPTY:
        return bool(rdd.isEmpty())
    raise ValueError(a)


def partitioning(src):
    if src[0] == 0:
        return [[enc(x) for x in p]
                for p in pysparkling.Context().parallelize([raw(c) for c in src[1]], src[2] or None).glom().collect()]
    return [list(p) for p in src[1]]


def impl(case):
    if len(case) > 3 and case[3]:
        # non-default process configuration: DEBUG logging for the 'pysparkling' loggers, records formatted into a buffer
        lg = logging.getLogger('pysparkling')
        saved = (lg.level, lg.propagate, logging.root.manager.disable)
        handler = logging.StreamHandler(io.StringIO())
        try:
            logging.disable(logging.NOTSET)
            lg.setLevel(logging.DEBUG)
            lg.propagate = False
            lg.addHandler(handler)
            return _impl(case[:3])
        finally:
            lg.removeHandler(handler)
            lg.setLevel(saved[0])
            lg.propagate = saved[1]
            logging.disable(saved[2])
    return _impl(case[:3])


def _impl(case):
    src, stages, action = case
    parts = partitioning(src)
    R = Rec()
    ctx = pysparkling.Context()
    rdd, ndef = build(R, ctx, src, stages)
    sa = len(stages) + 1
    if action[0] != A_HISTORY:
        return (ndef, _run_logged(R, rdd, sa, action), _LAST[0], parts)
    logs, results = [], []
    for act in action[1]:          # the same dataset object, one action after the other
        logs.append(_run_logged(R, rdd, sa, act))
        results.append(_LAST[0])
    return (ndef, logs, results, parts)


_LAST = [None]


def _run_logged(R, rdd, sa, action):
    """run one action with a fresh log and fresh call counters; returns its log (the result goes to _LAST)"""
    R.log, R.cnt = [], {}
    try:
        _LAST[0] = run_action(R, rdd, sa, tuple(action))
    except Exception as e:  # pylint: disable=broad-except
        _LAST[0] = Err(type(e).__name__)
    return list(R.log)


# ---- oracle: the statement of C06 evaluated on the recorded log alone -----------------------------------------
def plain_stage(k, c, xs):
    if k == MAP:
        return [FN[c](x) for x in xs]
    if k == FILTER:
        return [x for x in xs if PRED[c](x)]
    if k == FLATMAP:
        return [y for x in xs for y in GFN[c](x)]
    if k == SAMPLE:
        return [x for x in xs for _ in range(MFN[c](x))]
    if k == KEYBY:
        return [keyby_code(c)(x) for x in xs]
    if k == MAPVALUES:
        return [mapvalues_code(c)(x) for x in xs]
    if k == FLATMAPVALUES:
        return [y for x in xs for y in flatmapvalues_code(c)(x)]
    if k == SAMPLEBYKEY:
        return [x for x in xs for _ in range(samplebykey_code(c)(x))]
    if k == KEYS:
        return [unpair(x)[0] if ispair(x) else x for x in xs]
    if k == VALUES:
        return [unpair(x)[1] if ispair(x) else x for x in xs]
    if k in (PERSIST, CACHE):
        return list(xs)
    if k == EAGER:
        return list(HFN[c](list(xs)))
    if k == GENSUM:
        return [sum(xs)]
    raise ValueError(k)


def stage_inputs(parts, stages):
    """inputs[s][p] = plain-list input of stage s (0 = tagger) in partition p; inputs[len+1][p] = pipeline output."""
    cur = [list(p) for p in parts]
    inputs = [cur, cur]    # the tagger (stage 0) and stage 1 read the raw partitions
    for (k, c, _f) in stages:
        cur = [plain_stage(k, c, xs) for xs in cur]
        inputs.append(cur)
    return inputs          # inputs[len(stages) + 1] = output of the pipeline


def oracle(case, result):
    src, stages, action = case[:3]
    if isinstance(result, Err):
        return None
    ndef, log, res, parts = result
    if any(ndef):
        step = next(i for i, c in enumerate(ndef) if c)
        what = KIND_NAMES[stages[step - 1][0]] if step else 'source'
        return (f'define:{what}:user-function-called', f'{ndef[step]} calls logged while defining step {step} ({what})')
    if action[0] != A_HISTORY:
        return judge(stages, parts, action, log, res)
    # a history on an uncached lineage: every action is judged on its own log -- exactly once, again
    prev = 'define'
    for act, l, r in zip(action[1], log, res):
        o = judge(stages, parts, tuple(act), l, r)
        if o is not None:
            return (f'after-{prev}:{o[0]}', f'history {[ACTIONS[a[0]] for a in action[1]]}: {o[1]}')
        prev = ACTIONS[act[0]]
    return None


def judge(stages, parts, action, log, res):
    """the clauses of C06 for ONE action, given the calls logged while it ran"""
    aname = ACTIONS[action[0]]
    inputs = stage_inputs(parts, stages)
    nst = len(stages)
    if action[0] in SINGLE_PASS:
        # every element-wise user function (and the tagger) exactly once per element it applies to
        for s in range(0, nst + 1):
            k = MAP if s == 0 else stages[s - 1][0]
            if k not in ELEMENTWISE:
                continue
            for p, xs in enumerate(inputs[s]):
                got = sorted((j, v) for (st, pp, j, v) in log if st == s and pp == p)
                want = sorted(enumerate(xs))
                if got != want:
                    return (f'{aname}:{KIND_NAMES[k] if s else "source"}:not-exactly-once',
                            f'stage {s} partition {p}: calls {got}, elements {want}')
            stray = [e for e in log if e[0] == s and not 0 <= e[1] < len(parts)]
            if stray:
                return (f'{aname}:{KIND_NAMES[k]}:not-exactly-once', f'stage {s}: stray calls {stray[:3]}')
        # partition-level user functions exactly once per partition
        for s in range(1, nst + 1):
            k, _c, flag = stages[s - 1]
            if k in (EAGER, GENSUM):
                n = sum(1 for e in log if e[0] == s)
                if n != len(parts):
                    return (f'{aname}:{KIND_NAMES[k]}:not-once-per-partition', f'stage {s}: {n} calls, {len(parts)} partitions')
        # the action's own function: once per element it applies to
        outs = inputs[nst + 1]
        sa = nst + 1
        if action[0] in (A_FOREACH, A_FOLD, A_AGGREGATE):
            for p, xs in enumerate(outs):
                got = sorted((j, v) for (st, pp, j, v) in log if st == sa and pp == p)
                if got != sorted(enumerate(xs)):
                    return (f'{aname}:function:not-exactly-once', f'partition {p}: calls {got}, elements {list(enumerate(xs))}')
        if action[0] == A_REDUCE:
            n = sum(1 for e in log if e[0] == sa)
            total = sum(len(xs) for xs in outs)
            if n != max(0, total - 1):
                return (f'{aname}:function:call-count', f'{n} calls for {total} elements')
        return None
    # take / first / isEmpty
    n = action[1] if action[0] == A_TAKE else 1
    outs = inputs[nst + 1]
    keys = [(s, p, j) for (s, p, j, _v) in log]
    if len(set(keys)) != len(keys):
        dup = sorted(k for k in set(keys) if keys.count(k) > 1)
        return (f'{aname}:element-evaluated-twice', f'evaluated more than once: {dup[:4]}')
    # never evaluate an element twice, stated per function: the index logged with a call is the number of EARLIER calls
    # of that function in that partition, so the calls of an element-wise stage must be calls on distinct elements of
    # its plain-list input, in order -- at most one call per element, in particular no more calls than elements (a
    # partition that is computed a second time, e.g. when the pipeline yields nothing, shows up here);
    # a partition-level function is called at most once per partition
    for s in range(0, nst + 1):
        k = MAP if s == 0 else stages[s - 1][0]
        name = KIND_NAMES[k] if s else 'source'
        if k in ELEMENTWISE:
            for p, xs in enumerate(inputs[s]):
                calls = [(j, v) for (st, pp, j, v) in log if st == s and pp == p]
                if len(calls) > len(xs) or any(j >= len(xs) or xs[j] != v for j, v in calls):
                    return (f'{aname}:{name}:element-evaluated-twice',
                            f'stage {s} partition {p}: {len(calls)} calls {calls[:6]} on the {len(xs)} elements {xs[:6]}')
        elif k in (EAGER, GENSUM):
            per = {}
            for e in log:
                if e[0] == s:
                    per[_event_partition(e)] = per.get(_event_partition(e), 0) + 1
            if any(c > 1 for c in per.values()) or len([e for e in log if e[0] == s]) > len(parts):
                return (f'{aname}:{name}:partition-evaluated-twice', f'stage {s}: calls per partition {per}')
    if n == 0:
        if log:
            return (f'{aname}:zero-evaluates', f'take(0) logged {log[:3]}')
        return None
    returned = len(res) if action[0] == A_TAKE else (1 if (action[0] == A_FIRST and not isinstance(res, Err)) or
                                                      (action[0] == A_ISEMPTY and res is False) else 0)
    if returned >= 1:
        # partition containing the last returned element (plain-list semantics)
        cum, q = 0, None
        for p, xs in enumerate(outs):
            cum += len(xs)
            if cum >= returned:
                q = p
                break
        if q is not None and returned == n:
            late = [e for e in log if _event_partition(e) > q]
            if late:
                return (f'{aname}:partition-after-last-returned',
                        f'n={n} returned {returned}, last returned element is in partition {q}, but evaluated {late[:4]}')
    return None


def _event_partition(e):
    s, p, j, _v = e
    return p if p >= 0 else j


def nontrivial(case, result):
    if isinstance(result, Err):
        return False
    return len(case[1]) >= 1 and len(result[1]) > 0


def kind(case):
    cfg = '+debuglog' if len(case) > 3 and case[3] else ''
    if case[2][0] == A_HISTORY:
        return f'history{len(case[2][1])}/d{len(case[1])}{cfg}'
    return f'{ACTIONS[case[2][0]]}/d{len(case[1])}{cfg}'


# ---- generators -------------------------------------------------------------------------------------------
REPR = [(MAP, 0, 0), (FILTER, 0, 0), (FLATMAP, 1, 0), (SAMPLE, 2, 0), (PERSIST, 0, 0), (EAGER, 2, 1), (GENSUM, 0, 0),
        (FILTER, 3, 0), (MAP, 5, 0)]
# stages that produce / pass / drop None and the other falsy values
SENTINEL_STAGES = [(MAP, 5, 0), (MAP, 6, 0), (MAP, 7, 0), (MAP, 8, 0), (MAP, 9, 0), (MAP, 10, 0), (MAP, 4, 0),
                   (FLATMAP, 5, 0), (FLATMAP, 6, 0), (FLATMAP, 7, 1), (FLATMAP, 8, 0),
                   (FILTER, 5, 0), (FILTER, 5, 1), (FILTER, 6, 1), (FILTER, 2, 1)]
# where the special lands: head of the first partition, a whole partition, heads of all partitions, everything, data
SENTINEL_SOURCES = [(0, [0, 1, 2, 3, 4, 5], 3), (0, [0, 0, 1, 2], 2), (1, [[0, 0], [1, 2], [0]], 0),
                    (1, [[1], [0, 0], [2, 3]], 0), (1, [[0], [0], [0, 5]], 0), (1, [[], [0], [], [4]], 0),
                    (0, [0, 0, 0, 0], 2), (0, [NONE, 1, NONE, 2], 2), (1, [[NONE], [FALSE, STR], [TUP, LST, 3]], 0),
                    (1, [[NONE, NONE], [NONE]], 0), (0, [2, 0, 4, 0, 6, 1], 3)]


def rand_stage(rng):
    k = rng.choice([MAP, MAP, MAP, FILTER, FILTER, FLATMAP, FLATMAP, SAMPLE, PERSIST, EAGER, GENSUM, CACHE])
    c = rng.randrange(NLIB[k]) if k in NLIB else 0
    flag = rng.randrange(2) if k in (SAMPLE, EAGER) else rng.randrange(4) if k == FLATMAP else rng.randrange(5) if k == FILTER else 0
    if k == EAGER and c == 4:
        flag = 1    # [sum(xs)] of an empty partition has no element to take the partition tag from
    if k == SAMPLE and rng.random() < 0.35:
        return rng.choice(DROPPERS[:6] + [KEEP_ALL])    # the real sampler at a boundary fraction
    return (k, c, flag)


def rand_value(rng):
    r = rng.random()
    if r < 0.12:
        return rng.choice(SPECIALS)
    if r < 0.3:
        return 0
    return rng.randint(-3, 9)


def rand_src(rng, maxlen=8):
    L = rng.choice([0, 1, 2, 3, 4, 5, 6, maxlen])
    xs = [rand_value(rng) for _ in range(L)]
    if rng.random() < 0.6:
        return (0, xs, rng.choice([0, 1, 2, 2, 3, 3, 4, 5, 6, L + 2]))
    parts, i = [], 0
    for _ in range(rng.randint(1, 5)):
        m = rng.choice([0, 0, 1, 2, 3])
        parts.append(xs[i:i + m])
        i += m
    return (1, parts, 0)


def src_parts(src):
    return [list(p) for p in src[1]] if src[0] == 1 else _par(src[1], src[2])


def fix_stages(src, stages):
    """sum-like partition functions are only defined on ints: replace them where a special reaches them"""
    stages = list(stages)
    for _ in range(len(stages) + 1):
        inputs = stage_inputs(src_parts(src), stages)
        for s, (k, c, _f) in enumerate(stages, 1):
            if (k == GENSUM or (k == EAGER and c == 4)) and any(sp(x) for xs in inputs[s] for x in xs):
                stages[s - 1] = (EAGER, 0, 1)
                break
        else:
            return stages
    return stages


def out_values(src, stages):
    return [x for xs in stage_inputs(src_parts(src), stages)[-1] for x in xs]


def out_len(src, stages):
    return len(out_values(src, stages))


def _par(xs, n):
    # only used to choose which cases to generate (never to judge)
    if n is None or n <= 1:     # incl. n = 0 = default
        return [list(xs)]
    L, out, i = len(xs), [], 0
    for k in range(n):
        m = (k + 1) * L // n - k * L // n + (1 if k + 1 == n else 0)
        out.append(list(xs[i:i + m]))
        i += m
    return out


def single_actions(rng, src, stages, every_reducer=False):
    """the single-pass actions that the output values of this pipeline admit"""
    outs_pp = stage_inputs(src_parts(src), stages)[-1]
    outs = [x for xs in outs_pp for x in xs]
    special = {x for x in outs if sp(x)}
    singles = [(A_COLLECT, 0, 0, 0), (A_COUNT, 0, 0, 0),
               (A_FOLD, rng.choice([0, 1, -2]), rng.randrange(len(OP)), 0),
               (A_AGGREGATE, rng.choice([0, 3]), rng.randrange(len(OP)), rng.randrange(len(OP))),
               (A_FOREACH, rng.randrange(5), 0, 0), (A_FOREACH, rng.choice([1, 2]), 0, 0), (A_SAVE, 0, 0, 0), (A_SAVE, rng.randrange(len(SUFFIXES)), 1, 0)]
    if STR not in outs:
        singles.append((A_SAVE, rng.randrange(1, len(SUFFIXES)), 0, 0))       # compressed text, read back by textFile
    if not any(len(xs) == 1 and xs[0] in UNTAGGABLE for xs in outs_pp):
        # a one-element partition hands its element itself to the combine step, which runs after the last partition:
        # an untagged None / False could not be attributed there; everywhere else in a partition it can
        ops = range(len(OP)) if every_reducer else [rng.randrange(len(OP))]
        singles.extend((A_REDUCE, o, 0, 0) for o in ops)
    if any(ispair(x) for x in outs):
        singles = [a for a in singles if a[0] != A_SAVE or a[2] == 1]      # lines of pairs are not read back as text
    if special <= {NONE, STR, TUP}:
        singles.append((A_COUNTBYVALUE, 0, 0, 0))       # hashable, and no False that would collide with 0
    if not special:
        singles.extend([(A_SUM, 0, 0, 0), (A_STATS, rng.randrange(len(STATS_FAMILY)), 0, 0)])
    return singles


def actions_for(rng, src, stages, all_single=True, all_take=True, save=False):
    singles = [a for a in single_actions(rng, src, stages) if save or a[0] != A_SAVE]
    acts = list(singles) if all_single else rng.sample(singles, 2)
    n_out = out_len(src, stages)
    ns = list(range(0, n_out + 2))
    if not all_take and len(ns) > 3:
        ns = sorted(rng.sample(ns, 3))
    acts.extend((A_TAKE, n, 0, 0) for n in ns)
    acts.append((A_FIRST, 0, 0, 0))
    acts.append((A_ISEMPTY, 0, 0, 0))
    return acts


def uncached(stages):
    return all(k not in (PERSIST, CACHE) for k, _c, _f in stages)


def histories_for(rng, src, stages, count):
    """sequences of actions on ONE dataset object: the same action twice, two members of one family, an action after
    take / first / isEmpty, three in a row"""
    singles = [a for a in single_actions(rng, src, stages) if a[0] != A_SAVE]
    family = [(A_STATS, m, 0, 0) for m in range(len(STATS_FAMILY))] if any(a[0] == A_STATS for a in singles) else []
    n_out = out_len(src, stages)
    partial = [(A_TAKE, rng.randint(0, n_out + 1), 0, 0), (A_FIRST, 0, 0, 0), (A_ISEMPTY, 0, 0, 0)]
    out = []
    for _ in range(count):
        r = rng.random()
        if r < 0.3:
            a = rng.choice(singles)
            h = [a, a]
        elif r < 0.5 and family:
            h = [rng.choice(family), rng.choice(family)]
        elif r < 0.7:
            h = [rng.choice(partial), rng.choice(singles)]
        elif r < 0.85:
            h = [rng.choice(singles), rng.choice(partial), rng.choice(singles)]
        else:
            h = [rng.choice(singles + partial) for _ in range(3)]
        out.append((A_HISTORY, [tuple(a) for a in h], 0, 0))
    return out


# stages that let nothing through: every stage above them must still be evaluated once per element
DROPPERS = [(SAMPLE, 0, 2), (SAMPLE, 0, 3), (SAMPLE, 0, 6), (SAMPLE, 0, 7), (SAMPLE, 0, 8), (SAMPLE, 0, 9),
            (SAMPLE, 0, 0), (SAMPLE, 0, 1), (FILTER, 3, 0), (FILTER, 3, 1), (FLATMAP, 2, 0), (FLATMAP, 2, 1)]
KEEP_ALL = (SAMPLE, 1, 4)          # the real Bernoulli sampler with fraction 1.0
UPSTREAMS = [[(MAP, 0, 0)], [(FILTER, 0, 0)], [(FLATMAP, 0, 0)], [(SAMPLE, 2, 0)], [(MAP, 5, 0)],
             [(MAP, 0, 0), (FLATMAP, 4, 0)], [(EAGER, 1, 1)], []]
# a None at the head / in the middle / at the tail of partitions: the position is driven by the slice count
NONE_DATA = [[NONE, 1, 2, 3, 4, 5], [1, NONE, 2, NONE, 3, NONE], [1, 2, NONE, 3, 4, NONE], [0, 1, 2, 0, 4, 5, 0, 7],
             [5, 4, 0, 0, 1, 0], [NONE, NONE, 1, 2]]
NONE_PIPES = [[], [(MAP, 5, 0)], [(MAP, 0, 0), (MAP, 5, 0)], [(FLATMAP, 6, 0)], [(MAP, 5, 0), (MAP, 0, 0)], [(FLATMAP, 5, 0)]]


def generate(rng, tier):
    quick = tier == 'quick'
    cases = []
    cases.extend(load_corpus())
    # doctest-like anchors
    base = (0, [1, 2, 3, 4], 2)
    cases.append((base, [(MAP, 0, 0), (CACHE, 0, 0)], (A_FIRST, 0, 0, 0)))
    cases.append(((0, [4, 7, 2], 3), [], (A_TAKE, 2, 0, 0)))
    cases.append(((0, [1, 2], 20), [], (A_FIRST, 0, 0, 0)))
    cases.append(((0, [], 10), [], (A_REDUCE, 0, 0, 0)))
    cases.append(((0, [0], 10), [], (A_REDUCE, 0, 0, 0)))
    # None / falsy / sentinel-like values at chosen positions (head of a partition, whole partition, everything, in the
    # data), produced by map, yielded by flatMap, kept or dropped by filter (incl. truthy/falsy predicates), alone and
    # with a stage before / after; every tolerant single-pass action, take(n) for every n, first(), isEmpty()
    sent = []
    for src in SENTINEL_SOURCES:
        for st in SENTINEL_STAGES:
            pipes = [[st], [st, (MAP, 0, 0)], [(FILTER, 2, 0), st], [st, (PERSIST, 0, 0)], [st, (FILTER, 5, 1)]]
            for pipe in pipes:
                pipe = fix_stages(src, pipe)
                if out_len(src, pipe) > 40:
                    continue
                for act in actions_for(rng, src, pipe):
                    sent.append((src, pipe, act))
    if quick:
        keep = [c for c in sent if c[2][0] in (A_ISEMPTY, A_FIRST) and len(c[1]) == 1]
        sent = keep + rng.sample(sent, 700)
    cases.extend(sent)
    # a None (in the data or produced by a function) at every position of every partition, for EVERY admissible
    # single-pass action incl. reduce with every reducer, and take / first / isEmpty
    pos = []
    for xs in NONE_DATA:
        for n in range(1, 7):
            for pipe in NONE_PIPES:
                src = (0, xs, n)
                if out_len(src, pipe) > 40:
                    continue
                for act in single_actions(rng, src, pipe, every_reducer=True):
                    if act[0] != A_SAVE or rng.random() < 0.1:
                        pos.append((src, list(pipe), act))
                pos.append((src, list(pipe), (A_TAKE, rng.randint(0, out_len(src, pipe) + 1), 0, 0)))
                pos.append((src, list(pipe), (A_ISEMPTY, 0, 0, 0)))
    if quick:
        keep = [c for c in pos if c[2][0] == A_REDUCE and c[2][1] in (3, 5) and len(c[1]) <= 1]
        pos = keep + rng.sample(pos, 500)
    cases.extend(pos)
    # stages that drop everything (sample at its boundary fractions with the real samplers, filter(False), flatMap([]))
    # below instrumented stages: the stages above must be evaluated once per element by every single-pass action
    drop = []
    for src in [(0, [3, 0, 4, 2], 2), (0, [1, 2, 3, 4, 5], 3), (1, [[], [0, 7], [2]], 0)]:
        for up in UPSTREAMS:
            for d in DROPPERS + [KEEP_ALL]:
                for down in ([], [(MAP, 0, 0)]):
                    pipe = fix_stages(src, list(up) + [d] + down)
                    for act in single_actions(rng, src, pipe) + [(A_TAKE, 1, 0, 0), (A_FIRST, 0, 0, 0), (A_ISEMPTY, 0, 0, 0)]:
                        if act[0] != A_SAVE or rng.random() < 0.1:
                            drop.append((src, pipe, act))
    if quick:
        keep = [c for c in drop if c[2][0] == A_COLLECT and c[0][0] == 0 and c[0][2] == 2 and len(c[1]) == 2]
        drop = keep + rng.sample(drop, 500)
    cases.extend(drop)
    # exhausted pipelines on ONE partition (parallelize default and numSlices=1) and on several: the pipeline yields
    # nothing, or fewer than n; first / take(n) / isEmpty must still call every function at most once per element
    for src in [(0, [], 0), (0, [], 1), (0, [3, 0, 4], 0), (0, [3, 0, 4], 1), (0, [5], 0), (1, [[1, 2]], 0),
                (1, [[]], 0), (0, [3, 0, 4], 2), (1, [[], [1]], 0)]:
        for up in ([], [(MAP, 0, 0)], [(FLATMAP, 0, 0)], [(EAGER, 1, 1)], [(MAP, 5, 0), (CACHE, 0, 0)]):
            for d in ([], [(FILTER, 3, 0)], [(FLATMAP, 2, 0)], [(SAMPLE, 0, 0)], [(SAMPLE, 0, 2)], [(FILTER, 6, 0), (FILTER, 5, 0)]):
                pipe = fix_stages(src, list(up) + list(d))
                for act in [(A_FIRST, 0, 0, 0), (A_ISEMPTY, 0, 0, 0)] + \
                        [(A_TAKE, n, 0, 0) for n in range(0, min(out_len(src, pipe), 3) + 2)]:
                    cases.append((src, pipe, act))
    # saveAsTextFile / saveAsPickleFile to targets with and without a compression suffix, on 1 and on several partitions,
    # with empty partitions and with filters that empty partitions: exactly once per element (no probing job)
    saves = []
    for src in [(0, [3, 0, 4], 1), (0, [3, 0, 4, 2, 7], 3), (0, [1, 2], 4), (1, [[], [5, 6], []], 0), (0, [], 2), (0, [NONE, 1], 2)]:
        for pipe in ([], [(MAP, 0, 0)], [(FILTER, 0, 0)], [(MAP, 0, 0), (FILTER, 3, 0)], [(FLATMAP, 1, 0)], [(MAP, 0, 0), (CACHE, 0, 0)]):
            for suf in range(len(SUFFIXES)):
                for pk in (0, 1):
                    if pk == 0 and suf and STR in out_values(src, pipe):
                        continue
                    saves.append((src, list(pipe), (A_SAVE, suf, pk, 0)))
    cases.extend(rng.sample(saves, 150) if quick else saves)
    # pair datasets: keyBy / map-to-pairs, mapValues, flatMapValues and per-key sampling (the real per-key samplers, also
    # with fractions that miss some keys) defined DOWNSTREAM of stages carrying user functions
    pairs = []
    to_pairs = [[(KEYBY, c, 0)] for c in range(len(KF))] + [[(MAP, 11, 0)]]
    on_pairs = [[], [(MAPVALUES, 0, 0)], [(MAPVALUES, 2, 0)], [(FLATMAPVALUES, 0, 0)], [(FLATMAPVALUES, 2, 1)],
                [(FLATMAPVALUES, 1, 0)], [(MAPVALUES, 1, 0), (FLATMAPVALUES, 0, 0)], [(FILTER, 2, 1)], [(CACHE, 0, 0)]]
    samplers = [[]] + [[(SAMPLEBYKEY, c, 0)] for c in range(len(FRACTIONS))] + [[(SAMPLEBYKEY, c, 1)] for c in (1, 2, 3)]
    for src in [(0, [3, 0, 4, 2, 7], 2), (0, [1, 2, 3, 4, 5, 6], 3), (0, [5], 0), (1, [[], [2, 9], [4]], 0)]:
        for up in ([], [(MAP, 0, 0)], [(FILTER, 1, 0), (MAP, 1, 0)]):
            for tp in to_pairs:
                for op in on_pairs:
                    for sm in samplers:
                        for down in ([], [(MAPVALUES, 0, 0)], [(KEYS, 0, 0)], [(VALUES, 0, 0)], [(KEYS, 0, 0), (MAP, 0, 0)]):
                            if not sm and down == [(MAPVALUES, 0, 0)]:
                                continue
                            pipe = list(up) + tp + op + sm + down
                            if out_len(src, pipe) > 40:
                                continue
                            for act in single_actions(rng, src, pipe) + [(A_TAKE, 2, 0, 0), (A_FIRST, 0, 0, 0), (A_ISEMPTY, 0, 0, 0)]:
                                pairs.append((src, pipe, act))
    if quick:
        keep = [c for c in pairs if c[2][0] == A_COLLECT and c[0][2] == 2 and len(c[1]) == 3
                and c[1][-1][0] in (SAMPLEBYKEY, KEYS, VALUES)]
        pairs = keep + rng.sample(pairs, 700)
    else:
        pairs = rng.sample(pairs, 14000)
    cases.extend(pairs)
    # what the functions RETURN must not matter: foreach with every return variant, filter predicates answering with
    # objects, flatMap functions returning tuples / generators, map returning None -- below and above other functions
    rets = []
    for src in [(0, [3, 0, 4, 2, 7], 2), (0, [1, 2, 3], 1), (0, [0, 0, 5, 6], 0), (1, [[], [2, 9, 4], [4]], 0)]:
        for pipe in ([], [(MAP, 0, 0)], [(MAP, 6, 0)], [(MAP, 5, 0)], [(FILTER, 0, 2)], [(FILTER, 1, 3)], [(FILTER, 4, 4)],
                     [(FLATMAP, 0, 2)], [(FLATMAP, 4, 3)], [(MAP, 0, 0), (FILTER, 2, 3), (FLATMAP, 3, 3)]):
            for ret in range(5):
                rets.append((src, list(pipe), (A_FOREACH, ret, 0, 0)))
            for act in single_actions(rng, src, pipe) + [(A_TAKE, 2, 0, 0), (A_ISEMPTY, 0, 0, 0)]:
                if act[0] not in (A_FOREACH, A_SAVE):
                    rets.append((src, list(pipe), act))
    cases.extend(rets)
    # histories: several actions on ONE dataset object (uncached lineages)
    n_hist = 300 if quick else 6000
    while n_hist > 0:
        src = rand_src(rng, 6)
        st = fix_stages(src, [rand_stage(rng) for _ in range(rng.choice([0, 1, 1, 2, 3]))])
        if not uncached(st) or out_len(src, st) > 30:
            continue
        for h in histories_for(rng, src, st, 3):
            cases.append((src, st, h))
            n_hist -= 1
    for src, st in [((0, [1, 2, 3, 4], 2), [(MAP, 0, 0)]), ((0, [5, 1], 2), []), ((1, [[2], [], [7, 8]], 0), [(FILTER, 1, 0)])]:
        for m1 in range(len(STATS_FAMILY)):
            for m2 in ([0, (m1 + 1) % len(STATS_FAMILY)] if quick else range(len(STATS_FAMILY))):
                cases.append((src, st, (A_HISTORY, [(A_STATS, m1, 0, 0), (A_STATS, m2, 0, 0)], 0, 0)))
    # exhaustive small scope: length <= 4, <= 3 slices, depth <= 2 over one representative per stage kind
    pipes = [[]] + [[a] for a in REPR] + [[a, b] for a in REPR for b in REPR]
    small = []
    for L in range(0, 5):
        xs = [0, -1, 4, 2][:L]
        for n in (1, 2, 3):
            if L == 0 and n > 1:
                continue
            for st in pipes:
                src = (0, xs, n)
                st = fix_stages(src, st)
                for act in actions_for(rng, src, st):
                    small.append((src, list(st), act))
    if quick:
        small = rng.sample(small, 1100)
    else:
        # thorough: depth 3 over the representatives on the multi-partition sources
        for a in REPR:
            for b in REPR:
                for c in REPR:
                    for xs, n in (([0, -1, 4], 2), ([3, 0, 4, 2], 3)):
                        src = (0, xs, n)
                        st = fix_stages(src, [a, b, c])
                        if out_len(src, st) > 40:
                            continue
                        for act in actions_for(rng, src, st, all_single=False):
                            small.append((src, st, act))
    cases.extend(small)
    # saveAsTextFile (touches the file system: fewer)
    for _ in range(25 if quick else 300):
        src = rand_src(rng, 6)
        st = fix_stages(src, [rand_stage(rng) for _ in range(rng.randint(0, 3))])
        if not any(ispair(x) for x in out_values(src, st)):
            cases.append((src, st, (A_SAVE, 0, 0, 0)))
    # random deeper pipelines, irregular partitionings, all take(n)
    budget = 1300 if quick else 36000
    while budget > 0:
        src = rand_src(rng)
        st = fix_stages(src, [rand_stage(rng) for _ in range(rng.choice([1, 2, 2, 3, 3, 4]))])
        if out_len(src, st) > 40:
            continue
        acts = actions_for(rng, src, st, all_single=rng.random() < 0.3, all_take=rng.random() < 0.5)
        for act in acts:
            cases.append((src, st, act))
        budget -= len(acts)
    # non-default process configuration: a slice of everything above (every action kind) with DEBUG logging enabled
    # for the 'pysparkling' loggers; logging must not change what is evaluated, so the model is the same
    by_kind = {}
    for c in cases:
        by_kind.setdefault(c[2][0], []).append(c)
    per = 60 if quick else 900
    for a in sorted(by_kind):
        pool = by_kind[a]
        for c in rng.sample(pool, min(per, len(pool))):
            cases.append(tuple(c[:3]) + (1,))
    return cases


def load_corpus():
    import glob
    import json
    from common.coqlit import uncanon
    out = []
    d = os.path.join(os.environ.get('VERIF_ROOT', '/verif'), 'corpus', ID)
    for path in sorted(glob.glob(os.path.join(d, '*.json'))):
        try:
            c = uncanon(json.load(open(path))['case'])
            out.append(_norm(c))
        except Exception:  # pylint: disable=broad-except
            continue
    return out


def _norm(c):
    src, stages, action = c[:3]
    action = tuple(action)
    if action[0] == A_HISTORY:
        action = (A_HISTORY, [tuple(a) for a in action[1]], 0, 0)
    return (tuple(src), [tuple(s) for s in stages], action) + tuple(c[3:])


def well_typed(src, stages):
    """keyBy reads ints, the pair stages read (key, value) pairs (anything else would make a user function raise, and a
    raising task is retried -- that is C04's subject, not a call-count violation)"""
    try:
        inputs = stage_inputs(src_parts(src), stages)
    except Exception:  # pylint: disable=broad-except
        return False
    for s, (k, _c, _f) in enumerate(stages, 1):
        vals = [x for xs in inputs[s] for x in xs]
        if k == KEYBY and any(sp(x) for x in vals):
            return False
        if k in PAIR_STAGES and not all(ispair(x) for x in vals):
            return False
    return True


def shrink_candidates(case):
    for cand in _shrink_candidates(case):
        if well_typed(cand[0], cand[1]):
            yield cand


def _shrink_candidates(case):
    if len(case) > 3:
        yield case[:3]
        for cand in _shrink_candidates(case[:3]):
            yield cand + tuple(case[3:])
        return
    src, stages, action = case
    for i in range(len(stages)):
        yield (src, stages[:i] + stages[i + 1:], action)
    if src[0] == 0:
        xs, n = src[1], src[2]
        for i in range(len(xs)):
            yield ((0, xs[:i] + xs[i + 1:], n), stages, action)
        if n > 1:
            yield ((0, xs, n - 1), stages, action)
    else:
        parts = src[1]
        for i in range(len(parts)):
            if len(parts) > 1:
                yield ((1, parts[:i] + parts[i + 1:], 0), stages, action)
            for j in range(len(parts[i])):
                yield ((1, parts[:i] + [parts[i][:j] + parts[i][j + 1:]] + parts[i + 1:], 0), stages, action)
    if action[0] == A_TAKE and action[1] > 0:
        yield (src, stages, (A_TAKE, action[1] - 1, 0, 0))
    if action[0] == A_HISTORY:
        acts = action[1]
        for i in range(len(acts)):
            if len(acts) > 1:
                yield (src, stages, (A_HISTORY, acts[:i] + acts[i + 1:], 0, 0))


# ---- sweep of the public transformation API: "defining invokes nothing" ---------------------------------------------
# Every transformation below is defined DOWNSTREAM of counted user functions (map(f) and, for pair operations,
# keyBy(g)) and, where it takes a function, with a counted function of its own.  JUDGED (the property's clause:
# element-wise transformations, sampling, persistence): no call while defining, and count() afterwards calls f and g
# exactly once per element.  OBSERVED only (shuffles and multi-dataset operations; several are eager by design in this
# implementation -- on the clean tree ALL of them run jobs while being defined, e.g. randomSplit, zip, cartesian, union,
# coalesce, repartition, sortBy, groupByKey): recorded in the evidence, never judged.
def _sweep_table():
    ident = lambda x: x                                          # noqa: E731
    T = [
        # name, judged, needs pairs, builder(rdd, other, h) -- h is a counted function of the transformation itself
        ('map', True, False, lambda r, o, h: r.map(h)),
        ('flatMap', True, False, lambda r, o, h: r.flatMap(lambda x: [h(x)])),
        ('filter', True, False, lambda r, o, h: r.filter(lambda x: h(x) is not None)),
        ('keyBy', True, False, lambda r, o, h: r.keyBy(h)),
        ('mapPartitions', True, False, lambda r, o, h: r.mapPartitions(lambda it: (h(x) for x in it))),
        ('mapPartitionsWithIndex', True, False, lambda r, o, h: r.mapPartitionsWithIndex(lambda i, it: (h(x) for x in it))),
        ('glom', True, False, lambda r, o, h: r.glom()),
        ('sample(False,0.5)', True, False, lambda r, o, h: r.sample(False, 0.5, seed=3)),
        ('sample(True,1.5)', True, False, lambda r, o, h: r.sample(True, 1.5, seed=3)),
        ('sample(False,0.0)', True, False, lambda r, o, h: r.sample(False, 0.0, seed=3)),
        ('sample(False,1.0)', True, False, lambda r, o, h: r.sample(False, 1.0)),
        ('persist', True, False, lambda r, o, h: r.persist()),
        ('cache', True, False, lambda r, o, h: r.cache()),
        ('zipWithUniqueId', True, False, lambda r, o, h: r.zipWithUniqueId()),
        ('mapValues', True, True, lambda r, o, h: r.mapValues(h)),
        ('flatMapValues', True, True, lambda r, o, h: r.flatMapValues(lambda v: [h(v)])),
        ('keys', True, True, lambda r, o, h: r.keys()),
        ('values', True, True, lambda r, o, h: r.values()),
        ('sampleByKey(False,all keys)', True, True, lambda r, o, h: r.sampleByKey(False, {0: 0.5, 1: 0.5}, seed=3)),
        ('sampleByKey(False,missing key)', True, True, lambda r, o, h: r.sampleByKey(False, {0: 0.5}, seed=3)),
        ('sampleByKey(True,missing key)', True, True, lambda r, o, h: r.sampleByKey(True, {1: 2.0}, seed=3)),
        ('sampleByKey(False,{})', True, True, lambda r, o, h: r.sampleByKey(False, {})),
        # observed only
        ('randomSplit', False, False, lambda r, o, h: r.randomSplit([0.5, 0.5], seed=3)[0]),
        ('zip', False, False, lambda r, o, h: r.zip(r)),
        ('zipWithIndex', False, False, lambda r, o, h: r.zipWithIndex()),
        ('cartesian', False, False, lambda r, o, h: r.cartesian(o)),
        ('union', False, False, lambda r, o, h: r.union(o)),
        ('coalesce', False, False, lambda r, o, h: r.coalesce(1)),
        ('repartition', False, False, lambda r, o, h: r.repartition(3)),
        ('distinct', False, False, lambda r, o, h: r.distinct()),
        ('sortBy', False, False, lambda r, o, h: r.sortBy(h)),
        ('groupBy', False, False, lambda r, o, h: r.groupBy(h)),
        ('intersection', False, False, lambda r, o, h: r.intersection(o)),
        ('subtract', False, False, lambda r, o, h: r.subtract(o)),
        ('groupByKey', False, True, lambda r, o, h: r.groupByKey()),
        ('reduceByKey', False, True, lambda r, o, h: r.reduceByKey(lambda a, b: a)),
        ('sortByKey', False, True, lambda r, o, h: r.sortByKey()),
        ('partitionBy', False, True, lambda r, o, h: r.partitionBy(2)),
        ('join', False, True, lambda r, o, h: r.join(r)),
    ]
    del ident
    return T


SWEEP_OBSERVED = {}


def extra_checks(rng, tier, workdir):   # pylint: disable=unused-argument
    SWEEP_OBSERVED.clear()
    for xs, n in (([3, 1, 4, 1, 5], 2), ([2, 7, 2], 3), ([6], None)):
        for debug in (0, 1):
            for name, judged, pairs, make in _sweep_table():
                calls = {'f': 0, 'g': 0, 'h': 0, 'o': 0}

                def counted(tag, fn, calls=calls):
                    def w(x):
                        calls[tag] += 1
                        return fn(x)
                    return w
                ctx = pysparkling.Context()
                r = ctx.parallelize(list(xs), n).map(counted('f', lambda x: x + 1))
                o = ctx.parallelize([1, 2], 2).map(counted('o', lambda x: x))
                if pairs:
                    r = r.keyBy(counted('g', lambda x: x % 2))
                what = (f'parallelize({xs}, {n}).map(f)' + ('.keyBy(g)' if pairs else '') + f'.{name}'
                        + (' with DEBUG logging' if debug else ''))
                err = None
                try:
                    at_def, after = _sweep_one(make, r, o, counted('h', lambda x: x), calls, debug)
                except Exception as e:  # pylint: disable=broad-except
                    err = type(e).__name__
                    at_def, after = dict(calls), dict(calls)
                if not judged:
                    key = name
                    SWEEP_OBSERVED.setdefault(key, set()).add(
                        ('calls at definition' if any(at_def.values()) else 'silent definition') if err is None else f'raises {err}')
                    continue
                if err is not None:
                    yield (f'define:{name}:raises', what, err, None)
                    continue
                if any(at_def.values()):
                    yield (f'define:{name}:user-function-called', what,
                           f'user functions were called while the transformation was being defined: {at_def}', None)
                    continue
                want = {'f': len(xs), 'g': len(xs) if pairs else 0}
                got = {k: after[k] for k in want}
                if got != want:
                    yield (f'count:after-{name}:not-exactly-once', what + '.count()',
                           f'calls of the upstream functions {got}, elements {want}', None)


def _sweep_one(make, r, o, h, calls, debug):
    lg = logging.getLogger('pysparkling')
    saved = (lg.level, lg.propagate, logging.root.manager.disable)
    handler = logging.StreamHandler(io.StringIO())
    try:
        if debug:
            logging.disable(logging.NOTSET)
            lg.setLevel(logging.DEBUG)
            lg.propagate = False
            lg.addHandler(handler)
        t = make(r, o, h)
        at_def = dict(calls)
        t.count()
        return at_def, dict(calls)
    finally:
        if debug:
            lg.removeHandler(handler)
            lg.setLevel(saved[0])
            lg.propagate = saved[1]
            logging.disable(saved[2])


def extra_evidence():
    return {'transformation_api_sweep': {
        'judged_define_silent_and_exactly_once': [t[0] for t in _sweep_table() if t[1]],
        'observed_only': {k: sorted(v) for k, v in sorted(SWEEP_OBSERVED.items())}}}
