"""A pool whose map() interleaves the partition tasks deterministically at source-line granularity.

Every task runs in its own thread.  A per-thread ``sys.settrace`` tracer installs a *local* tracer only in
frames whose code object lives in a file ending in one of ``files`` and whose ``co_qualname`` is one of
``qualnames`` (default: ``PersistedRDD.compute`` and ``PartitionwiseSampledRDD.compute`` of pysparkling/rdd.py).
Before a traced line is executed the thread parks on a semaphore; the driver thread grants exactly one traced
line at a time, following ``schedule`` (a list of task numbers; finished or non-existent numbers are skipped).
Whatever a task executes between two traced lines (untraced callees, the rest of the task after its last
traced line) belongs to the grant that released it, so at any moment at most one task thread is running and the
execution is a deterministic function of the schedule.  When the schedule is exhausted the remaining tasks are
completed one after another in task order (the *drain*).

An event is ``(task number, text of the source line that is about to execute)``; the text is read from the
file at run time (``linecache``), so nothing depends on line numbers.
"""
import linecache
import sys
import threading

DEFAULT_QUALNAMES = ('PersistedRDD.compute', 'PartitionwiseSampledRDD.compute')
DEFAULT_FILES = ('pysparkling/rdd.py',)


class SchedulingDeadlock(RuntimeError):
    pass


class _Worker:
    def __init__(self, pool, tid, func, item):
        self.pool = pool
        self.tid = tid
        self.func = func
        self.item = item
        self.go = threading.Semaphore(0)
        self.parked = threading.Semaphore(0)
        self.finished = False
        self.at = None          # text of the line the thread is parked at
        self.result = None
        self.exc = None
        self.thread = threading.Thread(target=self._run, daemon=True)

    # -- runs in the task thread --------------------------------------------------------------
    def _global(self, frame, event, arg):
        code = frame.f_code
        if event == 'call' and code.co_qualname in self.pool.qualnames \
                and code.co_filename.replace('\\', '/').endswith(self.pool.files):
            return self._local
        return None

    def _local(self, frame, event, arg):
        if event == 'line':
            self.at = (frame.f_code.co_qualname,
                       linecache.getline(frame.f_code.co_filename, frame.f_lineno).strip())
            self.parked.release()
            self.go.acquire()
        return self._local

    def _run(self):
        sys.settrace(self._global)
        try:
            self.result = self.func(self.item)
        except BaseException as e:  # pylint: disable=broad-except
            self.exc = e
        finally:
            sys.settrace(None)
            self.finished = True
            self.parked.release()

    # -- runs in the driver thread ------------------------------------------------------------
    def start(self):
        self.thread.start()
        self._wait()

    def grant(self):
        self.go.release()
        self._wait()

    def _wait(self):
        # a task that neither parks nor finishes is blocked on something another (parked) task holds
        if not self.parked.acquire(timeout=self.pool.patience):
            raise SchedulingDeadlock(f'task {self.tid} neither reached a traced line nor finished '
                                     f'within {self.pool.patience} s (last line: {self.at})')


class SchedPool:
    """``map(func, iterable)`` runs the tasks under ``schedule``; ``jobs`` collects, per map() call, the list
    of events ``(task, (qualname, line text))`` in the order in which the lines were granted."""

    def __init__(self, schedule=(), qualnames=DEFAULT_QUALNAMES, files=DEFAULT_FILES, schedules=None, patience=120.0):
        self.patience = patience
        self.qualnames = frozenset(qualnames)
        self.files = tuple(files)
        # `schedules`: one schedule per successive map() call; `schedule` is used when that list is exhausted
        self.schedules = list(schedules) if schedules is not None else []
        self.schedule = list(schedule)
        self.jobs = []

    def map(self, func, iterable):
        items = list(iterable)
        sched = self.schedules.pop(0) if self.schedules else self.schedule
        events = []
        self.jobs.append(events)
        workers = [_Worker(self, i, func, item) for i, item in enumerate(items)]
        for w in workers:            # each thread runs up to its first traced line (or to its end)
            w.start()
        for tid in sched:
            if 0 <= tid < len(workers) and not workers[tid].finished:
                events.append((tid, workers[tid].at))
                workers[tid].grant()
        for w in workers:            # drain
            while not w.finished:
                events.append((w.tid, w.at))
                w.grant()
        for w in workers:
            w.thread.join()
        for w in workers:
            if w.exc is not None:
                raise w.exc
        return [w.result for w in workers]

    def close(self):
        pass

    def shutdown(self):
        pass
