"""Generic driver of one property check: proof obligations + correspondence + oracle + evidence."""
import hashlib
import importlib
import json
import os
import random
import shutil
import signal
import sys
import time
import traceback

from . import build, coqrun, findings
from .coqlit import Err, canon, to_val, uncanon

VERIF = os.environ.get('VERIF_ROOT', '/verif')


def _hash(payload):
    return hashlib.sha1(json.dumps(canon(payload), sort_keys=True, default=repr).encode()).hexdigest()


class CaseTimeout(BaseException):
    """Raised by the per-case alarm: the implementation did not come back in time."""


def _alarm(signum, frame):
    raise CaseTimeout()


class _limit:
    """Wall-clock limit for one implementation / oracle call (main thread only).  A change that makes the
    implementation loop forever must end in a report, not in a check that never returns."""

    def __init__(self, seconds):
        self.seconds = seconds

    def __enter__(self):
        self.old = signal.signal(signal.SIGALRM, _alarm)
        self.t0 = time.time()
        # nests: an outer limit is suspended and resumed with what is left of it
        self.outer = signal.setitimer(signal.ITIMER_REAL, self.seconds)[0]

    def __exit__(self, *a):
        signal.setitimer(signal.ITIMER_REAL, 0)
        signal.signal(signal.SIGALRM, self.old)
        if self.outer:
            signal.setitimer(signal.ITIMER_REAL, max(0.05, self.outer - (time.time() - self.t0)))
        return False


def safe_impl(mod, payload):
    try:
        with _limit(getattr(mod, 'CASE_TIMEOUT', 60)):
            return mod.impl(payload)
    except CaseTimeout:
        return Err('HarnessTimeout')
    except Exception as e:  # pylint: disable=broad-except
        return Err('HarnessCrash:' + type(e).__name__)


def safe_oracle(mod, payload, result):
    if isinstance(result, Err) and result.name == 'HarnessTimeout':
        return ('impl:no-result-within-the-time-limit',
                f'the implementation did not return within {getattr(mod, "CASE_TIMEOUT", 60)} s on this case')
    try:
        with _limit(getattr(mod, 'CASE_TIMEOUT', 60) * 2):
            return mod.oracle(payload, result)
    except CaseTimeout:
        return ('oracle:no-result-within-the-time-limit', 'the oracle (which re-runs the implementation) did not return in time')
    except Exception as e:  # pylint: disable=broad-except
        return ('oracle-crash:' + type(e).__name__, traceback.format_exc()[-800:])


def write_replay(prop_id, content):
    d = os.path.join(VERIF, 'replays', prop_id)
    os.makedirs(d, exist_ok=True)
    path = os.path.join(d, f'{int(time.time() * 1000)}_{os.getpid()}.json')
    with open(path, 'w') as f:
        json.dump(content, f, indent=1, default=repr)
    return path


def write_evidence(prop_id, ev):
    d = os.path.join(VERIF, 'evidence')
    os.makedirs(d, exist_ok=True)
    tmp = os.path.join(d, f'.{prop_id}.json.tmp')
    with open(tmp, 'w') as f:
        json.dump(ev, f, indent=1, default=repr)
    os.replace(tmp, os.path.join(d, f'{prop_id}.json'))


def shrink(mod, payload, still_fails):
    """Greedy shrinking with the property module's own candidate generator (optional)."""
    if not hasattr(mod, 'shrink_candidates'):
        return payload
    budget = 300
    changed = True
    while changed and budget > 0:
        changed = False
        for cand in mod.shrink_candidates(payload):
            budget -= 1
            if budget <= 0:
                break
            try:
                if still_fails(cand):
                    payload = cand
                    changed = True
                    break
            except Exception:  # pylint: disable=broad-except
                continue
    return payload


def run_property(prop_id, tier='quick', seed=0, replay=None):
    t0 = time.time()
    mod = importlib.import_module('c' + prop_id[1:])
    work = os.path.join(VERIF, '.work', f'{prop_id}_{os.getpid()}')
    shutil.rmtree(work, ignore_errors=True)
    os.makedirs(work)
    try:
        return _run(mod, prop_id, tier, seed, replay, work, t0)
    finally:
        shutil.rmtree(work, ignore_errors=True)


def _run(mod, prop_id, tier, seed, replay, work, t0):
    module = getattr(mod, 'RUN_MODULE', f'PV.Run.{prop_id}_run')
    info = build.build(prop_id, work, getattr(mod, 'COQ_TARGETS', None), getattr(mod, 'KERNELS', []))
    broken = list(info['broken'])

    chk = None
    if tier == 'thorough' and info.get('props_ok') and not replay:
        ok_chk, chk_axioms, chk_problems, chk_s = build.coqchk(prop_id)
        chk = {'ok': ok_chk, 'axioms_of_all_loaded_libraries': chk_axioms, 'problems': chk_problems, 'seconds': chk_s}
        broken.extend(chk_problems)

    rng = random.Random(seed)
    if replay:
        data = json.load(open(replay))
        payloads = [uncanon(data['case'])] if 'case' in data else []
    else:
        # some generators run the implementation themselves (e.g. to record the draws of the real RNG):
        # a hanging implementation must not hang the check
        try:
            with _limit(getattr(mod, 'GENERATE_TIMEOUT', 600 if tier == 'quick' else 3600)):
                payloads = list(mod.generate(rng, tier))
        except CaseTimeout:
            payloads = []
            broken.append('case generation (which runs the implementation) did not finish within its time limit: '
                          'the implementation does not return on some generated input')
    t_impl = time.time()
    results = []
    timeouts = 0
    for p in payloads:
        r = safe_impl(mod, p)
        results.append(r)
        if isinstance(r, Err) and r.name == 'HarnessTimeout':
            timeouts += 1
            if timeouts >= 3:
                # the implementation hangs: the violation is established, do not wait for every remaining case
                payloads = payloads[:len(results)]
                break
    impl_s = time.time() - t_impl

    # correspondence: model (in Coq) vs implementation
    mism, shard_errors = [], []
    corr_checked = 0
    if info.get('run_ok') and payloads:
        pairs = []
        enc_fail = 0
        idxmap = []
        for i, (p, r) in enumerate(zip(payloads, results)):
            try:
                pairs.append((to_val(p), to_val(r)))
                idxmap.append(i)
            except TypeError:
                enc_fail += 1
                mism.append(i)
        m, shard_errors = coqrun.run_cases(work, module, pairs,
                                           shard_size=getattr(mod, 'SHARD', 250))
        mism.extend(idxmap[j] for j in m)
        corr_checked = len(pairs)
        for path, msg in shard_errors:
            broken.append(f'correspondence shard {os.path.basename(path)} not evaluated: {msg[-300:]}')
    mism = sorted(set(mism))
    for i in mism[:5]:
        broken.append(f'correspondence {prop_id} case #{i} kind={_kind(payloads[i], mod)}')
    if len(mism) > 5:
        broken.append(f'correspondence {prop_id}: {len(mism)} disagreeing cases in total')

    # oracle: the property's statement executed against the implementation alone
    t_or = time.time()
    known = findings.open_sigs(prop_id)
    oracle_fail = []
    for i, (p, r) in enumerate(zip(payloads, results)):
        o = safe_oracle(mod, p, r)
        if o is not None:
            oracle_fail.append((i, o[0], o[1]))
    extra = []
    if hasattr(mod, 'extra_checks') and not replay:
        try:
            extra = list(mod.extra_checks(rng, tier, work))
        except Exception:  # pylint: disable=broad-except
            extra = [('extra-crash', 'extra_checks crashed', traceback.format_exc()[-800:], None)]
    for sig, msg, detail, case in extra:
        oracle_fail.append((None, sig, f'{msg}: {detail}', case))
    oracle_s = time.time() - t_or

    new_fail = [f for f in oracle_fail if f[1] not in known]
    seen_known = sorted({f[1] for f in oracle_fail if f[1] in known})

    # deeper search when an obligation broke but no failing input is known yet
    searched = 0
    if broken and not new_fail and not replay and hasattr(mod, 'generate'):
        srng = random.Random(seed + 7919)
        budget_t = time.time() + (120 if tier == 'quick' else 600)
        # 1. the disagreeing cases and their shrinks were already judged by the oracle above;
        # 2. the thorough random stream, oracle only
        for p in mod.generate(srng, 'thorough'):
            if time.time() > budget_t:
                break
            searched += 1
            r = safe_impl(mod, p)
            o = safe_oracle(mod, p, r)
            if o is not None and o[0] not in known:
                payloads.append(p)
                results.append(r)
                new_fail.append((len(payloads) - 1, o[0], o[1]))
                break

    violations = 0
    lines = []
    replay_path = None
    if new_fail:
        f = new_fail[0]
        i, sig, msg = f[0], f[1], f[2]
        if i is not None:
            case = payloads[i]

            def still(c):
                o = safe_oracle(mod, c, safe_impl(mod, c))
                return o is not None and o[0] == sig
            small = shrink(mod, case, still)
            res = safe_impl(mod, small)
            o = safe_oracle(mod, small, res)
            content = {'property': prop_id, 'kind': 'oracle-failure', 'sig': sig,
                       'message': o[1] if o else msg, 'case': canon(small), 'implementation_result': canon_safe(res),
                       'broken_obligations': broken}
        else:
            content = {'property': prop_id, 'kind': 'oracle-failure', 'sig': sig, 'message': msg,
                       'case': canon_safe(f[3]) if len(f) > 3 else None, 'broken_obligations': broken}
        replay_path = write_replay(prop_id, content)
        violations = len(new_fail)
        lines.append(f'VIOLATION property={prop_id} replay={replay_path}')
    elif broken:
        content = {'property': prop_id, 'kind': 'obligation-broken', 'no_failing_input_found': True,
                   'broken_obligations': broken,
                   'searched': {'oracle_cases': len(payloads), 'extra_search_cases': searched}}
        if mism:
            i = mism[0]
            content['case'] = canon(payloads[i])
            content['implementation_result'] = canon_safe(results[i])
            if info.get('run_ok'):
                try:
                    rc, out = coqrun.eval_case(work, module, to_val(payloads[i]))
                    content['model_result'] = out[-1500:]
                except Exception:  # pylint: disable=broad-except
                    pass
        replay_path = write_replay(prop_id, content)
        violations = 1
        lines.append(f'VIOLATION property={prop_id} replay={replay_path} no-failing-input-found')

    for sig in seen_known:
        print(f'KNOWN-FINDING: property={prop_id} {sig} {known[sig].get("what", "")}')

    # evidence
    hashes = {}
    for p, r in zip(payloads, results):
        try:
            nt = bool(mod.nontrivial(p, r)) if hasattr(mod, 'nontrivial') else True
        except Exception:  # pylint: disable=broad-except
            nt = False
        if nt:
            hashes[_hash(p)] = 1
    kinds = {}
    for p in payloads:
        k = _kind(p, mod)
        kinds[k] = kinds.get(k, 0) + 1
    errs = {}
    for r in results:
        if isinstance(r, Err):
            errs[r.name] = errs.get(r.name, 0) + 1
    n_thm = len(info['theorems'])
    gen_kernels = getattr(mod, 'KERNELS', [])
    obligations = n_thm + len(gen_kernels) + 1  # theorems + regenerated kernels + the correspondence itself
    discharged = 0
    if info.get('props_ok'):
        discharged += sum(1 for n in info['theorems']
                          if n in info['assumptions'] and all(build.is_allowed(a) for a in info['assumptions'][n]))
    if info.get('translator_ok'):
        discharged += len(gen_kernels)
    if info.get('run_ok') and not mism and not shard_errors:
        discharged += 1
    samples = []
    step = max(1, len(payloads) // 4)
    for i in range(0, len(payloads), step):
        samples.append({'case': canon_safe(payloads[i]), 'implementation_result': canon_safe(results[i])})
        if len(samples) >= 4:
            break
    axioms = sorted({a for n in info['assumptions'] for a in info['assumptions'][n]})
    ev = {
        'property_id': prop_id,
        'tier': tier,
        'seed': seed,
        'level': 'proof',
        'coverage': {
            'obligations': obligations,
            'discharged': discharged,
            'checker_cmd': f'make -C {VERIF}/coq Properties/{prop_id}.vo Run/{prop_id}_run.vo (coqc 8.16.1, full .vo) '
                           f'+ Print Assumptions on every theorem of Properties/{prop_id}.v '
                           f'+ coqc on generated cases_*.v (Eval vm_compute in mismatches run cases)',
            'trusted_base': getattr(mod, 'TRUSTED', []) + [
                'Coq 8.16.1 kernel and vm_compute (no native_compute)',
                'axioms reported by Print Assumptions: ' + (', '.join(axioms) if axioms else 'none (closed under the global context)'),
                'hand-written Gallina model tied to /repo by the correspondence run below; translator for regenerated kernels',
            ],
            'theorems': info['theorems'],
            'assumptions_per_theorem': info['assumptions'],
            'kernels_regenerated': gen_kernels,
            'broken_obligations': broken,
            'evaluations': len(payloads) + searched,
            'distinct_nontrivial': len(hashes),
            'rule': getattr(mod, 'RULE', ''),
            'samples': samples,
            'traces_validated_against_impl': corr_checked,
            'correspondence_mismatches': len(mism),
            'oracle_cases': len(payloads),
            'oracle_failures': len(oracle_fail),
            'known_findings_reproduced': seen_known,
            'case_kinds': kinds,
            'implementation_errors': errs,
            'extra_search_cases': searched,
            'timing_s': {'build': info.get('build_s'), 'implementation': round(impl_s, 2), 'oracle': round(oracle_s, 2)},
        },
        'assumptions': getattr(mod, 'ASSUMPTIONS', []),
        'wall_s': round(time.time() - t0, 2),
        'violations': violations,
    }
    if chk is not None:
        ev['coverage']['coqchk'] = chk
    if hasattr(mod, 'extra_evidence'):
        try:
            ev['coverage'].update(mod.extra_evidence())
        except Exception:  # pylint: disable=broad-except
            pass
    if not replay:
        write_evidence(prop_id, ev)
    for l in lines:
        print(l)
    print(f'{prop_id} tier={tier} seed={seed}: theorems={n_thm} discharged={discharged}/{obligations} '
          f'cases={len(payloads)} mismatches={len(mism)} oracle_failures={len(oracle_fail)} '
          f'known={len(seen_known)} violations={violations} wall={ev["wall_s"]}s')
    if broken:
        for b in broken[:10]:
            print('  broken:', b[:300])
    return 1 if violations else 0


def _kind(p, mod=None):
    if mod is not None and hasattr(mod, 'kind'):
        try:
            return mod.kind(p)
        except Exception:  # pylint: disable=broad-except
            return 'case'
    if isinstance(p, (tuple, list)) and p and isinstance(p[0], str):
        return p[0]
    return 'case'


def canon_safe(o):
    try:
        return canon(o)
    except Exception:  # pylint: disable=broad-except
        return repr(o)
