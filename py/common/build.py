"""Regenerate the kernels from /repo, (re)build the Coq development for one property and
collect the axioms each property theorem depends on."""
import fcntl
import glob
import os
import re
import subprocess
import time

VERIF = os.environ.get('VERIF_ROOT', '/verif')
REPO = os.environ.get('VERIF_REPO', '/repo')
COQ = os.path.join(VERIF, 'coq')
PY = '/venv/bin/python'

# axioms declared by Coq's standard library that the development may rely on (DESIGN.md section 6)
ALLOWED_AXIOMS = {
    'ClassicalDedekindReals.sig_forall_dec',
    'ClassicalDedekindReals.sig_not_dec',
    'FunctionalExtensionality.functional_extensionality_dep',
    'functional_extensionality_dep',
    'sig_forall_dec',
    'sig_not_dec',
    'Classical_Prop.classic',
    'classic',
}
# primitive types/operations that Print Assumptions lists but that are not axioms of ours
PRIMITIVE_PREFIXES = ('PrimFloat.', 'Uint63.', 'PrimInt63.', 'FloatOps.', 'Sint63.', 'float', 'int')

HYGIENE_RE = re.compile(
    r'\b(Admitted|admit|Axiom|Axioms|Parameter|Parameters|Conjecture|Unset Guard Checking|'
    r'Unset Positivity Checking|Unset Universe Checking|bypass_check|type-in-type|impredicative-set|'
    r'Admit Obligations)\b')


def strip_comments(src):
    out, depth, i = [], 0, 0
    while i < len(src):
        if src.startswith('(*', i):
            depth += 1
            i += 2
        elif src.startswith('*)', i) and depth:
            depth -= 1
            i += 2
        else:
            if not depth:
                out.append(src[i])
            i += 1
    return ''.join(out)


def dep_closure(targets):
    """The .v files the given .vo targets depend on (from coq_makefile's .Makefile.d); None if unknown."""
    path = os.path.join(COQ, '.Makefile.d')
    if not os.path.exists(path):
        return None
    deps = {}
    for line in open(path):
        m = re.match(r'^(\S+)\.vo \S+\.glob [^:]*:\s*(.*)$', line)
        if m:
            deps[m.group(1) + '.vo'] = [d for d in m.group(2).split() if d.endswith('.vo')]
    seen, todo = set(), [t for t in targets]
    while todo:
        t = todo.pop()
        if t in seen:
            continue
        if t not in deps:
            return None
        seen.add(t)
        todo.extend(deps[t])
    return {t[:-1] for t in seen}


def hygiene(only=None):
    """No Admitted/admit/Axiom/Parameter/... in the development (outside comments and strings).
    `only`: restrict to these .v files (relative to coq/); None = every file under coq/."""
    bad = []
    for path in sorted(glob.glob(os.path.join(COQ, '**', '*.v'), recursive=True)):
        if only is not None and os.path.relpath(path, COQ) not in only:
            continue
        src = strip_comments(open(path).read())
        src = re.sub(r'"[^"]*"', '""', src)
        for n, line in enumerate(src.split('\n'), 1):
            m = HYGIENE_RE.search(line)
            if m:
                bad.append(f'{os.path.relpath(path, COQ)}:{n}: {m.group(0)}')
        # Variable/Hypothesis outside a section
        depth = 0
        for n, line in enumerate(src.split('\n'), 1):
            s = line.strip()
            if re.match(r'Section\s+\w+', s):
                depth += 1
            elif re.match(r'End\s+\w+', s) and depth:
                depth -= 1
            elif re.match(r'(Variable|Variables|Hypothesis|Hypotheses|Context)\b', s) and depth == 0:
                bad.append(f'{os.path.relpath(path, COQ)}:{n}: {s[:40]} outside a Section')
    return bad


def coq_project():
    files = sorted(os.path.relpath(p, COQ) for p in glob.glob(os.path.join(COQ, '**', '*.v'), recursive=True))
    text = '-Q . PV\n' + '\n'.join(files) + '\n'
    path = os.path.join(COQ, '_CoqProject')
    old = open(path).read() if os.path.exists(path) else None
    if old != text or not os.path.exists(os.path.join(COQ, 'Makefile')):
        with open(path, 'w') as f:
            f.write(text)
        subprocess.run(['coq_makefile', '-f', '_CoqProject', '-o', 'Makefile'], cwd=COQ,
                       stdout=subprocess.PIPE, stderr=subprocess.STDOUT, check=True)


def run_translator():
    p = subprocess.run([PY, os.path.join(VERIF, 'translator', 'gen.py')], cwd=VERIF,
                       stdout=subprocess.PIPE, stderr=subprocess.STDOUT, text=True,
                       env=dict(os.environ, PYTHONPATH=REPO, VERIF_REPO=REPO))
    failures = [l for l in p.stdout.split('\n') if l.startswith('KERNEL-FAIL')]
    return p.returncode == 0, failures, p.stdout


def make(targets, timeout=1500):
    p = subprocess.run(['timeout', str(timeout), 'make', '-k', '-j16'] + targets, cwd=COQ,
                       stdout=subprocess.PIPE, stderr=subprocess.STDOUT, text=True)
    return p.returncode, p.stdout


def theorem_names(prop_id):
    path = os.path.join(COQ, 'Properties', f'{prop_id}.v')
    if not os.path.exists(path):
        return []
    src = strip_comments(open(path).read())
    return re.findall(r'^\s*(?:Theorem|Lemma|Corollary)\s+(\w+)', src, re.M)


def assumptions(prop_id, names, workdir):
    """Print Assumptions for every property theorem; returns {name: [axiom names]}."""
    os.makedirs(workdir, exist_ok=True)
    path = os.path.join(workdir, 'assumptions.v')
    with open(path, 'w') as f:
        f.write(f'Require Import PV.Properties.{prop_id}.\n')
        for n in names:
            f.write(f'Goal True. idtac "@@THM {n}". exact I. Qed.\nPrint Assumptions PV.Properties.{prop_id}.{n}.\n')
    p = subprocess.run(['timeout', '900', 'coqc', '-Q', COQ, 'PV', 'assumptions.v'], cwd=workdir,
                       stdout=subprocess.PIPE, stderr=subprocess.STDOUT, text=True)
    res = {}
    if p.returncode != 0:
        return None, p.stdout
    blocks = p.stdout.split('@@THM ')[1:]
    for b in blocks:
        name, _, rest = b.partition('\n')
        axioms = []
        if 'Closed under the global context' not in rest:
            # Coq prints "name : type" on one line, or "name" alone followed by an indented "  : type"
            in_axioms = False
            for line in rest.split('\n'):
                if line.startswith('Axioms:'):
                    in_axioms = True
                    continue
                if not in_axioms or not line or line[0].isspace():
                    continue
                m = re.match(r"^([A-Za-z_][\w.']*)\s*(:|$)", line)
                if m:
                    axioms.append(m.group(1))
                else:
                    axioms.append('UNPARSED:' + line[:60])
        res[name.strip()] = axioms
    return res, p.stdout


def is_allowed(axiom):
    return axiom in ALLOWED_AXIOMS or axiom.split('.')[-1] in ALLOWED_AXIOMS or axiom.startswith(PRIMITIVE_PREFIXES)


def build(prop_id, workdir, targets=None, kernels=None):
    """Returns a dict describing the state of the proof obligations of one property.
    `kernels`: the property's KERNELS list ('Gen/<File>.v: name'); translator failures in other
    Gen files belong to other properties and are not this property's obligations."""
    t0 = time.time()
    os.makedirs(workdir, exist_ok=True)
    info = {'broken': [], 'theorems': [], 'assumptions': {}, 'log': ''}
    lock = open(os.path.join(COQ, '.lock'), 'w')
    fcntl.flock(lock, fcntl.LOCK_EX)
    try:
        ok, failures, tlog = run_translator()
        info['translator_ok'] = ok
        mine = {k.split(':')[0].strip().split('/')[-1] for k in (kernels or [])}
        own_fail = [fl for fl in failures if kernels is None or fl.split()[1] in mine]
        info['translator_ok'] = not own_fail and (ok or bool(failures))
        for fl in own_fail:
            info['broken'].append(f'translator: {fl}')
        if not ok and not failures:
            info['broken'].append('translator: crashed: ' + tlog[-500:])
        coq_project()
        props = f'Properties/{prop_id}.vo'
        runf = f'Run/{prop_id}_run.vo'
        rc, log = make(targets or [props, runf])
        info['log'] = log[-6000:]
        info['props_ok'] = os.path.exists(os.path.join(COQ, props)) and _fresh(props)
        info['run_ok'] = os.path.exists(os.path.join(COQ, runf)) and _fresh(runf)
        if rc != 0 or not info['props_ok']:
            m = re.findall(r'File "\./([^"]+)", line (\d+)[^\n]*\n(?:[^\n]*\n){0,6}?Error:([^\n]*(?:\n[^\n]+){0,3})', log)
            where = '; '.join(f'{f}:{l}: {e.strip()[:200]}' for f, l, e in m[:3]) or log[-400:]
            info['broken'].append(f'coq build of {props}: {where}')
        if not info['run_ok']:
            info['broken'].append(f'coq build of {runf} failed')
    finally:
        fcntl.flock(lock, fcntl.LOCK_UN)
        lock.close()
    tg = targets or [f'Properties/{prop_id}.vo', f'Run/{prop_id}_run.vo']
    bad = hygiene(dep_closure(tg))
    for b in bad:
        info['broken'].append('hygiene: ' + b)
    names = theorem_names(prop_id)
    info['theorems'] = names
    if info.get('props_ok'):
        ass, out = assumptions(prop_id, names, workdir)
        if ass is None:
            info['broken'].append('Print Assumptions failed: ' + out[-400:])
        else:
            info['assumptions'] = ass
            for n in names:
                if n not in ass:
                    info['broken'].append(f'theorem {n}: no Print Assumptions output')
                for a in ass.get(n, []):
                    if not is_allowed(a):
                        info['broken'].append(f'theorem PV.Properties.{prop_id}.{n} depends on non-allowed axiom {a}')
    info['build_s'] = round(time.time() - t0, 1)
    return info


def _fresh(vo):
    """A target is fresh if make considers it up to date (make -k leaves stale .vo files of failed targets)."""
    if not os.path.exists(os.path.join(COQ, vo)):
        return False
    p = subprocess.run(['make', '-q', vo], cwd=COQ, stdout=subprocess.PIPE, stderr=subprocess.STDOUT)
    return p.returncode == 0


def coqchk(prop_id, timeout=1500):
    """Independent re-check of Properties/<id>.vo and everything it depends on (thorough tier).
    Returns (ok, axioms, problems, seconds)."""
    t0 = time.time()
    try:
        p = subprocess.run(['timeout', str(timeout), 'coqchk', '-silent', '-o', '-Q', '.', 'PV', f'PV.Properties.{prop_id}'],
                           cwd=COQ, stdout=subprocess.PIPE, stderr=subprocess.STDOUT, text=True)
    except OSError as e:
        return False, [], [f'coqchk could not run: {e}'], 0.0
    out = p.stdout
    problems = []
    if p.returncode != 0:
        problems.append(f'coqchk exit {p.returncode}: {out[-400:]}')
    axioms = []
    section = None
    for line in out.split('\n'):
        if line.startswith('* '):
            section = line
            for key in ('type-in-type', 'unsafe (co)fixpoints', 'positivity is assumed'):
                if key in line and '<none>' not in line:
                    problems.append('coqchk: ' + line.strip())
        elif section and section.startswith('* Axioms') and line.strip():
            axioms.append(line.strip())
        elif section and line.strip() and not section.startswith('* Axioms') and not section.startswith('* Theory'):
            if any(key in section for key in ('type-in-type', 'unsafe', 'positivity')):
                problems.append(f'coqchk: {section.strip()} {line.strip()}')
    for a in axioms:
        if not a.startswith('Coq.'):
            problems.append(f'coqchk: axiom outside the standard library: {a}')
    return not problems, axioms, problems, round(time.time() - t0, 1)
