"""Encode Python values as Coq literals of type PV.Base.Val.val."""
import math


class Err:
    """An exception outcome, encoded as VErr "<name>"."""

    def __init__(self, name):
        self.name = name

    def __eq__(self, other):
        return isinstance(other, Err) and other.name == self.name

    def __hash__(self):
        return hash(('Err', self.name))

    def __repr__(self):
        return f'Err({self.name!r})'


def zlit(i):
    return f'({i})' if i < 0 else str(i)


def flit(x):
    if math.isnan(x):
        return 'nan'
    if math.isinf(x):
        return 'infinity' if x > 0 else 'neg_infinity'
    h = x.hex()
    if h.startswith('-'):
        return f'(-{h[1:]})%float'
    return f'({h})%float'


def to_val(o):
    if o is None:
        return 'VNone'
    if isinstance(o, Err):
        return f'(VErr "{o.name}")'
    if isinstance(o, bool):
        return '(VBool true)' if o else '(VBool false)'
    if isinstance(o, int):
        return f'(VInt {zlit(o)})'
    if isinstance(o, float):
        return f'(VFloat {flit(o)})'
    if isinstance(o, str):
        return '(VStr [' + ';'.join(str(ord(c)) for c in o) + ']%N)'
    if isinstance(o, (bytes, bytearray)):
        return '(VStr [' + ';'.join(str(b) for b in o) + ']%N)'
    if isinstance(o, tuple):
        return '(VTup [' + '; '.join(to_val(x) for x in o) + '])'
    if isinstance(o, list):
        return '(VList [' + '; '.join(to_val(x) for x in o) + '])'
    if isinstance(o, dict):
        return '(VList [' + '; '.join(to_val((k, v)) for k, v in o.items()) + '])'
    raise TypeError(f'cannot encode {type(o)}: {o!r}')


def canon(o):
    """JSON-able canonical form of a case/result (for hashing, samples and replays)."""
    if isinstance(o, Err):
        return {'err': o.name}
    if isinstance(o, float):
        return {'float': o.hex()}
    if isinstance(o, (bytes, bytearray)):
        return {'bytes': list(o)}
    if isinstance(o, tuple):
        return {'tuple': [canon(x) for x in o]}
    if isinstance(o, list):
        return [canon(x) for x in o]
    if isinstance(o, dict):
        return {'dict': [[canon(k), canon(v)] for k, v in o.items()]}
    return o


def uncanon(o):
    if isinstance(o, dict):
        if 'err' in o:
            return Err(o['err'])
        if 'float' in o:
            return float.fromhex(o['float'])
        if 'bytes' in o:
            return bytes(o['bytes'])
        if 'tuple' in o:
            return tuple(uncanon(x) for x in o['tuple'])
        if 'dict' in o:
            return {uncanon(k): uncanon(v) for k, v in o['dict']}
    if isinstance(o, list):
        return [uncanon(x) for x in o]
    return o
