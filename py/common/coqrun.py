"""Evaluate the Gallina model on generated cases inside Coq (vm_compute) and report mismatches."""
import fcntl
import os
import re
import subprocess
import time
from concurrent.futures import ThreadPoolExecutor

COQ_ROOT = os.path.join(os.environ.get('VERIF_ROOT', '/verif'), 'coq')

HEADER = """From Coq Require Import ZArith NArith List String PrimFloat.
Require Import PV.Base.Val {module}.
Import ListNotations.
Open Scope Z_scope.
Definition cases : list (val * val) := [
{body}
].
Eval vm_compute in (List.length cases, mismatches {run} cases).
"""

RESULT_RE = re.compile(r'=\s*\(\s*(\d+)%nat\s*,\s*(\[[^\]]*\]|nil)\s*\)', re.S)


SLOT_DIR = '/tmp/pv_coqc_slots'
N_SLOTS = int(os.environ.get('VERIF_COQC_SLOTS', '20'))


class _Slot:
    """System-wide limit on concurrently running coqc shard evaluations (several checks may run at once;
    each coqc takes ~0.5 GB): one of N_SLOTS lock files is held while a shard runs."""

    def __enter__(self):
        os.makedirs(SLOT_DIR, exist_ok=True)
        while True:
            for k in range(N_SLOTS):
                f = open(os.path.join(SLOT_DIR, f'slot_{k}'), 'w')
                try:
                    fcntl.flock(f, fcntl.LOCK_EX | fcntl.LOCK_NB)
                    self.f = f
                    return self
                except OSError:
                    f.close()
            time.sleep(0.25)

    def __exit__(self, *a):
        fcntl.flock(self.f, fcntl.LOCK_UN)
        self.f.close()


def _one(args):
    """Compile one generated file; a run killed from outside (out of memory, signal) is retried, alone."""
    path, timeout = args
    out, rc = '', 1
    for attempt in range(3):
        try:
            with _Slot():
                p = subprocess.run(
                    ['coqc', '-Q', COQ_ROOT, 'PV', os.path.basename(path)],
                    cwd=os.path.dirname(path), stdout=subprocess.PIPE, stderr=subprocess.STDOUT,
                    text=True, timeout=timeout)
            rc, out = p.returncode, p.stdout
        except subprocess.TimeoutExpired:
            return path, 124, 'timeout'
        killed = rc < 0 or rc in (137, 139) or (rc != 0 and not out.strip()) or 'Out of memory' in out \
            or 'Stack overflow' in out
        if not killed:
            break
        time.sleep(2 + 5 * attempt)
    return path, rc, out


def run_cases(workdir, module, pairs, run='run', shard_size=250, jobs=16, timeout=900, prefix='cases'):
    """pairs: list of (case_literal, expected_literal) strings.

    Returns (mismatch_indices, errors): global indices of disagreeing cases and a list of
    (shard_file, message) for shards that Coq could not evaluate."""
    os.makedirs(workdir, exist_ok=True)
    shards = []
    for k in range(0, len(pairs), shard_size):
        chunk = pairs[k:k + shard_size]
        body = ';\n'.join(f'({c}, {e})' for c, e in chunk)
        path = os.path.join(workdir, f'{prefix}_{k // shard_size}.v')
        with open(path, 'w') as f:
            f.write(HEADER.format(module=module, body=body, run=run))
        shards.append((path, k, len(chunk)))
    mism, errors = [], []
    with ThreadPoolExecutor(jobs) as ex:
        results = list(ex.map(_one, [(s[0], timeout) for s in shards]))
    for (path, base, n), (_, rc, out) in zip(shards, results):
        m = RESULT_RE.search(out) if rc == 0 else None
        if not m:
            errors.append((path, out[-2000:]))
            continue
        if int(m.group(1)) != n:
            errors.append((path, f'case count {m.group(1)} != {n}'))
            continue
        idx = [int(x) for x in re.findall(r'(\d+)%nat', m.group(2))]
        mism.extend(base + i for i in idx)
    return mism, errors


EVAL_TMPL = """From Coq Require Import ZArith NArith List String PrimFloat.
Require Import PV.Base.Val {module}.
Import ListNotations.
Open Scope Z_scope.
Eval vm_compute in ({run} {case}).
"""


def eval_case(workdir, module, case_literal, run='run', timeout=300):
    """Evaluate the model on one case and return Coq's printed result (for replays/diagnostics)."""
    os.makedirs(workdir, exist_ok=True)
    path = os.path.join(workdir, 'eval_one.v')
    with open(path, 'w') as f:
        f.write(EVAL_TMPL.format(module=module, run=run, case=case_literal))
    _, rc, out = _one((path, timeout))
    return rc, out
