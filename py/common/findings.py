"""Known findings: genuine defects of /repo that are recorded rather than repaired.

/verif/known_findings.json is committed and never written at run time.  An entry is
  {"property": "C16", "sig": "<site>:<predicate>", "status": "open" | "fixed", "what": "...", "commit": "..."}
Only entries with status "open" suppress a violation, and only for oracle failures whose
signature equals the entry's sig.  "fixed" entries suppress nothing."""
import json
import os

PATH = os.path.join(os.environ.get('VERIF_ROOT', '/verif'), 'known_findings.json')


def load(prop_id):
    if not os.path.exists(PATH):
        return []
    data = json.load(open(PATH))
    return [e for e in data.get('findings', []) if e.get('property') == prop_id]


def open_sigs(prop_id):
    return {e['sig']: e for e in load(prop_id) if e.get('status') == 'open'}
