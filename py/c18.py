"""C18 -- casting follows Spark's conversion rules for all values.

case = (from_code, to_code, value); the implementation side calls
pysparkling.sql.casts.get_caster(from_type, to_type, {})(value)."""
import datetime
import math
import re

from common.coqlit import Err
from pysparkling.sql import casts
from pysparkling.sql import types as T

ID = 'C18'
KERNELS = ['Gen/Casts.v: cast_wrap', 'Gen/Casts.v: cast_in_range', 'Gen/Casts.v: byte/short/int/long min/max']
TYS = [T.ByteType(), T.ShortType(), T.IntegerType(), T.LongType(), T.BooleanType(),
       T.StringType(), T.FloatType(), T.DoubleType(), T.DateType(), T.NullType()]
NAMES = ['byte', 'short', 'int', 'long', 'bool', 'string', 'float', 'double', 'date', 'null']
BYTE, SHORT, INT, LONG, BOOL, STRING, FLOAT, DOUBLE, DATE, NULL = range(10)
WIDTH = {BYTE: 8, SHORT: 16, INT: 32, LONG: 64}
INTEGRAL = [BYTE, SHORT, INT, LONG]

RULE = ('cases (from_type, to_type, value): every integer of the short range and +-3 around every width boundary '
        'into every integral width (subsampled in the quick tier), sampled 64/128-bit integers and finite floats, '
        'booleans, None for every caster pair, digit strings with signs/whitespace/underscores, true/false in '
        'every letter case plus near-misses, date strings over boundary years/months/days with optional time part; '
        'non-trivial = value is not None and from_type != to_type; distinct by canonical JSON of the case')
ASSUMPTIONS = [
    'str.lower() maps no non-ASCII character to a letter of "true"/"false" (model lowers ASCII only)',
    'float -> string (repr) and string -> float/double are not modelled in Coq (float <-> string round trips are judged by the '
    'oracle only, in extra_checks); int/bool/float/date -> float/double are modelled for |int| < 2^62',
    'Python int(str) is modelled for ASCII digits, sign, underscore and the whitespace set listed in Model/Cast.v',
]
TRUSTED = ['translator/gen.py kernels cast_bounded, cast_widths', 'FloatOps.Prim2SF for int(float) truncation']


def kind(p):
    return f'{NAMES[p[0]]}->{NAMES[p[1]]}'


def impl(p):
    f, t, v = p
    try:
        caster = casts.get_caster(TYS[f], TYS[t], {})
        r = caster(v)
    except Exception as e:  # pylint: disable=broad-except
        return Err(type(e).__name__)
    if isinstance(r, datetime.date):
        return (r.year, r.month, r.day)
    return r


SAMPLE = {BYTE: 1, SHORT: 1, INT: 1, LONG: 1, BOOL: True, STRING: '1', FLOAT: 1.5, DOUBLE: 1.5}


def wrap(z, w):
    return ((z + (1 << (w - 1))) % (1 << w)) - (1 << (w - 1))


DATE_RE = re.compile(r'^(\d{4})(?:-(\d{1,2})(?:-(\d{1,2}))?)?(?:[ T].*)?$', re.S)


def oracle(p, r):
    """The statement of C18 evaluated on the implementation's result."""
    f, t, v = p
    # casting null yields null (for caster pairs that exist: a pair whose caster raises
    # AnalysisException for a representative non-null value of the source type is "no such cast")
    if v is None:
        if isinstance(r, Err) and r.name == 'AnalysisException' and f in SAMPLE:
            rs = impl((f, t, SAMPLE[f]))
            if isinstance(rs, Err) and rs.name == 'AnalysisException':
                return None  # no such cast
        if isinstance(r, Err) and r.name == 'AnalysisException' and f == NULL:
            return None
        if r is not None:
            return (f'get_caster:null-not-null:{kind(p)}', f'cast of None gave {r!r}')
        return None
    if f == t:
        if not _same(r, v):
            return ('get_caster:identity', f'{kind(p)} of {v!r} gave {r!r}')
        return None
    if t in WIDTH and f != STRING:
        if isinstance(v, bool) or isinstance(v, int) or (isinstance(v, float) and math.isfinite(v)):
            want = wrap(int(v), WIDTH[t])
            if r != want or isinstance(r, bool):
                return (f'cast_to_{NAMES[t]}:wrap', f'{v!r} -> {r!r}, two\'s-complement wrap is {want}')
        return None
    if t in WIDTH and f == STRING and isinstance(v, str):
        # surrounding blanks do not stop a string from holding a decimal integer (Spark trims them, as int() does)
        if re.fullmatch(r'[ \t\n\r\f\v]*[+-]?\d+[ \t\n\r\f\v]*', v):
            z = int(v)
            lo, hi = -(1 << (WIDTH[t] - 1)), (1 << (WIDTH[t] - 1)) - 1
            want = z if lo <= z <= hi else None
            if r != want:
                return (f'cast_to_{NAMES[t]}:string', f'{v!r} -> {r!r}, expected {want!r}')
        return None
    if t == BOOL and f == STRING and isinstance(v, str):
        want = True if v.lower() == 'true' else False if v.lower() == 'false' else None
        if v in ('true', 'false', 'TRUE', 'FALSE', 'True', 'False') or all(ord(c) < 128 for c in v):
            if r is not want and r != want:
                return ('cast_to_boolean:string', f'{v!r} -> {r!r}, expected {want!r}')
        return None
    if t == STRING and f in INTEGRAL + [BOOL] and isinstance(v, (int, bool)):
        # to string and back returns the original value
        if not isinstance(r, str):
            return ('cast_to_string:type', f'{v!r} -> {r!r}')
        back = impl((STRING, f, r))
        if isinstance(v, bool) or (f in WIDTH and -(1 << (WIDTH[f] - 1)) <= v < (1 << (WIDTH[f] - 1))):
            if not _same(back, v):
                return ('cast_to_string:roundtrip', f'{v!r} -> {r!r} -> {back!r}')
        return None
    if t == DATE and f == STRING and isinstance(v, str):
        m = DATE_RE.match(v)
        if m:
            y, mo, d = int(m.group(1)), int(m.group(2) or 1), int(m.group(3) or 1)
            try:
                dt = datetime.date(y, mo, d)
                want = (dt.year, dt.month, dt.day)
            except ValueError:
                want = None
            if r != want:
                return ('cast_to_date:string', f'{v!r} -> {r!r}, expected {want!r}')
        return None
    return None


def _same(a, b):
    if isinstance(a, float) and isinstance(b, float):
        return a.hex() == b.hex() or (a != a and b != b)
    return type(a) is type(b) and a == b


def nontrivial(p, r):
    return p[2] is not None and p[0] != p[1]


def generate(rng, tier):
    cases = []
    quick = tier == 'quick'
    # None through every caster pair (incl. identity)
    for f in range(10):
        for t in range(10):
            cases.append((f, t, None))
    # integers into every width: boundaries +-3 of every width (exhaustive), short range (exhaustive in thorough)
    ints = set()
    for w in (8, 16, 32, 64):
        for b in (-(1 << w), -(1 << (w - 1)), 0, (1 << (w - 1)), (1 << w), 3 * (1 << (w - 1))):
            for d in range(-3, 4):
                ints.add(b + d)
    short = range(-32768, 32768)
    ints.update(short if not quick else rng.sample(short, 1500))
    for _ in range(300 if quick else 3000):
        ints.add(rng.getrandbits(rng.choice([20, 40, 64, 70, 128])) * rng.choice([1, -1]))
    ints = sorted(ints)
    for z in ints:
        for t in INTEGRAL if not quick or abs(z) < 200 or rng.random() < 0.5 else [rng.choice(INTEGRAL)]:
            cases.append((LONG, t, z) if t != LONG else (INT, t, z))
    # booleans
    for b in (True, False):
        for t in INTEGRAL + [STRING]:
            cases.append((BOOL, t, b))
        cases.append((INT, BOOL, int(b)))
        cases.append((BOOL, BOOL, b))
    for z in (0, 1, -1, 2, 255):
        cases.append((INT, BOOL, z))
    for x in (0.0, -0.0, 0.5, float('nan'), 1e300):
        cases.append((DOUBLE, BOOL, x))
    # finite floats into integral widths
    floats = [0.0, -0.0, 0.5, -0.5, 0.999, -0.999, 1.5, -1.5, 127.9, 128.0, -128.9, -129.0, 255.5, 32767.99, 32768.0,
              2147483647.5, 2147483648.0, -2147483648.9, 9.223372036854775e18, 9.223372036854776e18, -9.223372036854776e18,
              1e19, -1e19, 1e22, 1e100, -1e100, 1.7976931348623157e308, 5e-324, 2.0 ** 52 + 0.5, 2.0 ** 53, 2.0 ** 53 + 2]
    for _ in range(200 if quick else 3000):
        e = rng.choice([0, 3, 8, 16, 31, 32, 33, 62, 63, 64, 65, 80, 200])
        floats.append(rng.uniform(-1, 1) * 2.0 ** e)
    for x in floats:
        for t in INTEGRAL:
            cases.append((DOUBLE, t, x))
    for x in (float('inf'), float('-inf'), float('nan')):
        cases.append((DOUBLE, INT, x))
    # int -> string (and the oracle casts back)
    for z in rng.sample(ints, 200 if quick else 2000) + [0, -1, 10, -10, 100, 99, 101, 10 ** 18, -10 ** 18]:
        for f in INTEGRAL:
            if -(1 << (WIDTH[f] - 1)) <= z < (1 << (WIDTH[f] - 1)):
                cases.append((f, STRING, z))
                break
        else:
            cases.append((LONG, STRING, z))
    # strings -> integral
    strs = ['', '0', '-0', '+0', '7', '-7', '127', '128', '-128', '-129', '32767', '32768', '-32768', '-32769',
            '2147483647', '2147483648', '-2147483648', '-2147483649', '9223372036854775807', '9223372036854775808',
            '-9223372036854775808', '-9223372036854775809', '00012', '+12', ' 12', '12 ', '\t12\n', '1_2', '1__2', '_12',
            '12_', '1 2', '--1', '+-1', '1.0', '1e3', 'abc', '-', '+', ' ', '0x10', ' 12', '12 ', '99999999999999999999999']
    alphabet = '0123456789' * 3 + ' +-_a.'
    for _ in range(300 if quick else 3000):
        n = rng.randint(1, 8)
        strs.append(''.join(rng.choice(alphabet) for _ in range(n)))
    for _ in range(200 if quick else 2000):
        strs.append(rng.choice(['', '-', '+', ' ', ' -']) + str(rng.getrandbits(rng.choice([4, 8, 16, 31, 32, 63, 64, 70])))
                    + rng.choice(['', '', ' ', '\n']))
    # in-range values written with leading zeros: the text is longer than any canonical text of the width
    for z in [0, 1, 42, 127, 128, -128, -129, 32767, 32768, -32768, 2 ** 31 - 1, 2 ** 31, -2 ** 31, 2 ** 63 - 1, 2 ** 63,
              -2 ** 63, -2 ** 63 - 1] + [rng.getrandbits(rng.choice([3, 7, 15, 31, 63])) for _ in range(20 if quick else 300)]:
        for k in (1, 2, 3, 5, 8, 12, 21, 40) if not quick else rng.sample((1, 2, 3, 5, 8, 12, 21, 40), 3):
            strs.append(('-' if z < 0 else rng.choice(['', '+'])) + '0' * k + str(abs(z)))
    for s in strs:
        for t in INTEGRAL if not quick else rng.sample(INTEGRAL, 2):
            cases.append((STRING, t, s))
    # strings -> boolean
    bstr = ['', 'true', 'false', 'TRUE', 'FALSE', 'True', 'fALSE', 'tRuE', 'yes', 'no', '1', '0', 't', 'f', ' true', 'true ',
            'truee', 'fals', 'trué', 'Kelvin', 'FALſE', 'TRUĒ', 'none', 'null']
    for word in ('true', 'false'):
        for mask in range(1 << len(word)):
            bstr.append(''.join(c.upper() if mask >> i & 1 else c for i, c in enumerate(word)))
    # the exact words padded with blanks are other strings (only the empty string and the words themselves are special)
    for word in ('true', 'false', 'TRUE', 'False'):
        for pad in (' ', '\t', '\n', '\r', '\x0b', '\x0c', '\x1f', '\xa0', '\u3000'):
            bstr += [pad + word, word + pad, pad + word + pad]
    for s in bstr:
        cases.append((STRING, BOOL, s))
    # strings -> date
    years = ['0000', '0001', '0004', '0100', '0400', '1900', '1999', '2000', '2019', '2020', '2100', '9999']
    months = [str(m) for m in range(0, 14)] + ['01', '02', '09', '012', '+5', ' 5', '']
    days = [str(d) for d in range(0, 33)] + ['01', '09', '031', '']
    dstr = ['', '2019', '19', '201', '20190', '2019-', '2019--1', '-2019', '2019-01-01-01', 'abcd', 'abcd-01-01', '2019-ab',
            '2019-01-01 12:00:00', '2019-01-01T12:00:00', ' 2019-01-01', '2019-01-01 ', '2019 -01', 'T2019', '2019T', '2019-02-30T',
            '\t2019', '2019-1-1', '2019-12-31', '2020-02-29', '2019-02-29', '1900-02-29', '2000-02-29', '2019-04-31',
            '20_9', '20_9-1-1', '2019-99999999999999999999', '2019-1-99999999999', '+019-01-01']
    for y in years:
        for m in (months if not quick else rng.sample(months, 6)):
            dstr.append(f'{y}-{m}')
            for d in (days if not quick else rng.sample(days, 5)):
                dstr.append(f'{y}-{m}-{d}')
    for y in ['2019', '2020', '2000', '1900']:
        for m, d in [(1, 31), (1, 32), (2, 28), (2, 29), (2, 30), (3, 31), (4, 30), (4, 31), (6, 30), (6, 31), (9, 31), (11, 31),
                     (12, 31), (12, 32), (13, 1), (0, 1), (1, 0)]:
            dstr.append(f'{y}-{m}-{d}')
            dstr.append(f'{y}-{m:02d}-{d:02d}' + rng.choice([' 10:11:12', 'T10:11', ' ', 'T', ' x']))
    # a date part followed by a time part that itself contains the other separator / zone names
    for base in ['2019', '2019-02', '2019-02-28', '2019-02-30', '2020-2-29', '1999-12-31', '0001-1-1', '2019-13-01']:
        for tail in [' 10:15:30 UTC', ' 10:15:30 GMT', ' CET', ' T', ' xTy', ' 1T2 3', 'T10:15:30 UTC', 'T10:15:30 +01:00',
                     'T T', ' \t', 'T', ' ', '  10:15', 'T 10:15', ' EST5EDT', 'Tea time']:
            dstr.append(base + tail)
    # ... or that looks like a time with a zone offset, a fraction, or arbitrary text over the characters of times and dates
    tchars = '0123456789:-+.TZ '
    for base in ['2019', '2019-3', '2019-03-05', '2020-2-29', '2019-2-29', '0001-01-01', '9999-12-31', '2019-00']:
        for sep in (' ', 'T'):
            for tail in ['10:15:30-08:00', '10:15:30+01:00', '10:15:30-08', '10:15-8', '10:15:30.123-0800', '10:15:30Z', '-', '--',
                         '-1', '1-1', '10:15:30 -08:00', '2019-01-01'] + \
                    [''.join(rng.choice(tchars) for _ in range(rng.randint(1, 10))) for _ in range(3 if quick else 40)]:
                dstr.append(base + sep + tail)
    for s in dstr:
        cases.append((STRING, DATE, s))
    # numbers and booleans into float/double (float(value); exact below 2**53)
    for z in [0, 1, -1, 7, -128, 2 ** 31, -2 ** 31, 2 ** 53, 2 ** 53 + 1, -(2 ** 53) - 1, 2 ** 61 + 12345, -(2 ** 62) + 1] + \
            [rng.getrandbits(rng.choice([8, 30, 52, 54, 60])) * rng.choice([1, -1]) for _ in range(100 if quick else 2000)]:
        for t in (FLOAT, DOUBLE):
            cases.append((LONG, t, z))
    for b in (True, False):
        cases.append((BOOL, FLOAT, b))
        cases.append((BOOL, DOUBLE, b))
    for x in floats[:40]:
        cases.append((DOUBLE, FLOAT, x))
    cases.append((STRING, DOUBLE, ''))
    # identity
    for f, v in [(INT, 5), (STRING, 'abc'), (BOOL, True), (DOUBLE, 1.5), (DOUBLE, float('nan')), (LONG, -2 ** 63), (STRING, '')]:
        cases.append((f, f, v))
    # to NullType
    cases.append((INT, NULL, 3))
    cases.append((STRING, NULL, 'x'))
    return cases


def shrink_candidates(p):
    f, t, v = p
    if isinstance(v, str):
        for i in range(len(v)):
            yield (f, t, v[:i] + v[i + 1:])
    if isinstance(v, int) and not isinstance(v, bool) and v not in (0, 1, -1):
        yield (f, t, v // 2)
        yield (f, t, -v)


# ---------------------------------------------------------------------------------------------
# oracle-only checks (not compared with the Coq model): float <-> string round trips (Python repr is
# not modelled) and the null rule over every atomic caster pair incl. timestamp, decimal and binary
def extra_checks(rng, tier, workdir):
    import datetime as _dt
    import decimal as _dec
    n = 3000 if tier == 'quick' else 60000
    xs = [0.0, -0.0, 1.0, -1.5, 0.1, 1e7, 1e-3, 9999999.999999998, 1.0000000000000002e-3, 1e22, 1e23, 5e-324,
          2.2250738585072014e-308, 1.7976931348623157e308, 4.1775323060252785e+95, 123456789.12345679,
          float('inf'), float('-inf')]
    for _ in range(n):
        kind = rng.random()
        if kind < 0.3:
            xs.append(rng.uniform(-1, 1) * 10.0 ** rng.randint(-320, 308))
        elif kind < 0.6:
            xs.append(float.fromhex('0x1.%013xp%d' % (rng.getrandbits(52), rng.randint(-1022, 1023))) * rng.choice([1, -1]))
        else:
            xs.append(rng.random() * 10 ** rng.randint(-5, 10))
    to_s = casts.get_caster(T.DoubleType(), T.StringType(), {})
    back = casts.get_caster(T.StringType(), T.DoubleType(), {})
    for x in xs:
        try:
            s_ = to_s(x)
            y = back(s_)
        except Exception as e:  # pylint: disable=broad-except
            yield ('cast_to_string:float-roundtrip', f'double {x!r} to string and back raised', type(e).__name__, (DOUBLE, STRING, x))
            continue
        if not isinstance(s_, str) or not isinstance(y, float) or y.hex() != x.hex():
            yield ('cast_to_string:float-roundtrip', f'double {x!r} -> string {s_!r} -> back', f'observed {y!r}',
                   (DOUBLE, STRING, x))
            return
    tys = [T.ByteType(), T.ShortType(), T.IntegerType(), T.LongType(), T.BooleanType(), T.StringType(), T.FloatType(),
           T.DoubleType(), T.DateType(), T.TimestampType(), T.DecimalType(10, 2), T.BinaryType()]
    samples = [1, 1, 1, 1, True, '1', 1.5, 1.5, _dt.date(2020, 1, 1), _dt.datetime(2020, 1, 1), _dec.Decimal('1.5'),
               bytearray(b'a')]
    # casting to the same type is the identity -- for every data type, also those outside the Coq model
    ident = [
        (T.DecimalType(10, 2), [_dec.Decimal('1.10'), _dec.Decimal('-0.05'), _dec.Decimal('12345678.90'), 1.5, None]),
        (T.DecimalType(10, 0), [_dec.Decimal('7'), _dec.Decimal('-3'), None]),
        (T.DecimalType(38, 18), [_dec.Decimal('12345678901234567890.123456789012345678'), None]),
        (T.TimestampType(), [_dt.datetime(2020, 1, 2, 3, 4, 5), _dt.datetime(1970, 1, 1), None]),
        (T.DateType(), [_dt.date(2020, 2, 29), _dt.date(1, 1, 1), None]),
        (T.BinaryType(), [bytearray(b''), bytearray(b'ab\x00'), None]),
        (T.ArrayType(T.IntegerType()), [[], [1, None, 3], None]),
        (T.MapType(T.StringType(), T.IntegerType()), [{}, {'a': 1, 'b': None}, None]),
        (T.StructType([T.StructField('a', T.IntegerType()), T.StructField('b', T.StringType())]),
         [T.Row(a=1, b='x'), T.Row(a=None, b=None), None]),
        (T.ByteType(), [0, 127, -128, None]), (T.ShortType(), [32767, None]), (T.IntegerType(), [-2 ** 31, None]),
        (T.LongType(), [2 ** 63 - 1, None]), (T.FloatType(), [1.5, float('inf'), None]),
        (T.DoubleType(), [-0.0, 1e308, None]), (T.BooleanType(), [True, False, None]),
        (T.StringType(), ['', 'abc', ' 12 ', None]), (T.NullType(), [None]),
    ]
    for ty_, values in ident:
        for v in values:
            try:
                r = casts.get_caster(ty_, ty_, {})(v)
                ok = (r is v) or (type(r) is type(v) and r == v and repr(r) == repr(v))
                got = repr(r)
            except Exception as e:  # pylint: disable=broad-except
                ok, got = False, 'raised ' + type(e).__name__
            if not ok:
                yield (f'get_caster:identity:{type(ty_).__name__}', f'cast of {v!r} from {ty_} to the same type',
                       f'gave {got}', None)
    for ft, sv in zip(tys, samples):
        for tt in tys:
            try:
                c = casts.get_caster(ft, tt, {})
            except Exception:  # pylint: disable=broad-except
                continue

            def run(v, c=c):
                try:
                    return ('ok', c(v))
                except Exception as e:  # pylint: disable=broad-except
                    return ('exc', type(e).__name__)
            rn, rs = run(None), run(sv)
            if rs[0] == 'ok' and rn != ('ok', None):
                yield (f'get_caster:null-not-null:{type(ft).__name__}->{type(tt).__name__}',
                       'cast of None', f'gave {rn!r} although the cast of {sv!r} gives {rs[1]!r}', None)
