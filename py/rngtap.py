"""Recording / scripted stand-in for the `random` module as pysparkling.rdd and pysparkling.samplers see it.

The Mersenne twister is not modelled: a generator is an *oracle stream*.  Every generator the code
under test creates (`random.Random(key)`) or reseeds (`random.seed(key)` on the module-level one) is
identified by the key it was seeded with and answers from two streams,

    U : the values returned by .random()                    (floats in [0, 1))
    B : raw non-negative integers; ._randbelow(n) returns  raw % n
        (.randint / .randrange / .shuffle / .choice go through ._randbelow)

record mode  (script=None): the real twister runs underneath and the streams are logged;
                            a logged _randbelow answer j is its own raw value (j % n == j).
script mode  (script=dict): key -> (U, B); a generator seeded with a key that is not in the
                            table, or one that runs out of draws, raises DrawsExhausted.

The module-level generator starts with key 'g'.  `Tap.gsig()` tells what happened to it:
(key of the last reseed or 'g', number of U draws, number of B draws since then).
"""
import contextlib
import random as _real
import types


class DrawsExhausted(Exception):
    pass


class NotScripted(Exception):
    pass


def _make_class(tap):
    class TapRandom(_real.Random):
        def __new__(cls, x=None, _global=False):  # do not hand the seed to the C constructor
            return _real.Random.__new__(cls)

        def __init__(self, x=None, _global=False):  # pylint: disable=super-init-not-called
            self._global = _global
            self.gauss_next = None
            self._begin('g' if _global else x)

        def _begin(self, key):
            self.entry = {'key': key, 'U': [], 'B': [], 'global': self._global}
            tap.log.append(self.entry)
            if tap.script is None:
                if key == 'g' or key is None:
                    # OS entropy in real life; a value handed in by the harness keeps runs reproducible
                    tap.entropy_used += 1
                    key = None if tap.entropy is None else tap.entropy + tap.entropy_used
                _real.Random.seed(self, key)
            else:
                u, b = tap.script.get(_k(key), ((), ()))
                self._u = iter(u)
                self._b = iter(b)

        def seed(self, a=None, version=2):
            self._begin(a)

        def random(self):
            if tap.script is None:
                v = _real.Random.random(self)
            else:
                try:
                    v = next(self._u)
                except StopIteration:
                    raise DrawsExhausted(f'U stream of generator {self.entry["key"]!r}') from None
            self.entry['U'].append(v)
            return v

        def _randbelow(self, n):
            if tap.script is None:
                j = _real.Random._randbelow_with_getrandbits(self, n)
                raw = j
            else:
                try:
                    raw = next(self._b)
                except StopIteration:
                    raise DrawsExhausted(f'B stream of generator {self.entry["key"]!r}') from None
                j = raw % n
            self.entry['B'].append(raw)
            return j

        def getrandbits(self, k):
            if tap.script is None:
                return _real.Random.getrandbits(self, k)
            raise NotScripted('getrandbits')

        def getstate(self):
            raise NotScripted('getstate')

        def setstate(self, state):
            raise NotScripted('setstate')

    return TapRandom


def _k(key):
    """Table key of a seed: ints stay, None stays, 'g' stays; bool is not an int here."""
    return key


class Tap:
    def __init__(self, script=None, entropy=None):
        self.script = script
        self.entropy = entropy
        self.entropy_used = 0
        self.log = []
        self.Random = _make_class(self)
        self.glob = self.Random(None, _global=True)
        self.module = types.SimpleNamespace(Random=self.Random, SystemRandom=_real.SystemRandom)
        for name in ('seed', 'random', 'randint', 'randrange', 'shuffle', 'choice', 'choices', 'sample', 'uniform',
                     'gauss', 'normalvariate', 'expovariate', 'getrandbits', 'betavariate', 'triangular'):
            setattr(self.module, name, getattr(self.glob, name))

    def gsig(self):
        last = [e for e in self.log if e['global']][-1]
        return (last['key'], len(last['U']), len(last['B']))

    def streams(self):
        """What was consumed, as a script table: first generator of each key wins, longest stream kept
        (generators with equal keys produce equal streams, so the longest is a common extension)."""
        table = {}
        for e in self.log:
            k = e['key']
            u, b = table.get(k, ([], []))
            if len(e['U']) > len(u):
                u = list(e['U'])
            if len(e['B']) > len(b):
                b = list(e['B'])
            table[k] = (u, b)
        return table

    @contextlib.contextmanager
    def installed(self):
        import pysparkling.rdd as rdd
        import pysparkling.samplers as samplers
        saved = []
        for mod in (rdd, samplers):
            saved.append((mod, 'random', getattr(mod, 'random')))
            setattr(mod, 'random', self.module)
        # default arguments `rng=random` were bound to the real module when the functions were defined
        fns = [samplers.pysparkling_poisson, samplers.poisson]
        for cls in (samplers.BernoulliSampler, samplers.PoissonSampler, samplers.BernoulliSamplerPerKey,
                    samplers.PoissonSamplerPerKey):
            fns.append(cls.__call__)
        dsaved = []
        for f in fns:
            d = f.__defaults__
            if d:
                dsaved.append((f, d))
                f.__defaults__ = tuple(self.module if x is _real else x for x in d)
        try:
            yield self
        finally:
            for mod, name, val in saved:
                setattr(mod, name, val)
            for f, d in dsaved:
                f.__defaults__ = d
