"""C08 -- saving and re-reading data is lossless for every codec and partition count.

A case is a tuple (kind, ...):

  ('text',     files, path, parts, minP)          saveAsTextFile(parts) to `path`, then textFile(path, minP)
  ('textwhole', files, path, parts, minP)         saveAsTextFile(parts) to `path`, then wholeTextFiles(path, minP)
  ('pickle',   files, path, parts, minP, table)   saveAsPickleFile / pickleFile; table = [(objects, stdlib pickle bytes)]
  ('ctext',    files, path, parts, minP, cfg)     as 'text', but the save runs on Context(pool=ThreadPoolExecutor(n));
  ('cpickle',  files, path, parts, minP, table, cfg)   cfg = (pool size, max_retries or None, forced overlap, upstream barrier)
  ('read',     files, path, minP, meta)           textFile over files written by the harness
  ('whole',    files, path, minP, meta)           wholeTextFiles
  ('binfiles', files, path, minP, meta)           binaryFiles
  ('records',  files, path, recordLength, meta)   binaryRecords; recordLength None | int | (big_endian, width);
                                                  meta = [(name, [records])] when the files were framed from records
  ('codec',    path)                              fileio.codec.get_codec(path).__name__

`files` = [(name, decoded content as bytes)]: written by the harness BEFORE the call, compressed with the
STANDARD-LIBRARY compressor named by the extension of `name` (gzip, bz2, lzma, zipfile, tarfile).
Paths are either relative (the implementation runs with the scratch directory as cwd) or start with the
canonical prefix BASE (replaced by the real scratch directory, which differs from it only in the last
component; both contain no '.' or '/' there).  Scratch files live only under $VERIF_ROOT/.work/C08w/.

Observation for the savers: the listing of every file below the scratch directory, each decoded by the
standard-library codec named by ITS extension (an undecodable file is reported as an error value), and the
partition-wise (glom) result of re-reading.
"""
import bz2
import gzip
import io
import itertools
import lzma
import os
import pickle
import shutil
import struct
import tarfile
import threading
import zipfile
from concurrent.futures import ThreadPoolExecutor

from common.coqlit import Err

from pysparkling import Context
from pysparkling.fileio import codec as ps_codec
from pysparkling.fileio.fs import local as ps_local

ID = 'C08'
KERNELS = ['Gen/Codecs.v: file_endings', 'Gen/Codecs.v: get_codec_name', 'Gen/Codecs.v: text_codec_suffix',
           'Gen/Codecs.v: pickle_codec_suffix', 'Gen/Codecs.v: text_part_name', 'Gen/Codecs.v: pickle_part_name',
           'Gen/Codecs.v: text_line', 'Gen/Codecs.v: chunkers', 'Gen/Parallelize.v: par_take',
           'Gen/Parallelize.v: par_single']
SHARD = 80
RULE = ('concurrency: multi-partition saves on thread pools (sizes 2,3,4,8; forced overlap inside Local.dump, upstream barrier, max_retries default and 1) judged against the sequential model; savers: every extension of the property (none .gz .bz2 .xz .lzma .zip .tar .tar.gz .tar.bz2, plus .txt and an '
        'upper-case extension) x 1..5 partitions (exhaustive shapes incl. empty partitions and the empty data set, explicit '
        'partition contents via Context._parallelize_partitions and the public parallelize) x string lists over '
        'ASCII / Unicode (2-, 3-, 4-byte utf8, boundary code points) / non-breaking whitespace / empty-string alphabets / '
        'characters that codecs treat specially (U+FEFF, U+FFFE, NUL, SUB, DEL, U+FFFD, combining marks, joiners, bidi '
        'controls, private use, astral) placed at the start / middle / end of the first element of a partition, of a '
        'later element and of file contents x '
        'minPartitions in {None,1,3,7} x path shapes (absolute, relative, dotted directory, hidden, unicode name); '
        'pickle the same over ints/floats/strings/tuples/None/bools/lists; readers over harness-written trees '
        '(part*, markers, nested directories, every std-lib container incl. multi-member zip/tar and legacy .lzma) with '
        'contents over ALL str.splitlines break characters; binaryRecords over fixed and struct-prefixed framings '
        '(widths 1,2,4,8, both byte orders, empty records, ragged tails, truncated prefixes, L <= 0); get_codec over '
        'generated path strings; non-trivial = at least one element / one file; distinct by canonical JSON of the case')
ASSUMPTIONS = [
    'paths contain none of * ? [ and do not end with a separator (pattern resolution is C20\'s subject)',
    'strings consist of Unicode scalar values (a lone surrogate is dropped by encode(errors="ignore"))',
    'file contents given to the readers are well-formed utf8 (the model skips one byte per ill-formed lead byte, '
    'CPython skips the maximal ill-formed prefix)',
    'the scratch directory prefix differs between implementation and model only in its last component (no dot, no slash)',
    'pickle.dump(obj, stream) and pickle.dumps(obj) produce the same bytes (default protocol); objects carry no shared '
    'identity except CPython singletons',
    'struct length-prefix formats: byte order < > ! = @ or none with one of B H I L Q b h i l q on a little-endian machine; '
    'for signed formats the generated lengths stay below 2^(8w-1)',
]
TRUSTED = ['translator/kernels/c08.py (FILE_ENDINGS table, get_codec, suffix test, part-name format, chunker loops)',
           'gzip/bz2/lzma/zipfile/tarfile and pickle as black boxes: decompress (compress b) = b, loads (dumps x) = x '
           '(Section hypotheses); validity of the written compressed streams is a TEST against the std-lib decoders']

VERIF = os.environ.get('VERIF_ROOT', '/verif')
BASE = '/verif/.work/C08w/U'          # canonical scratch prefix seen by the model
SCRATCH = os.path.join(VERIF, '.work', 'C08w')
_counter = itertools.count()

EXTS = ['', '.gz', '.bz2', '.xz', '.lzma', '.zip', '.tar', '.tar.gz', '.tar.bz2']
COMPRESSION_EXTS = ('.tar.gz', '.tar.bz2', '.tar', '.gz', '.bz2', '.xz', '.lzma', '.zip')
BREAKS = '\n\r\x0b\x0c\x1c\x1d\x1e\x85\u2028\u2029'
FMT = {1: 'B', 2: 'H', 4: 'I', 8: 'Q'}


# ------------------------------------------------------------------ standard-library codecs (independent of pysparkling)
def std_kind(name):
    last = name.rsplit('/', 1)[-1]
    for e in COMPRESSION_EXTS:           # longest endings first
        if last.endswith(e):
            return e
    return None


def _split2(raw):
    return [raw] if len(raw) < 2 else [raw[:len(raw) // 2], raw[len(raw) // 2:]]


def std_compress(name, raw):
    k = std_kind(name)
    if k is None:
        return raw
    if k == '.gz':
        return gzip.compress(raw)
    if k == '.bz2':
        return bz2.compress(raw)
    if k == '.xz':
        return lzma.compress(raw, format=lzma.FORMAT_XZ)
    if k == '.lzma':
        return lzma.compress(raw, format=lzma.FORMAT_ALONE)    # the legacy container the name declares
    out = io.BytesIO()
    if k == '.zip':
        with zipfile.ZipFile(out, 'w') as z:
            for i, piece in enumerate(_split2(raw)):
                z.writestr(f'm{i}', piece)
        return out.getvalue()
    mode = {'.tar': 'w', '.tar.gz': 'w:gz', '.tar.bz2': 'w:bz2'}[k]
    with tarfile.open(fileobj=out, mode=mode) as t:
        for i, piece in enumerate(_split2(raw)):
            ti = tarfile.TarInfo(f'm{i}')
            ti.size = len(piece)
            t.addfile(ti, io.BytesIO(piece))
    return out.getvalue()


def std_decode(name, data):
    """Decode `data` with the standard-library codec named by the extension of `name`; Err when it is not
    a valid stream of that format."""
    k = std_kind(name)
    try:
        if k is None:
            return data
        if k == '.gz':
            return gzip.decompress(data)
        if k == '.bz2':
            return bz2.decompress(data)
        if k == '.xz':
            return lzma.decompress(data, format=lzma.FORMAT_XZ)
        if k == '.lzma':
            return lzma.decompress(data)     # std-lib lzma module, container auto-detected
        if k == '.zip':
            with zipfile.ZipFile(io.BytesIO(data)) as z:
                if z.testzip() is not None:
                    return Err('BadZipFile')
                return b''.join(z.read(n) for n in z.namelist())
        mode = {'.tar': 'r:', '.tar.gz': 'r:gz', '.tar.bz2': 'r:bz2'}[k]
        with tarfile.open(fileobj=io.BytesIO(data), mode=mode) as t:
            return b''.join(t.extractfile(m).read() for m in t.getmembers() if m.isfile())
    except Exception as e:  # pylint: disable=broad-except
        return Err('Invalid' + {'.gz': 'Gzip', '.bz2': 'Bz2', '.xz': 'Xz', '.lzma': 'Lzma', '.zip': 'Zip'}.get(k, 'Tar')
                   + ':' + type(e).__name__)


# ------------------------------------------------------------------ running the implementation
class Scratch:
    def __enter__(self):
        self.cwd = os.getcwd()
        self.real = os.path.join(SCRATCH, f'{os.getpid()}x{next(_counter)}')
        shutil.rmtree(self.real, ignore_errors=True)
        os.makedirs(self.real)
        os.chdir(self.real)
        return self

    def __exit__(self, *a):
        os.chdir(self.cwd)
        shutil.rmtree(self.real, ignore_errors=True)

    def real_path(self, p):
        return self.real + p[len(BASE):] if p.startswith(BASE) else p

    def canon(self, p):
        if p.startswith(self.real):
            return BASE + p[len(self.real):]
        return p

    def write(self, files):
        for name, raw in files:
            rp = self.real_path(name)
            d = os.path.dirname(rp)
            if d:
                os.makedirs(d, exist_ok=True)
            with open(rp, 'wb') as f:
                f.write(std_compress(name, raw))

    def listing(self, absolute):
        out = []
        for root, _, names in os.walk(self.real):
            for n in names:
                rp = os.path.join(root, n)
                name = self.canon(rp) if absolute else rp[len(self.real) + 1:]
                with open(rp, 'rb') as f:
                    out.append((name, std_decode(name, f.read())))
        return sorted(out, key=lambda t: t[0])


def fresh(o):
    """A copy of `o` without shared identity (pickle memoises by identity)."""
    if isinstance(o, str):
        if len(o) > 1:
            return ''.join(list(o))
        return chr(ord(o)) if o and ord(o) > 255 else o
    if isinstance(o, tuple):
        return tuple(fresh(x) for x in o)
    if isinstance(o, list):
        return [fresh(x) for x in o]
    return o


def public_split(flat, n):
    return [list(p) for p in Context().parallelize(list(flat), n).glom().collect()]


def _rdd(sc, parts):
    """The data set with exactly these partitions: through the public parallelize when that yields them."""
    flat = [x for p in parts for x in p]
    rdd = sc.parallelize(flat, len(parts))
    if all(len(a) == len(b) for a, b in zip(rdd.glom().collect(), parts)) and rdd.getNumPartitions() == len(parts):
        return sc.parallelize(flat, len(parts))
    return sc._parallelize_partitions([list(p) for p in parts])  # pylint: disable=protected-access


def _reclen(a):
    if a is None or isinstance(a, int):
        return a
    if len(a) == 3:
        return a[2]          # (big_endian, width, struct format): the format the case was framed with
    be, w = a
    return ('>' if be else '<') + FMT[w]


def fmt_descr(fmt):
    """(big_endian, width, fmt) of a struct length-prefix format, from the struct module itself."""
    w = struct.calcsize(fmt)
    be = struct.pack(fmt, 1)[-1] == 1 if w > 1 else False
    return (be, w, fmt)


STRUCT_FORMATS = [bo + c for bo in ('<', '>', '!', '=', '@', '') for c in 'BHILQbhilq']


class _Gate:
    """Makes the tasks of one wave overlap: every worker thread that passes waits for the others."""

    def __init__(self, parties, timeout=0.5):
        self.barrier = threading.Barrier(parties) if parties > 1 else None
        self.timeout = timeout

    def __call__(self):
        if self.barrier is None or threading.current_thread() is threading.main_thread():
            return
        try:
            self.barrier.wait(self.timeout)
        except threading.BrokenBarrierError:
            pass


class _IoProxy:
    """Stands in for the `io` module inside pysparkling.fileio.fs.local: a file opened for writing by a worker
    thread is handed out only when the other tasks of the wave have opened theirs too (all of them are then
    inside Local.dump at the same time)."""

    def __init__(self, real, gate):
        self._real = real
        self._gate = gate

    def __getattr__(self, name):
        return getattr(self._real, name)

    def open(self, file, mode='r', *args, **kwargs):
        f = self._real.open(file, mode, *args, **kwargs)
        if 'w' in mode:
            self._gate()
        return f


def concurrent_save(s, case):
    """Run the saver of a 'ctext' / 'cpickle' case on a thread pool; re-read sequentially."""
    kind, files, path, parts, minp = case[:5]
    size, retries, forced, upstream = case[-1]
    rp = s.real_path(path)
    absolute = path.startswith(BASE)
    parties = max(1, min(size, len(parts)))
    real_io = ps_local.io
    with ThreadPoolExecutor(size) as pool:
        sc = Context(pool=pool) if retries is None else Context(pool=pool, max_retries=retries)
        data = [fresh(p) for p in parts] if kind == 'cpickle' else parts
        rdd = sc._parallelize_partitions([list(p) for p in data])  # pylint: disable=protected-access
        if upstream:
            gate_up = _Gate(parties)

            def wait_for_the_others(it):
                xs = list(it)
                gate_up()
                return xs
            rdd = rdd.mapPartitions(wait_for_the_others)
        try:
            if forced:
                ps_local.io = _IoProxy(real_io, _Gate(parties))
            if kind == 'ctext':
                rdd.saveAsTextFile(rp)
            else:
                rdd.saveAsPickleFile(rp)
        finally:
            ps_local.io = real_io
    listing = s.listing(absolute)
    if kind == 'ctext':
        back = Context().textFile(rp, minp).glom().collect()
    else:
        back = Context().pickleFile(rp, minp).glom().collect()
    return (listing, [list(p) for p in back])


def impl(case):
    kind = case[0]
    if kind == 'codec':
        try:
            return ps_codec.get_codec(case[1]).__name__
        except Exception as e:  # pylint: disable=broad-except
            return Err(type(e).__name__)
    with Scratch() as s:
        try:
            files, path = case[1], case[2]
            s.write(files)
            sc = Context()
            rp = s.real_path(path)
            absolute = path.startswith(BASE)
            if kind in ('ctext', 'cpickle'):
                return concurrent_save(s, case)
            if kind == 'text':
                parts, minp = case[3], case[4]
                _rdd(sc, parts).saveAsTextFile(rp)
                listing = s.listing(absolute)
                back = Context().textFile(rp, minp).glom().collect()
                return (listing, [list(p) for p in back])
            if kind == 'textwhole':
                parts, minp = case[3], case[4]
                _rdd(sc, parts).saveAsTextFile(rp)
                listing = s.listing(absolute)
                back = Context().wholeTextFiles(rp, minp).glom().collect()
                return (listing, [[(s.canon(n), c) for n, c in p] for p in back])
            if kind == 'pickle':
                parts, minp = case[3], case[4]
                _rdd(sc, [fresh(p) for p in parts]).saveAsPickleFile(rp)
                listing = s.listing(absolute)
                back = Context().pickleFile(rp, minp).glom().collect()
                return (listing, [list(p) for p in back])
            if kind == 'read':
                return [list(p) for p in sc.textFile(rp, case[3]).glom().collect()]
            if kind == 'whole':
                return [[(s.canon(n), c) for n, c in p] for p in sc.wholeTextFiles(rp, case[3]).glom().collect()]
            if kind == 'binfiles':
                return [[(s.canon(n), bytes(c)) for n, c in p] for p in sc.binaryFiles(rp, case[3]).glom().collect()]
            if kind == 'records':
                return [[bytes(r) for r in p] for p in sc.binaryRecords(rp, _reclen(case[3])).glom().collect()]
            return Err('BadCase')
        except Exception as e:  # pylint: disable=broad-except
            return Err(type(e).__name__)


# ------------------------------------------------------------------ the property, judged on the implementation alone
def _has_break(x):
    return any(c in BREAKS for c in x)


def _scalar(x):
    return all(not 0xD800 <= ord(c) <= 0xDFFF for c in x)


def _flat(ps):
    return [x for p in ps for x in p]


def _same(a, b):
    """Equality that distinguishes bool/int and compares floats bitwise."""
    if type(a) is not type(b):
        return False
    if isinstance(a, float):
        return a.hex() == b.hex() or (a != a and b != b)
    if isinstance(a, (list, tuple)):
        return len(a) == len(b) and all(_same(x, y) for x, y in zip(a, b))
    return a == b


def _ext_of(path):
    last = path.rsplit('/', 1)[-1]
    for e in COMPRESSION_EXTS:
        if last.endswith(e) and path.endswith(e):
            return e
    return ''


def _below(name, path):
    return name == path or name.startswith(path + '/')


def _oracle_save(case, result, what):
    kind, files, path, parts, minp = case[:5]
    conc = kind in ('ctext', 'cpickle')
    kind = {'ctext': 'text', 'cpickle': 'pickle'}.get(kind, kind)
    site = ('concurrent:' if conc else '') + ('saveAsTextFile' if kind in ('text', 'textwhole') else 'saveAsPickleFile')
    pre = {n for n, _ in files}
    if isinstance(result, Err):
        if result.name == 'FileAlreadyExistsException' and any(_below(n, path) for n in pre):
            return None     # refusing to overwrite is C09's subject
        return (f'{site}:raised:{result.name}', f'{site}/{what} to {path!r} with {len(parts)} partitions raised {result.name}')
    listing, back = result
    ext = _ext_of(path)
    if kind == 'textwhole':
        if any(not isinstance(x, str) or _has_break(x) or not _scalar(x) for x in _flat(parts)):
            return None
        data = sorted(n for n, _ in listing if n not in pre and _below(n, path) and not n.endswith('/_SUCCESS'))
        chunks = [_flat(parts)] if len(parts) == 1 else parts
        want = [(('' if '/' in path or len(parts) == 1 else './') + n, ''.join(x + '\n' for x in c))
                for n, c in zip(data, chunks)]
        if len(data) != len(chunks) or _flat(back) != want:
            return (f'wholeTextFiles:saved-data-set:ext={ext or "none"}',
                    f'{path!r} partitions={len(parts)}: wholeTextFiles gave {_flat(back)!r}, expected {want!r}')
        return None
    if kind == 'text':
        if any(not isinstance(x, str) or _has_break(x) or not _scalar(x) for x in _flat(parts)):
            return None     # outside the property's quantifier
        if _flat(back) != _flat(parts):
            return (f'textFile:roundtrip:ext={ext or "none"}',
                    f'{path!r} partitions={len(parts)} minPartitions={minp}: wrote {_flat(parts)!r}, read {_flat(back)!r}')
    else:
        if not _same(_flat(back), _flat(parts)):
            return (f'pickleFile:roundtrip:ext={ext or "none"}',
                    f'{path!r} partitions={len(parts)} minPartitions={minp}: wrote {_flat(parts)!r}, read {_flat(back)!r}')
    data = [(n, c) for n, c in listing if n not in pre and _below(n, path) and not n.endswith('/_SUCCESS')]
    if conc:
        # tasks that write at the same time must not disturb each other: every part file holds exactly its partition
        chunks = [_flat(parts)] if len(parts) == 1 else parts
        if len(data) != len(chunks):
            return (f'{site}:part-files', f'{path!r}: {len(chunks)} partitions but data files {[n for n, _ in data]!r}')
        for (n, c), chunk in zip(data, chunks):
            if isinstance(c, Err):
                return (f'{site}:invalid-stream:ext={ext or "none"}', f'data file {n!r} does not decode ({c.name})')
            try:
                got = c.decode('utf8').splitlines() if kind == 'text' else pickle.loads(c)
            except Exception as e:  # pylint: disable=broad-except
                return (f'{site}:part-content', f'data file {n!r} is unreadable: {type(e).__name__}')
            if not _same(list(got), list(chunk)):
                return (f'{site}:part-content', f'data file {n!r} holds {got!r}, its partition is {chunk!r}')
    if ext:
        for n, c in data:
            if std_kind(n) is None:
                return (f'{site}:data-file-without-compression-extension:ext={ext}',
                        f'target {path!r} carries {ext} but data file {n!r} has no compression extension')
            if isinstance(c, Err):
                return (f'{site}:invalid-stream:ext={ext}',
                        f'data file {n!r} is not a valid stream of the format its name declares ({c.name})')
    return None


def _resolved(files, path):
    names = [n for n, _ in files]
    if path in names:
        return [path]
    pre = '' if '/' in path else './'
    return sorted(pre + n for n in names if n.startswith(path + '/part'))


def oracle(case, result):
    kind = case[0]
    if kind in ('text', 'ctext'):
        return _oracle_save(case, result, 'textFile')
    if kind == 'cpickle':
        return _oracle_save(case, result, 'pickleFile')
    if kind == 'textwhole':
        return _oracle_save(case, result, 'wholeTextFiles')
    if kind == 'pickle':
        return _oracle_save(case, result, 'pickleFile')
    if kind == 'codec':
        path = case[1]
        last = path.rsplit('/', 1)[-1]
        if path.endswith('.7z') or isinstance(result, Err):
            return None if not isinstance(result, Err) else ('get_codec:raised', f'{path!r}: {result.name}')
        names = {'.tar.gz': 'TarGz', '.tar.bz2': 'TarBz2', '.tar': 'Tar', '.gz': 'Gz', '.bz2': 'Bz2', '.xz': 'Lzma',
                 '.lzma': 'Lzma', '.zip': 'Zip'}
        if '.' not in last:
            want = 'Codec'
        else:
            want = next((names[e] for e in COMPRESSION_EXTS if path.endswith(e)), 'NoCodec')
        if result != want:
            return (f'get_codec:class:{want}', f'get_codec({path!r}) is {result}, the extension declares {want}')
        return None
    files, path, arg, meta = case[1], case[2], case[3], case[4]
    content = dict(files)
    if isinstance(result, Err):
        if kind == 'records' and meta is None:
            return None     # ragged / truncated input or L <= 0: no claim
        return (f'{kind}:raised:{result.name}', f'{kind} of {path!r} raised {result.name}')
    flat = _flat(result)
    names = _resolved(files, path)

    def raw(n):
        return content[n[2:] if n.startswith('./') and n not in content else n]
    if kind == 'whole':
        keys = [n for n, _ in flat]
        if keys != names:
            return ('wholeTextFiles:keys', f'{path!r}: keys {keys!r}, expected the sorted file names {names!r}')
        for n, c in flat:
            want = raw(n).decode('utf8')
            if c != want:
                return ('wholeTextFiles:content', f'{n!r}: content {want!r} returned as {c!r}')
        return None
    if kind == 'read':
        want = [l for n in names for l in raw(n).decode('utf8').splitlines()]
        if flat != want:
            return ('textFile:lines', f'{path!r}: {flat!r}, expected {want!r}')
        return None
    if kind == 'binfiles':
        want = [(n, raw(n)) for n in names]
        if flat != want:
            return ('binaryFiles:content', f'{path!r}: {flat!r}, expected {want!r}')
        return None
    if kind == 'records' and meta is not None:
        recs = dict(meta)
        want = [r for n in names for r in recs[n[2:] if n.startswith('./') and n not in recs else n]]
        if flat != want:
            return (f'binaryRecords:{"fixed" if isinstance(arg, int) else "prefixed"}'
                    + (f':{arg[2]}' if isinstance(arg, tuple) and len(arg) == 3 else ''),
                    f'{path!r} recordLength={arg!r}: {flat!r}, expected the original records {want!r}')
    return None


def nontrivial(case, result):
    kind = case[0]
    if kind in ('text', 'pickle', 'textwhole', 'ctext', 'cpickle'):
        return len(_flat(case[3])) > 0 and not isinstance(result, Err)
    if kind == 'codec':
        return '.' in case[1]
    return len(case[1]) > 0 and not isinstance(result, Err)


def kind(case):
    k = case[0]
    if k in ('text', 'pickle', 'textwhole', 'ctext', 'cpickle'):
        return f'{k}:{_ext_of(case[2]) or "none"}:p{len(case[3])}'
    if k == 'records':
        a = case[3]
        return 'records:' + ('whole' if a is None else 'fixed' if isinstance(a, int) else 'prefixed')
    return k


# ------------------------------------------------------------------ generators
ASCII = 'abcXYZ019 _-.,;:!?()[]{}<>/\\|"\'=+*&%$#@~^`'
UNI = ('\u00e9\u00df\u00f1\u03a9\u0436\u05e9\u0639\u4e2d\u65e5\ud55c\U0001f600\U0001d11e\u07ff\u0800\uffff'
       '\U00010000\U0010ffff\ud7ff\ue000\u00ff\u0100\u00a9\u007f\u0080')
SPACE = ' \t\u00a0\u2003\u3000\u200b\u1680\x1f'     # white space that is not a line break for str.splitlines
# characters that encoders / decoders / text layers are known to treat specially (none is a line break):
# BOM / ZWNBSP, its byte-swapped twin, NUL, SUB (DOS end-of-file), DEL, replacement character, soft hyphen,
# combining marks, joiners, bidi controls, variation selectors, private use, astral and last code points
SPECIAL = ('\ufeff\ufffe\x00\x1a\x7f\ufffd\u00ad\u0301\u0308\u20dd\u200d\u200c\u200e\u202e\u2066\ufe0f\u061c\ue000'
           '\U000e0001\U0001f468\U000f0000\U0010fffd\U0010ffff\x01\x08\x1b')


def gen_string(rng, alpha=None):
    alpha = alpha or rng.choice([ASCII, ASCII, UNI, SPACE, SPECIAL, ASCII + UNI + SPACE + SPECIAL, ASCII + SPECIAL])
    r = rng.random()
    if r < 0.18:
        return ''
    n = 1 if r < 0.3 else rng.randint(1, 9)
    return ''.join(rng.choice(alpha) for _ in range(n))


def gen_parts(rng, n_parts, gen_elem):
    """Partition contents: explicit shapes incl. empty partitions and the empty data set."""
    mode = rng.random()
    if mode < 0.12:
        return [[] for _ in range(n_parts)]
    if mode > 0.8:      # the split the public parallelize(list, n) makes
        return public_split([gen_elem(rng) for _ in range(rng.randint(0, 3 * n_parts))], n_parts)
    parts = []
    for _ in range(n_parts):
        if mode < 0.45 and rng.random() < 0.4:
            parts.append([])
        else:
            parts.append([gen_elem(rng) for _ in range(rng.randint(0, 4))])
    return parts


def gen_target(rng, ext):
    stem = rng.choice(['out', 'out', 'data', 'o', 'a b', 'ö', 'out.v1', '.hidden', 'x.tar', 'gz', 'part-0'])
    form = rng.random()
    if form < 0.55:
        return f'{BASE}/{stem}{ext}'
    if form < 0.7:
        return f'{BASE}/d.x/{stem}{ext}'
    if form < 0.8:
        return f'{BASE}/sub/deeper/{stem}{ext}'
    if form < 0.9:
        return f'{stem}{ext}'
    return f'sub/{stem}{ext}'


def gen_obj(rng, depth=0):
    r = rng.random()
    if r < 0.3:
        return rng.choice([0, 1, -1, 255, 256, 65535, 2 ** 31, -2 ** 63, 2 ** 70, rng.randint(-1000, 1000)])
    if r < 0.5:
        return gen_string(rng) + rng.choice(['', '\n', '\r\n x'])
    if r < 0.6:
        return rng.choice([0.0, -0.0, 1.5, float('inf'), 1e300, rng.random()])
    if r < 0.7:
        return rng.choice([None, True, False])
    if depth < 2:
        items = [gen_obj(rng, depth + 1) for _ in range(rng.randint(0, 3))]
        return tuple(items) if r < 0.87 else items
    return rng.randint(0, 9)


def pickle_table(parts):
    keys = [list(p) for p in parts] + [_flat(parts)]
    table = []
    for k in keys:
        if not any(_same(k, t[0]) for t in table):
            table.append((k, pickle.dumps(fresh(k))))
    return table


def save_cases(rng, tier):
    cases = []
    reps = 2 if tier == 'quick' else 14
    exts = EXTS + ['.txt', '.GZ']
    # exhaustive over extension x partitions 1..5 x minPartitions, random contents
    for ext in exts:
        for n_parts in range(1, 6):
            for minp in (None, 1, 3, 7):
                for _ in range(reps):
                    parts = gen_parts(rng, n_parts, gen_string)
                    cases.append(('text', [], gen_target(rng, ext), parts, minp))
    # one alphabet at a time, every extension
    for ext in EXTS:
        for alpha in (ASCII, UNI, SPACE, SPECIAL, ''):
            for _ in range(reps):
                n_parts = rng.randint(1, 5)
                parts = gen_parts(rng, n_parts, (lambda r, a=alpha: gen_string(r, a) if a else ''))
                cases.append(('text', [], gen_target(rng, ext), parts, rng.choice([None, 1, 3, 7])))
    # more partitions than 5 (part numbers with two digits), minPartitions beyond the file count and odd values
    for ext in ('', '.gz', '.tar.bz2', '.zip'):
        for n_parts in (6, 11, 12):
            for minp in (None, 0, 2, 13, 40, -1):
                parts = gen_parts(rng, n_parts, gen_string)
                cases.append(('text', [], gen_target(rng, ext), parts, minp))
    # neighbours in the scratch directory that must not be picked up, and refusals to overwrite
    for ext in EXTS:
        t = f'{BASE}/out{ext}'
        parts = gen_parts(rng, rng.randint(1, 4), gen_string)
        cases.append(('text', [(f'{t}.bak/part-00000', b'no\n'), (f'{BASE}/part-00009', b'no\n'),
                               (f'{BASE}/out2{ext}', b'zz\n')], t, parts, rng.choice([None, 3])))
        cases.append(('text', [(t, b'old\n')], t, parts, None))
        cases.append(('text', [(f'{t}/part-00000{ext[ext.rfind("."):] if ext else ""}', b'old\n')], t, parts, None))
    # pickle
    for ext in EXTS:
        for n_parts in range(1, 6):
            for minp in ((None, 3) if tier == 'quick' else (None, 1, 3, 7)):
                for _ in range(1 if tier == 'quick' else 6):
                    parts = gen_parts(rng, n_parts, gen_obj)
                    cases.append(('pickle', [], gen_target(rng, ext), parts, minp, pickle_table(parts)))
    return cases


def placements(c, word='ab'):
    """The character alone, at the start, in the middle, at the end, doubled at the start."""
    return [c, c + word, word[:1] + c + word[1:], word + c, c + c + word]


def special_cases(rng, tier):
    """Every special character at the start / middle / end of an element that is the FIRST element of the first
    partition, the first element of a later partition, and a non-first element; and at the start / middle / end
    of file contents handed to the readers.  Extensions rotate (all of them in the thorough tier)."""
    cases = []
    k = 0
    for c in SPECIAL:
        for w in placements(c):
            exts = EXTS if tier != 'quick' else [EXTS[k % len(EXTS)], EXTS[(k + 4) % len(EXTS)]]
            k += 1
            for ext in exts:
                shapes = [[[w]], [[w, 'x']], [['x'], [w, 'y']], [['x', w], []], [[w], [w], [w, w]]]
                for parts in (shapes if tier != 'quick' else rng.sample(shapes, 2)):
                    kind_ = 'text' if rng.random() < 0.7 else 'textwhole'
                    cases.append((kind_, [], gen_target(rng, ext), parts, rng.choice([None, 1, 3, 7])))
            # the readers: the character at the start / middle / end of a file, also next to line breaks
            ext = EXTS[k % len(EXTS)]
            for content in (w, w + '\n', w + '\r\n' + w, '\n' + w, w + '\u2028' + w):
                name = f'{BASE}/sp{ext}'
                for kind_ in (('whole', 'read') if tier != 'quick' else (rng.choice(['whole', 'read']),)):
                    cases.append((kind_, [(name, content.encode('utf8'))], name, None, None))
            tree = f'{BASE}/spd'
            cases.append((rng.choice(['whole', 'read']),
                          [(f'{tree}/part-00000{ext}', w.encode('utf8')), (f'{tree}/part-00001{ext}', b''),
                           (f'{tree}/part-00002{ext}', (w + '\n' + w).encode('utf8'))], tree, rng.choice([None, 2]), None))
    # line-break class characters are legal in wholeTextFiles contents: start / middle / end
    for c in BREAKS:
        for w in placements(c):
            name = f'{BASE}/br' + rng.choice(EXTS)
            cases.append(('whole', [(name, w.encode('utf8'))], name, None, None))
            cases.append(('read', [(name, w.encode('utf8'))], name, None, None))
    # strings in pickles
    for c in SPECIAL[:8]:
        parts = [[c + 'ab', 'x'], [('t', c), c]]
        cases.append(('pickle', [], gen_target(rng, rng.choice(EXTS)), parts, None, pickle_table(parts)))
    return cases


def edge_shape_cases(rng, tier):
    """Small partition shapes around the empty string / empty partition, every extension; saved data sets read back
    through wholeTextFiles (empty part files must keep their (path, '') entry); long partitions with repeated
    objects in pickles."""
    cases = []
    shapes = [[['']], [[''], ['']], [['a'], [''], ['b']], [['', '']], [[], ['']], [[''], []], [[' ']], [['a', '']],
              [['', 'a']], [[], [], []], [[]], [['a'], [], ['b'], []]]
    for ext in EXTS:
        for parts in (shapes if tier != 'quick' else rng.sample(shapes, 5)):
            cases.append(('text', [], gen_target(rng, ext), parts, rng.choice([None, 3])))
        for parts in rng.sample(shapes, 3 if tier == 'quick' else 8):
            cases.append(('textwhole', [], gen_target(rng, ext), parts, rng.choice([None, 2, 7])))
        for _ in range(2 if tier == 'quick' else 10):
            parts = gen_parts(rng, rng.randint(1, 5), gen_string)
            cases.append(('textwhole', [], gen_target(rng, ext), parts, rng.choice([None, 1, 3, 7])))
    # more than ten objects in one partition with repeated (identical and equal) objects
    for ext in ('', '.gz', '.zip', '.tar.bz2'):
        for n_parts in (1, 2):
            words = [gen_string(rng, ASCII) + str(i) for i in range(rng.randint(4, 9))]
            tup = (1, 'k')
            big = (words + words + [tup, tup] + words[2:6])[:rng.randint(12, 30)]
            parts = [big] + [[rng.choice(words) for _ in range(rng.randint(0, 14))] for _ in range(n_parts - 1)]
            cases.append(('pickle', [], gen_target(rng, ext), parts, rng.choice([None, 3]), pickle_table(parts)))
        for big in (['a', 'b', 'c'] * 9, [''] * 15, ['x', (), 'y', ()] * 4, list('abcdefghijkl') + ['b', 'c', 'k']):
            parts = [list(big)] if ext in ('', '.zip') else [list(big), ['a'], list(big[:11])]
            cases.append(('pickle', [], gen_target(rng, ext), parts, None, pickle_table(parts)))
    # framed records whose last record(s) are empty
    for w in (1, 2, 4, 8):
        for be in (False, True):
            for recs in ([b''], [b'abc', b''], [b'x', b'', b''], [b'', b'y'], []):
                fmt = ('>' if be else '<') + FMT[w]
                name = f'{BASE}/tail' + rng.choice(['', '.bin', '.gz'])
                cases.append(('records', [(name, b''.join(struct.pack(fmt, len(r)) + r for r in recs))], name,
                              (be, w), [(name, recs)]))
    return cases


def struct_format_cases(rng, tier):
    """binaryRecords with EVERY struct length-prefix format (byte order < > ! = @ none x B H I L Q b h i l q):
    records of the boundary lengths the field can hold (0, 1, 2, 127, 128, 255, 256, 257), a trailing empty
    record included; exact framing by struct.pack(fmt, len) + payload."""
    cases = []
    for k, fmt in enumerate(STRUCT_FORMATS):
        be, w, _ = fmt_descr(fmt)
        signed = fmt[-1].islower()
        top = (1 << (8 * w - (1 if signed else 0))) - 1
        lengths = [n for n in (0, 1, 2, 127, 128, 255, 256, 257) if n <= top]
        variants = [lengths + [0], [1], [2, 0, 0], rng.sample(lengths, min(3, len(lengths))) + [rng.choice([0, 3])]]
        if tier == 'quick':
            variants = [variants[0], variants[1 + k % 3]]
        for lens in variants:
            recs = [gen_record(rng, n) for n in lens]
            name = f'{BASE}/fmt' + rng.choice(['', '.bin', '.gz'])
            cases.append(('records', [(name, b''.join(struct.pack(fmt, len(r)) + r for r in recs))], name,
                          fmt_descr(fmt), [(name, recs)]))
    return cases


def wide_line(width_char, offset, total):
    """A line whose utf8 form has the wide character starting at byte `offset` and is `total` bytes long at least."""
    return 'a' * offset + width_char + 'b' * max(0, total - offset - len(width_char.encode('utf8')))


WIDE = ['\u00e9', '\u4e2d', '\U0001f600']      # 2-, 3-, 4-byte utf8


def big_file_cases(rng, tier, budget):
    """Data files larger than 8192 / 16384 / 65536 bytes with multi-byte characters around every multiple of
    8192 bytes of the uncompressed file: a single wide character swept over the offsets 8190..8194 (and around
    16384, 65536 for the larger sizes), and dense non-ASCII text."""
    cases = []
    exts = EXTS + ['.txt']
    k = 0
    for size, boundary in ((8192, 8192), (16384, 16384), (65536, 65536)):
        for ch in WIDE:
            for off in range(boundary - 2, boundary + 3):
                k += 1
                line = wide_line(ch, off, size + 40)
                # a second wide character around the first multiple of 8192 too
                if boundary > 8192:
                    line = line[:8190] + ch + line[8190 + 1:]
                for ext in (exts if tier != 'quick' else [exts[k % len(exts)], exts[(k + 5) % len(exts)]]):
                    for parts in ([[line]], [['x'], [line, 'y'], [ch + line]]):
                        kind_ = 'text' if (k + len(parts)) % 3 else 'textwhole'
                        cases.append((kind_, [], f'{BASE}/big{ext}', parts, rng.choice([None, 3])))
    for ext in exts:       # dense non-ASCII text: characters of every width at every alignment
        for n in (9000, 40000):
            line = ''.join(rng.choice(UNI + 'ab') for _ in range(n))
            if _has_break(line) or not _scalar(line):
                continue
            cases.append(('text', [], f'{BASE}/dense{ext}', [[line[:100], line], [line[::-1]]], None))
            cases.append(('textwhole', [], f'{BASE}/dense{ext}', [[line]], None))
    if budget is not None and len(cases) > budget:
        cases = rng.sample(cases, budget)
    return cases


def concurrency_cases(rng, tier):
    """Multi-partition saves on thread pools.  cfg = (pool size, max_retries or None, forced overlap inside
    Local.dump, barrier in an upstream mapPartitions).  Partitions have pairwise different contents and lengths."""
    cases = []
    n = 0
    for ext in ('', '.gz', '.bz2', '.zip', '.tar.gz', '.txt', '.xz'):
        for size in (2, 3, 4, 8):
            for retries in (None, 1):
                for forced, upstream in ((True, False), (True, True), (False, True)):
                    n += 1
                    if tier == 'quick' and (n % 4 or (not forced and n % 8)):
                        continue
                    n_parts = size * rng.choice([1, 1, 2])
                    parts = [[f'p{i}:{gen_string(rng, ASCII)}' * rng.randint(1, 3) for _ in range(rng.randint(1, 4) + i % 3)]
                             for i in range(n_parts)]
                    cfg = (size, retries, forced, upstream)
                    if n % 3:
                        cases.append(('ctext', [], gen_target(rng, ext), parts, rng.choice([None, 3]), cfg))
                    else:
                        objs = [[(i, x) if j % 2 else x for j, x in enumerate(p)] for i, p in enumerate(parts)]
                        cases.append(('cpickle', [], gen_target(rng, ext), objs, None, pickle_table(objs), cfg))
    return cases


def gen_text_content(rng):
    alpha = ASCII + UNI + SPACE + SPECIAL
    pieces = []
    if rng.random() < 0.25:
        pieces.append(rng.choice(SPECIAL))      # a special character at the very start of the file
    for _ in range(rng.randint(0, 6)):
        pieces.append(gen_string(rng, alpha))
        pieces.append(rng.choice(['\n', '\n', '\r\n', '\r', '\n\r', '\r\r\n', '', '\n\n'] + list(BREAKS)))
    if rng.random() < 0.3 and pieces:
        pieces.pop()
    return ''.join(pieces).encode('utf8')


def gen_tree(rng, root, ext_pool, gen_content):
    """Files below `root` as a saved data set would look like, plus names that must not be resolved."""
    files = []
    sfx = rng.choice(ext_pool)
    for i in rng.sample(range(0, 12), rng.randint(0, 4)):
        files.append((f'{root}/part-{i:05d}{sfx}', gen_content(rng)))
    for extra in rng.sample(['_SUCCESS', 'part', 'partX' + rng.choice(ext_pool), 'other.txt', 'sub/part-00000', 'apart-1',
                             'part-a/inner', '.part-00000.crc', 'Part-00001'], rng.randint(0, 4)):
        files.append((f'{root}/{extra}', b'' if extra == '_SUCCESS' else gen_content(rng)))
    rng.shuffle(files)
    return files


def read_cases(rng, tier):
    cases = []
    n = 150 if tier == 'quick' else 1500
    pool = ['', '', '.gz', '.bz2', '.xz', '.lzma', '.zip', '.tar', '.tar.gz', '.tar.bz2', '.txt']
    for i in range(n):
        root = rng.choice([f'{BASE}/in', f'{BASE}/in.gz', f'{BASE}/d.d/in', 'rel', 'rel.d/in.bz2'])
        kind_ = ('read', 'whole', 'binfiles')[i % 3]
        if rng.random() < 0.3:
            name = root + rng.choice(pool)
            files = [(name, gen_text_content(rng))] + [(f'{root}2', b'x\n')]
            cases.append((kind_, files, name, rng.choice([None, 1, 2, 5]), None))
        else:
            files = gen_tree(rng, root, pool, gen_text_content)
            cases.append((kind_, files, root, rng.choice([None, 0, 1, 3, 7]), None))
    # carriage returns must survive wholeTextFiles (repaired defect b3a17ea): regression cases
    cases.append(('whole', [(f'{BASE}/w.txt', b'a\r\nb\rc\n')], f'{BASE}/w.txt', None, None))
    cases.append(('whole', [(f'{BASE}/w', 'é\r\n'.encode('utf8'))], f'{BASE}/w', 2, None))
    return cases


def gen_record(rng, length=None):
    n = rng.choice([0, 0, 1, 2, 3, 5, 8, 17, 300]) if length is None else length
    return bytes(rng.randrange(256) for _ in range(n))


def record_cases(rng, tier):
    cases = []
    n = 120 if tier == 'quick' else 1200
    pool = ['', '', '.bin', '.gz', '.bz2', '.xz', '.zip', '.tar', '.tar.gz']
    for i in range(n):
        root = rng.choice([f'{BASE}/rec', f'{BASE}/rec.d/r', 'recs'])
        single = rng.random() < 0.5
        names = [root + rng.choice(pool)] if single else \
            [f'{root}/part-{j:05d}{rng.choice(pool)}' for j in rng.sample(range(20), rng.randint(1, 3))]
        path = names[0] if single else root
        mode = i % 4
        files, meta = [], []
        if mode == 0:      # fixed length, exact framing
            L = rng.choice([1, 2, 3, 5, 16])
            for nm in names:
                recs = [gen_record(rng, L) for _ in range(rng.randint(0, 5))]
                files.append((nm, b''.join(recs)))
                meta.append((nm, recs))
            cases.append(('records', files, path, L, meta))
        elif mode == 1:    # struct length prefix, exact framing (incl. empty records)
            w = rng.choice([1, 2, 4, 8])
            be = rng.random() < 0.5
            for nm in names:
                recs = [gen_record(rng) for _ in range(rng.randint(0, 5))]
                if w == 1:
                    recs = [r[:255] for r in recs]
                fmt = ('>' if be else '<') + FMT[w]
                files.append((nm, b''.join(struct.pack(fmt, len(r)) + r for r in recs)))
                meta.append((nm, recs))
            cases.append(('records', files, path, (be, w), meta))
        elif mode == 2:    # whole files / ragged fixed length / L <= 0: correspondence only
            for nm in names:
                files.append((nm, gen_record(rng, rng.randint(0, 23))))
            cases.append(('records', files, path, rng.choice([None, None, 1, 4, 7, 100, 0, -1, -3]), None))
        else:              # truncated or overlong prefixed data: correspondence only
            w = rng.choice([1, 2, 4])
            be = rng.random() < 0.5
            for nm in names:
                data = b''
                for _ in range(rng.randint(0, 3)):
                    r = gen_record(rng, rng.randint(0, 6))
                    data += struct.pack(('>' if be else '<') + FMT[w], len(r) + rng.choice([0, 0, 0, 1, 5])) + r
                data += gen_record(rng, rng.choice([0, 0, 1, w - 1 if w > 1 else 0]))
                files.append((nm, data))
            cases.append(('records', files, path, (be, w), None))
    return cases


def codec_cases(rng, tier):
    cases = []
    ends = ['.tar', '.tar.gz', '.tar.bz2', '.gz', '.zip', '.bz2', '.lzma', '.xz', '.7z', '.txt', '.GZ', '.gzip', '.tgz', '',
            '.', '.gz.bak', '.tar.xz', '.tar.zip', '.bz', 'gz', 'tar.gz', '.tar.tar', '.gz.gz', '.xz.tar.gz']
    dirs = ['', '/', 'a/', '/a/b/', 'a.b/', '/x.gz/', '/x.tar.gz/', './', '../', '/verif/.work/q/', 'a.tar/b.gz/']
    stems = ['', 'f', 'file', 'part-00000', '_SUCCESS', '.hidden', 'a.b', 'x.tar', 'ö']
    for d in dirs:
        for st in stems:
            for e in ends:
                cases.append(('codec', d + st + e))
    if tier == 'quick':
        cases = rng.sample(cases, 700)
    for _ in range(300 if tier == 'quick' else 5000):
        n = rng.randint(0, 4)
        cases.append(('codec', ''.join(rng.choice(['.', '/', 'a', 'gz', 'tar', '.gz', '.tar', '.bz2', '.xz', '.zip', '.lzma',
                                                   '.tar.gz', 'x', '.7z']) for _ in range(n + 1))))
    return cases


def generate(rng, tier):
    cases = []
    corpus = os.path.join(VERIF, 'corpus', ID)
    if os.path.isdir(corpus):
        import json
        from common.coqlit import uncanon
        for fn in sorted(os.listdir(corpus)):
            if fn.endswith('.json'):
                cases.append(uncanon(json.load(open(os.path.join(corpus, fn)))['case']))
    cases += save_cases(rng, tier)
    cases += special_cases(rng, tier)
    cases += edge_shape_cases(rng, tier)
    cases += concurrency_cases(rng, tier)
    cases += struct_format_cases(rng, tier)
    # a handful of data files just over io.DEFAULT_BUFFER_SIZE with a wide character across byte 8192
    for j, ch in enumerate(WIDE):
        for ext in (('', '.gz') if tier == 'quick' else ('', '.gz', '.zip', '.tar.bz2', '.txt')):
            off = 8192 - 1 - j % 2
            cases.append(('text' if j % 2 else 'textwhole', [], f'{BASE}/b8k{ext}',
                          [[wide_line(ch, off, 8200)]] if j != 1 else [['x'], [wide_line(ch, off, 8200), 'y']], None))
    cases += read_cases(rng, tier)
    cases += record_cases(rng, tier)
    cases += codec_cases(rng, tier)
    return cases


def shrink_candidates(case):
    k = case[0]
    if k in ('text', 'pickle', 'textwhole', 'ctext', 'cpickle'):
        files, path, parts, minp = case[1:5]

        def mk(ps, mp=minp, fl=files):
            if k in ('text', 'textwhole'):
                return (k, fl, path, ps, mp)
            if k == 'ctext':
                return (k, fl, path, ps, mp, case[-1])
            if k == 'cpickle':
                return (k, fl, path, ps, mp, pickle_table(ps), case[-1])
            return (k, fl, path, ps, mp, pickle_table(ps))
        if files:
            yield mk(parts, fl=[])
        if minp is not None:
            yield mk(parts, None)
        for i in range(len(parts)):
            if len(parts) > 1:
                yield mk(parts[:i] + parts[i + 1:])
            for j in range(len(parts[i])):
                yield mk(parts[:i] + [parts[i][:j] + parts[i][j + 1:]] + parts[i + 1:])
                x = parts[i][j]
                if isinstance(x, str) and len(x) > 1:
                    yield mk(parts[:i] + [parts[i][:j] + [x[:len(x) // 2]] + parts[i][j + 1:]] + parts[i + 1:])
    elif k in ('read', 'whole', 'binfiles', 'records'):
        files, path, a, meta = case[1:5]
        for i in range(len(files)):
            if files[i][0] != path:
                m = None if meta is None else [t for t in meta if t[0] != files[i][0]]
                yield (k, files[:i] + files[i + 1:], path, a, m)
        if meta is None:
            for i, (n, c) in enumerate(files):
                for piece in (c[:len(c) // 2], c[len(c) // 2:], c[1:], c[:-1]):
                    if len(piece) < len(c):
                        yield (k, files[:i] + [(n, piece)] + files[i + 1:], path, a, None)
        if k == 'records' and meta is not None:
            def framed(recs):
                if isinstance(a, int):
                    return b''.join(recs)
                return b''.join(struct.pack(_reclen(a), len(r)) + r for r in recs)
            for i, (nm, recs) in enumerate(meta):
                for j in range(len(recs)):
                    cands = [recs[:j] + recs[j + 1:]]
                    if not isinstance(a, int) and len(recs[j]) > 1:
                        cands.append(recs[:j] + [recs[j][:len(recs[j]) // 2]] + recs[j + 1:])
                    for new in cands:
                        m = meta[:i] + [(nm, new)] + meta[i + 1:]
                        yield (k, [(n, framed(new)) if n == nm else (n, c) for n, c in files], path, a, m)


def extra_checks(rng, tier, workdir):
    """Oracle-only: large multi-partition saves on thread pools WITHOUT instrumentation (natural overlap of the
    writes; a barrier in an upstream mapPartitions makes the tasks start together).  Too large for the
    correspondence (the model would only repeat the sequential result)."""
    # large data files (oracle only: too large for the model's literals) -- round trip through every codec
    for case in big_file_cases(rng, tier, 140 if tier == 'quick' else None):
        r = impl(case)
        o = oracle(case, r)
        if o is not None:
            small = case[:3] + ([[x[:30] + '...' if len(x) > 60 else x for x in p] for p in case[3]],) + case[4:]
            yield (o[0] + ':big-file', f'{case[0]} to {case[2]!r}: a data file larger than 8192 bytes with multi-byte '
                   f'characters around multiples of 8192 (abbreviated: {small!r})', o[1][:600], case)
            break
    # records of the largest lengths a two-byte field can hold, and beyond (oracle only)
    for fmt in STRUCT_FORMATS:
        be, w, _ = fmt_descr(fmt)
        top = (1 << (8 * w - (1 if fmt[-1].islower() else 0))) - 1
        lens = [n for n in (255, 256, 32767, 32768, 65535, 65536, 70000) if n <= top][-3:] + [0]
        recs = [gen_record(rng, n) for n in lens]
        name = f'{BASE}/bigrec'
        case = ('records', [(name, b''.join(struct.pack(fmt, len(r)) + r for r in recs))], name, fmt_descr(fmt), [(name, recs)])
        r = impl(case)
        o = oracle(case, r)
        if o is not None:
            yield (o[0] + ':large-records', f'binaryRecords(recordLength={fmt!r}) with records of lengths {lens}', o[1][:300], case)
            break
    trials = 1 if tier == 'quick' else 4
    lines = 1500 if tier == 'quick' else 4000
    for ext in ('', '.gz'):
        for size in ((8,) if tier == 'quick' else (2, 4, 8)):
            for retries in (None, 1):
                for t in range(trials):
                    n_parts = 8
                    parts = [[f'partition {p:02d} line {i:06d} ' + 'x' * (40 + p) for i in range(lines + 17 * p)]
                             for p in range(n_parts)]
                    case = ('ctext', [], f'{BASE}/big{t}{ext}', parts, None, (size, retries, False, True))
                    r = impl(case)
                    o = oracle(case, r)
                    if o is not None:
                        yield (o[0] + ':large', f'8 partitions x ~{lines} lines on a pool of {size}, max_retries={retries}, '
                               f'ext={ext!r}', o[1][:400], None)
                        return
