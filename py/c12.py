"""C12 -- DataFrame projection, filter, sort, limit and union match SQL semantics.

case = (table1, table2, ops, conv)
  conv  = seed of the public calling conventions the harness uses (0 = canonical): names vs F.col vs df['a'] vs df.a,
          lit(1) vs a raw 1 on either side of an operator, filter / where / df[cond], sort / orderBy, keys as varargs or
          one list, F.desc('a') vs col.desc(), union / unionAll, dropDuplicates / drop_duplicates ...  The model ignores it.
  table = (names, types, partitions)     types: 'i' int, 'd' double, 's' string, 'b' boolean
                                         partitions: list of lists of row tuples (cells None/int/float/str/bool)
  ops   = list of operator tuples (integer tag first), expressions are tuples (integer tag first)
The implementation side builds both DataFrames with exactly the given partitions, applies the chain and
collects the DataFrame after EVERY step; result = [(columns, rows) after 0, 1, ... steps].  Rows of a step
whose order the implementation leaves unspecified (anything downstream of distinct / dropDuplicates) are
listed in a fixed total order (both here and in Run/C12_run.v).
"""
import functools
import math

from common.coqlit import Err

ID = 'C12'
KERNELS = ['Gen/SqlTables.v: internal_type_order', 'Gen/SqlTables.v: sort_orders (so_* strings, Asc/Desc aliases)',
           'Gen/SqlTables.v: so_default', 'Gen/SqlTables.v: sort_ascending_list, sort_nulls_smaller_list',
           'Gen/SqlTables.v: sort_key_flag']
SHARD = 100

RULE = ('random tier: two typed nullable tables (2-4 columns of int/double/string/boolean, 0-6 rows, ~25% nulls, small '
        'value domains so that ties and duplicates are frequent) cut into 1-4 arbitrary partitions (empty ones included), '
        'a chain of 1-3 operators out of select / filter / withColumn (new and replacing) / drop / withColumnRenamed / toDF / '
        'union / unionByName (second table projected to the current schema) / distinct / dropDuplicates / orderBy '
        '(1-3 keys, every SortOrder wrapper, expression keys, `ascending` absent / scalar / list of flags) / limit, each '
        'called through a randomly drawn public calling convention (names vs F.col vs df[..] vs df.attr, raw Python '
        'literals on either side of operators, filter/where/df[cond], sort/orderBy with varargs or a list, functions vs '
        'Column methods, unionAll, drop_duplicates), with well-typed expression trees of depth <= 3 over '
        'arithmetic (+ - * / unary minus, % on non-negative operands), comparison (= != < <= > >= incl. int-vs-double), '
        'AND OR NOT, isNull / isNotNull, between, coalesce, when/otherwise, alias, lit; exhaustive tier: every binary and '
        'unary operator over all pairs from a 9-value domain per type (3-value for boolean) incl. null, 0, -0.0, negative and '
        'fractional values, for the type pairs int-int, int-double, double-int, double-double, string-string, bool-bool; '
        'reuse sweep: the same Column / expression object in two steps around every kind of step that moves columns, and in both '
        'operands of a union; union sweep: every order of the same names, overlapping and unrelated names on the right-hand '
        'side of union / unionByName; about a third of all cases re-use Column objects (one per name, shared sub-expressions); '
        'sort-convention sweep: every wrapper (or none) per key x every form of `ascending` for one key, a sample (quick) / '
        'all (thorough) of the 49 wrapper pairs x 7 forms for two keys; dynamic tier (correspondence only): the modelled ill-typed behaviour of the class dispatch (bool as int, casts to '
        'bool in comparisons, truthiness of non-booleans, str + str); '
        'non-trivial = the chain is non-empty and some step has rows; distinct by canonical JSON of the case')
ASSUMPTIONS = [
    'Python ints stay below 2^53 in absolute value (int -> float conversion is exact; the model uses float_of_Z)',
    'no NaN / infinity arises (generated doubles are small; x / 0 is NULL), so float ordering is total',
    'expressions are well typed (no string arithmetic, no comparison between a string/boolean and a number); % only on a '
    'non-negative dividend and a positive divisor (Python % follows the divisor\'s sign, SQL the dividend\'s; x % 0 raises)',
    'a column name occurs once per schema; select items are column references or aliased expressions (the printed form of '
    'an expression as column name is not modelled); union operands have the same column types',
    'after distinct / dropDuplicates the row order is unspecified: such results are compared as multisets and no limit / '
    'dropDuplicates(subset) follows them, nor a second distinct / dropDuplicates when a -0.0 is present (which of two '
    'equal rows 0.0 / -0.0 survives would depend on the unspecified order)',
    'sorted(key=..., reverse=True) is a stable descending sort (Python documentation)',
]
TRUSTED = ['translator/kernels/c12.py (constant tables INTERNAL_TYPE_ORDER, sort_order strings, sort membership lists)',
           'PrimFloat as IEEE-754 binary64 (bit-identical to CPython floats)']

# ---------- expression and operator tags (shared with coq/Run/C12_run.v)
COL, LIT, NEG, ARITH, CMP, AND, OR, NOT, ISNULL, ISNOTNULL, COALESCE, CASE, ALIAS, BETWEEN, NE = range(15)
ADD, SUB, MUL, DIV, MOD = range(5)
EQ, LT, LE, GT, GE = range(5)
SELECT, FILTER, WITHCOL, DROP, RENAME, TODF, UNION, UNIONBYNAME, DISTINCT, DROPDUP, SORT, LIMIT = range(12)
OPNAMES = ['select', 'filter', 'withColumn', 'drop', 'rename', 'toDF', 'union', 'unionByName', 'distinct',
           'dropDuplicates', 'sort', 'limit']
PLAIN, ASC, ASC_NF, ASC_NL, DESC, DESC_NF, DESC_NL = range(7)
# direction code -> (ascending, nulls_first) as SQL defines them
DIRSPEC = {PLAIN: (True, True), ASC: (True, True), ASC_NF: (True, True), ASC_NL: (True, False),
           DESC: (False, False), DESC_NF: (False, True), DESC_NL: (False, False)}


class OutOfScope(Exception):
    pass


# ====================================================================== implementation side
_ctx = {}


def _session():
    if 'spark' not in _ctx:
        from pysparkling import Context
        from pysparkling.sql.session import SparkSession
        _ctx['sc'] = Context()
        _ctx['spark'] = SparkSession(_ctx['sc'])
    return _ctx['sc'], _ctx['spark']


class Conv:
    """Which of the equivalent public calling conventions the harness uses at each choice point.
    seed 0 = the canonical ones (fresh F.col / F.lit objects, Column arguments, orderBy(*keys)); any other seed
    draws every choice from random.Random(seed), so a case (which carries the seed) is replayed identically.
    Seeds divisible by 3 additionally switch on OBJECT REUSE: one Column object per column name for the whole
    case (both tables of a union included) and, with probability 0.7, the object built earlier for an identical
    sub-expression -- the way user code keeps `c = col('b')` or `cond = c > 1` in a variable and uses it in
    several steps.  Expressions are values: reuse must not change any result."""

    def __init__(self, seed):
        import random
        self.rnd = random.Random(seed) if seed else None
        self.reuse = bool(seed) and seed % 3 == 0
        self.cache = {}
        self.reused = 0

    def coin(self, p=0.5):
        return self.rnd is not None and self.rnd.random() < p

    def pick(self, n):
        return self.rnd.randrange(n) if self.rnd is not None else 0


def _colref(name, cx, df):
    """F.col('a') | df['a'] | df.a   (the last two are bound to the frame the operator is applied to);
    in reuse mode: THE Column object of that name"""
    from pysparkling.sql import functions as F
    if cx.reuse:
        key = ('col', name)
        if key not in cx.cache:
            cx.cache[key] = F.col(name)
        else:
            cx.reused += 1
        return cx.cache[key]
    k = cx.pick(3) if df is not None else 0
    if k == 1:
        return df[name]
    if k == 2 and not hasattr(type(df), name):
        return getattr(df, name)
    return F.col(name)


def _raw_ok(e, strings=True):
    return e[0] == LIT and (strings or not isinstance(e[1], str))


def _pair(a, b, cx, df):
    """operands of a binary operator: at most one of them as a plain Python value (col + 1, 1 + col)"""
    if _raw_ok(b) and b[0] == LIT and a[0] != LIT and cx.coin(0.4):
        return _col(a, cx, df), b[1]
    if _raw_ok(a) and b[0] != LIT and cx.coin(0.4):
        return a[1], _col(b, cx, df)
    return _col(a, cx, df), _col(b, cx, df)


def _col(e, cx, df):
    if cx.reuse and e[0] not in (COL, LIT):
        key = repr(e)
        if key in cx.cache and cx.coin(0.7):
            cx.reused += 1
            return cx.cache[key]
        c = _col_new(e, cx, df)
        cx.cache[key] = c
        return c
    return _col_new(e, cx, df)


def _col_new(e, cx, df):
    from pysparkling.sql import functions as F
    t = e[0]
    if t == COL:
        return _colref(e[1], cx, df)
    if t == LIT:
        return F.lit(e[1])
    if t == NEG:
        return -_col(e[1], cx, df)
    if t == ARITH:
        a, b = _pair(e[2], e[3], cx, df)
        return [lambda: a + b, lambda: a - b, lambda: a * b, lambda: a / b, lambda: a % b][e[1]]()
    if t == CMP:
        a, b = _pair(e[2], e[3], cx, df)
        return [lambda: a == b, lambda: a < b, lambda: a <= b, lambda: a > b, lambda: a >= b][e[1]]()
    if t == AND:
        a, b = _pair(e[1], e[2], cx, df)
        return a & b
    if t == OR:
        a, b = _pair(e[1], e[2], cx, df)
        return a | b
    if t == NOT:
        return ~_col(e[1], cx, df)
    if t == ISNULL:
        return _col(e[1], cx, df).isNull()
    if t == ISNOTNULL:
        return _col(e[1], cx, df).isNotNull()
    if t == COALESCE:
        # a column argument may be given by name
        return F.coalesce(*[x[1] if x[0] == COL and cx.coin(0.3) else _col(x, cx, df) for x in e[1]])
    if t == CASE:
        def val(v):      # when(cond, 1): non-string literals may be given raw (a raw string would name a column)
            return v[1] if _raw_ok(v, strings=False) and cx.coin(0.4) else _col(v, cx, df)
        (c0, v0), rest = e[1][0], e[1][1:]
        w = F.when(_col(c0, cx, df), val(v0))
        for c, v in rest:
            w = w.when(_col(c, cx, df), val(v))
        return w if e[2] is None else w.otherwise(val(e[2]))
    if t == ALIAS:
        c = _col(e[1], cx, df)
        return c.name(e[2]) if cx.coin(0.3) else c.alias(e[2])
    if t == BETWEEN:
        lo = e[2][1] if _raw_ok(e[2]) and cx.coin(0.4) else _col(e[2], cx, df)
        hi = e[3][1] if _raw_ok(e[3]) and cx.coin(0.4) else _col(e[3], cx, df)
        return _col(e[1], cx, df).between(lo, hi)
    if t == NE:
        a, b = _pair(e[1], e[2], cx, df)
        return a != b
    raise ValueError(f'bad expression tag {t}')


_WRAP_METHOD = [None, 'asc', 'asc_nulls_first', 'asc_nulls_last', 'desc', 'desc_nulls_first', 'desc_nulls_last']


def _sort_key(k, cx, df):
    """a sort key: plain name / Column, or wrapped by the Column method or the function of the same name"""
    from pysparkling.sql import functions as F
    e, d = k
    if cx.reuse and d != PLAIN:
        key = 'sortkey' + repr(k)
        if key not in cx.cache or not cx.coin(0.7):
            cx.cache[key] = getattr(_col(e, cx, df), _WRAP_METHOD[d])()
        return cx.cache[key]
    if d == PLAIN:
        return e[1] if e[0] == COL and cx.coin() else _col(e, cx, df)
    if e[0] == COL and cx.coin(0.3):
        return getattr(F, _WRAP_METHOD[d])(e[1])            # F.desc('a')
    return getattr(_col(e, cx, df), _WRAP_METHOD[d])()


def _make_df(table):
    from pysparkling.sql import types as T
    sc, spark = _session()
    names, types, parts = table
    tmap = {'i': T.LongType, 'd': T.DoubleType, 's': T.StringType, 'b': T.BooleanType}
    schema = T.StructType([T.StructField(n, tmap[t.lower()](), True) for n, t in zip(names, types)])
    k = len(parts)
    # exactly the given partitions (empty ones included), through the public API only
    rdd = sc.parallelize(range(k), k).mapPartitionsWithIndex(lambda i, it: iter(list(parts[i])))
    df = spark.createDataFrame(rdd, schema)
    got = [[tuple(r) for r in p] for p in df.rdd.glom().collect()]
    if got != [list(p) for p in parts]:
        raise RuntimeError(f'harness: could not build the requested partitioning: {got!r} != {parts!r}')
    return df


def _apply(op, df, t2, cx):
    t = op[0]
    if t == SELECT:
        # a plain column may be selected by name
        return df.select(*[e[1] if e[0] == COL and cx.coin() else _col(e, cx, df) for e in op[1]])
    if t == FILTER:
        c = op[1]
        if c[0] == COL and cx.coin(0.3):
            return df.filter(c[1]) if cx.coin() else df.where(c[1])       # a boolean column by name
        cond = _col(c, cx, df)
        k = cx.pick(3)
        return df.filter(cond) if k == 0 else df.where(cond) if k == 1 else df[cond]
    if t == WITHCOL:
        return df.withColumn(op[1], _col(op[2], cx, df))
    if t == DROP:
        if len(op[1]) == 1 and cx.coin():
            return df.drop(_colref(op[1][0], cx, df))
        return df.drop(*op[1])
    if t == RENAME:
        return df.withColumnRenamed(op[1], op[2])
    if t == TODF:
        return df.toDF(*op[1])
    if t in (UNION, UNIONBYNAME):
        other = _make_df(t2)
        for o in op[1]:
            other = _apply(o, other, None, cx)
        if t == UNION:
            return df.unionAll(other) if cx.coin() else df.union(other)
        return df.unionByName(other)
    if t == DISTINCT:
        return df.distinct()
    if t == DROPDUP:
        f = df.drop_duplicates if cx.coin() else df.dropDuplicates
        if not op[1]:
            return f() if cx.pick(3) == 0 else f(None) if cx.coin() else f(subset=[])
        return f(subset=list(op[1])) if cx.coin() else f(list(op[1]))
    if t == SORT:
        keys = [_sort_key(k, cx, df) for k in op[1]]
        kwargs = {} if op[2] is None else {'ascending': op[2]}
        f = df.sort if cx.coin() else df.orderBy
        return f(keys, **kwargs) if cx.coin(0.3) else f(*keys, **kwargs)
    if t == LIMIT:
        return df.limit(op[1])
    raise ValueError(f'bad operator tag {t}')


def _cell_key(v):
    if v is None:
        return (0,)
    if isinstance(v, bool):
        return (1, v)
    if isinstance(v, int):
        return (2, v)
    if isinstance(v, float):
        return (3, v, math.copysign(1.0, v))
    return (4, v)


def _row_key(r):
    return tuple(_cell_key(v) for v in r)


def op_unordered(op):
    return op[0] in (DISTINCT, DROPDUP) or (op[0] in (UNION, UNIONBYNAME) and any(op_unordered(o) for o in op[1]))


def unordered_flags(ops):
    """flag[i] = the row order after i steps is unspecified"""
    flags, f = [False], False
    for o in ops:
        f = f or op_unordered(o)
        flags.append(f)
    return flags


def _observe(df, unordered):
    rows = [tuple(r) for r in df.collect()]
    if unordered:
        rows.sort(key=_row_key)
    return (list(df.columns), rows)


def run_impl(case, final_only=False):
    t1, t2, ops, conv = case
    cx = Conv(conv)
    df = _make_df(t1)
    flags = unordered_flags(ops)
    out = [] if final_only else [_observe(df, False)]
    for i, op in enumerate(ops):
        df = _apply(op, df, t2, cx)
        if not final_only:
            out.append(_observe(df, flags[i + 1]))
    if final_only:
        return _observe(df, flags[-1])
    return out


def impl(case):
    try:
        return run_impl(case)
    except Exception as e:  # pylint: disable=broad-except
        return Err(type(e).__name__)


# ====================================================================== the reference SQL interpreter (oracle)
def r_eval(e, names, row):
    """SQL semantics of an expression on one row: three-valued logic, null propagation, numeric promotion,
    x / 0 = NULL.  NULL is None, TRUE/FALSE are Python bools."""
    t = e[0]
    if t == COL:
        return row[names.index(e[1])]
    if t == LIT:
        return e[1]
    if t == ALIAS:
        return r_eval(e[1], names, row)
    if t == NEG:
        v = r_eval(e[1], names, row)
        return None if v is None else -v
    if t == ARITH:
        a, b = r_eval(e[2], names, row), r_eval(e[3], names, row)
        if a is None or b is None:
            return None
        op = e[1]
        if op == DIV:
            return None if b == 0 else float(a) / float(b)
        if op == MOD:
            if isinstance(a, float) or isinstance(b, float) or a < 0 or b <= 0:
                raise OutOfScope('% outside the non-negative integers')
            return a - b * (a // b)
        if isinstance(a, float) or isinstance(b, float):
            a, b = float(a), float(b)
        return a + b if op == ADD else a - b if op == SUB else a * b
    if t == CMP:
        return _r_cmp(e[1], r_eval(e[2], names, row), r_eval(e[3], names, row))
    if t == NE:
        v = _r_cmp(EQ, r_eval(e[1], names, row), r_eval(e[2], names, row))
        return None if v is None else not v
    if t == BETWEEN:
        a = r_eval(e[1], names, row)
        return _r_and(_r_cmp(GE, a, r_eval(e[2], names, row)), _r_cmp(LE, a, r_eval(e[3], names, row)))
    if t == AND:
        return _r_and(r_eval(e[1], names, row), r_eval(e[2], names, row))
    if t == OR:
        a, b = r_eval(e[1], names, row), r_eval(e[2], names, row)
        if a is True or b is True:
            return True
        if a is False and b is False:
            return False
        return None
    if t == NOT:
        v = r_eval(e[1], names, row)
        return None if v is None else not v
    if t == ISNULL:
        return r_eval(e[1], names, row) is None
    if t == ISNOTNULL:
        return r_eval(e[1], names, row) is not None
    if t == COALESCE:
        for x in e[1]:
            v = r_eval(x, names, row)
            if v is not None:
                return v
        return None
    if t == CASE:
        for c, v in e[1]:
            if r_eval(c, names, row) is True:
                return r_eval(v, names, row)
        return None if e[2] is None else r_eval(e[2], names, row)
    raise ValueError(f'bad expression tag {t}')


def _r_and(a, b):
    if a is False or b is False:
        return False
    if a is True and b is True:
        return True
    return None


def _r_cmp(op, a, b):
    if a is None or b is None:
        return None
    if isinstance(a, (int, float)) and isinstance(b, (int, float)) and not isinstance(a, bool) and not isinstance(b, bool):
        if isinstance(a, float) or isinstance(b, float):
            a, b = float(a), float(b)
    elif type(a) is not type(b):
        raise OutOfScope('comparison between different non-numeric types')
    return [a == b, a < b, a <= b, a > b, a >= b][op]


def _same_cell(x, y):
    """SQL equality of two cells for set operations (NULL equals NULL, -0.0 equals 0.0)"""
    if x is None or y is None:
        return x is None and y is None
    return type(x) is type(y) and x == y


def _same_row(a, b):
    return len(a) == len(b) and all(_same_cell(x, y) for x, y in zip(a, b))


def _norm_cell(v):
    return 0.0 if isinstance(v, float) and v == 0 else v


def _norm_key(r):
    return _row_key(tuple(_norm_cell(v) for v in r))


def _exact_row(a, b):
    """identical cells: same type, same value, same sign of zero"""
    return len(a) == len(b) and all(_cell_key(x) == _cell_key(y) for x, y in zip(a, b))


def _key_cmp(spec, x, y):
    """three-way comparison of two key values under (ascending, nulls_first)"""
    asc, nf = spec
    if x is None or y is None:
        if x is None and y is None:
            return 0
        first = -1 if nf else 1
        return first if x is None else -first
    c = -1 if x < y else 1 if x > y else 0
    return c if asc else -c


def sort_specs(op):
    """(ascending, nulls_first) per key from the documented meaning of sort(*cols, ascending=...): a key keeps
    the ordering it was given (default ascending, nulls first) unless `ascending` -- one flag for all keys or
    one per key -- is false for it, which means descending (nulls last, as Column.desc())"""
    keys, asc = op[1], op[2]
    own = [DIRSPEC[k[1]] for k in keys]
    if asc is None:
        return own
    if isinstance(asc, list):
        if len(asc) != len(keys):
            raise OutOfScope('the length of the ascending list must equal the number of keys')
        return [o if a else (False, False) for o, a in zip(own, asc)]
    return own if asc else [(False, False)] * len(keys)


def r_step(op, names, rows, t2):
    """reference result of one operator: (names, rows, mode); mode 'list' = this exact sequence,
    'bag' = these rows in any order, 'dedup' = see check_dropdup"""
    t = op[0]
    if t == SELECT:
        out_names = [e[1] if e[0] == COL else e[2] for e in op[1]]
        return out_names, [tuple(r_eval(e, names, r) for e in op[1]) for r in rows], 'list'
    if t == FILTER:
        return names, [r for r in rows if r_eval(op[1], names, r) is True], 'list'
    if t == WITHCOL:
        n, e = op[1], op[2]
        if n in names:
            i = names.index(n)
            return names, [r[:i] + (r_eval(e, names, r),) + r[i + 1:] for r in rows], 'list'
        return names + [n], [r + (r_eval(e, names, r),) for r in rows], 'list'
    if t == DROP:
        keep = [i for i, n in enumerate(names) if n not in op[1]]
        return [names[i] for i in keep], [tuple(r[i] for i in keep) for r in rows], 'list'
    if t == RENAME:
        return [op[2] if n == op[1] else n for n in names], rows, 'list'
    if t == TODF:
        return list(op[1]), rows, 'list'
    if t in (UNION, UNIONBYNAME):
        n2, ty2, parts2 = t2
        onames, orows = list(n2), [r for p in parts2 for r in p]
        bag = False
        for o in op[1]:
            onames, orows, m = r_step(o, onames, orows, None)
            bag = bag or m != 'list'
        if len(onames) != len(names):
            raise OutOfScope('union of different widths')
        if t == UNIONBYNAME:
            orows = [tuple(r[onames.index(n)] for n in names) for r in orows]
        return names, rows + orows, 'bag' if bag else 'list'
    if t == DISTINCT or (t == DROPDUP and not op[1]):
        out = []
        for r in rows:
            if not any(_same_row(r, q) for q in out):
                out.append(r)
        return names, out, 'bag'
    if t == DROPDUP:
        return names, rows, 'dedup'
    if t == SORT:
        keys = [[r_eval(k[0], names, r) for k in op[1]] for r in rows]
        specs = sort_specs(op)

        def cmp(i, j):
            for s, x, y in zip(specs, keys[i], keys[j]):
                c = _key_cmp(s, x, y)
                if c:
                    return c
            return 0
        order = sorted(range(len(rows)), key=functools.cmp_to_key(cmp))   # stable: ties keep input order
        return names, [rows[i] for i in order], 'list'
    if t == LIMIT:
        return names, rows[:op[1]], 'list'
    raise ValueError(f'bad operator tag {t}')


def check_dropdup(op, names, before, after):
    """dropDuplicates(subset): one row per key, every kept row is an input row, every key is kept"""
    idx = [names.index(n) for n in op[1]]

    def key(r):
        return tuple(r[i] for i in idx)
    for i, r in enumerate(after):
        if not any(_exact_row(r, q) for q in before):
            return f'row {r!r} is not a row of the input'
        if any(_same_row(key(r), key(q)) for q in after[:i]):
            return f'two rows kept for key {key(r)!r}'
    for q in before:
        if not any(_same_row(key(q), key(r)) for r in after):
            return f'no row kept for key {key(q)!r}'
    # sub-multiset
    pool = list(before)
    for r in after:
        for j, q in enumerate(pool):
            if _exact_row(r, q):
                del pool[j]
                break
        else:
            return f'row {r!r} kept more often than it occurs'
    return None


def oracle(case, result):
    """C12 evaluated on the implementation alone: every step of the chain must return what the reference
    SQL interpreter returns when it is applied to the implementation's own previous frame, and the final
    frame must not depend on the partitioning."""
    t1, t2, ops, conv = case
    if t1[1] != t1[1].lower():
        return None       # ill-typed probe (upper-case type letters): outside the property, correspondence only
    if isinstance(result, Err):
        return (f'chain:{_kindname(ops)}:raises', f'the chain raised {result.name}')
    steps = result            # the frames the implementation returned after 0, 1, ... steps
    flags = unordered_flags(ops)
    names0 = list(t1[0])
    rows0 = [r for p in t1[2] for r in p]
    if steps[0][0] != names0 or not _rows_match(steps[0][1], rows0, 'list'):
        return ('createDataFrame:collect', f'collect() of the input frame gave {steps[0]!r}')
    for i, op in enumerate(ops):
        pn, pr = steps[i]
        cn, cr = steps[i + 1]
        try:
            en, er, mode = r_step(op, list(pn), list(pr), t2)
        except OutOfScope:
            return None
        site = OPNAMES[op[0]]
        if cn != en:
            return (f'{site}:columns', f'step {i} {site}: columns {cn!r}, expected {en!r}')
        if mode == 'dedup':
            msg = check_dropdup(op, pn, pr, cr)
            if msg:
                return (f'{site}:one-row-per-key', f'step {i} {site}{op[1]!r}: {msg}; input {pr!r} output {cr!r}')
            continue
        if flags[i + 1] or mode == 'bag':
            mode = 'bag'
        if not _rows_match(cr, er, mode):
            what = _what(op)
            return (f'{site}:{what}', f'step {i} {site} ({mode}): got {cr!r}, SQL gives {er!r}; input {pr!r}; op {op!r}')
    # partition independence: the same chain on the same rows in ONE partition per table
    one = ((t1[0], t1[1], [[r for p in t1[2] for r in p]]), (t2[0], t2[1], [[r for p in t2[2] for r in p]]), ops, conv)
    if len(t1[2]) > 1 or len(t2[2]) > 1:
        try:
            f1 = run_impl(one, final_only=True)
        except Exception as e:  # pylint: disable=broad-except
            return ('partitioning:raises', f'the chain raised {type(e).__name__} on one partition')
        fn = steps[-1]
        has_dd = any(o[0] == DROPDUP and o[1] for o in ops)
        if f1[0] != fn[0] or not _rows_match(fn[1], f1[1], 'bag' if flags[-1] else 'list'):
            if not has_dd:
                return ('partitioning:result-differs', f'{len(t1[2])} partitions: {fn!r}; one partition: {f1!r}')
    return None


def _what(op):
    t = op[0]
    if t == FILTER:
        return 'rows-kept'
    if t == SORT:
        return 'order'
    if t in (SELECT, WITHCOL):
        return 'values'
    return 'rows'


def _rows_match(got, want, mode):
    if len(got) != len(want):
        return False
    if mode == 'list':
        return all(_exact_row(a, b) for a, b in zip(got, want))
    g = sorted(got, key=_norm_key)
    w = sorted(want, key=_norm_key)
    return all(_same_row(a, b) for a, b in zip(g, w))


def _kindname(ops):
    return '+'.join(OPNAMES[o[0]] for o in ops) or 'none'


def kind(case):
    return _kindname(case[2])


def nontrivial(case, result):
    return bool(case[2]) and not isinstance(result, Err) and any(rows for _, rows in result)


# ====================================================================== generators
INT_DOM = [0, 1, 2, 3, -1, -2, 5, 7, 10, 100, -7, 1000]
DBL_DOM = [0.0, -0.0, 1.0, 1.5, -1.5, 2.0, 2.5, 0.25, 0.1, -3.75, 10.0, 1e3, 0.3]
STR_DOM = ['', 'a', 'b', 'ab', 'A', 'aa', 'z', 'é', 'b c']
NAMES = ['a', 'b', 'c', 'x', 'y', 's', 't', 'p', 'q', 'u', 'v', 'w', 'k', 'm', 'n']


def _expr_cols(e, acc=None):
    """names of the columns an expression refers to"""
    acc = set() if acc is None else acc
    if isinstance(e, tuple) and e and e[0] == COL:
        acc.add(e[1])
    elif isinstance(e, tuple) and e and e[0] == LIT:
        pass
    elif isinstance(e, (tuple, list)):
        for x in e:
            if isinstance(x, (tuple, list)):
                _expr_cols(x, acc)
    return acc


class Gen:
    def __init__(self, rng):
        self.rng = rng
        self.pool = []          # (expression, type, {column: type}) generated earlier in the current case

    def top(self, env, ty, depth):
        """an expression for an operator argument: sometimes one used in an earlier step of the same chain
        (still well typed in the current frame) -- the harness may then hand over the very same object"""
        r = self.rng
        envd = dict(env)
        old = [e for e, t, cols in self.pool if t == ty and all(envd.get(n) == ct for n, ct in cols.items())]
        if old and r.random() < 0.35:
            return r.choice(old)
        e = self.expr(env, ty, depth)
        cols = {n: envd[n] for n in _expr_cols(e) if n in envd}
        if cols:
            self.pool.append((e, ty, cols))
        return e

    def value(self, ty, null_p=0.25, small=True):
        r = self.rng
        if r.random() < null_p:
            return None
        if ty == 'i':
            return r.choice(INT_DOM[:6] if small and r.random() < 0.7 else INT_DOM)
        if ty == 'd':
            return r.choice(DBL_DOM[:6] if small and r.random() < 0.7 else DBL_DOM)
        if ty == 's':
            return r.choice(STR_DOM[:4] if small and r.random() < 0.7 else STR_DOM)
        return r.random() < 0.5

    def table(self, types=None, max_rows=6):
        r = self.rng
        if types is None:
            types = [r.choice('idsb') for _ in range(r.randint(2, 4))]
            if r.random() < 0.6 and 'i' not in types:
                types[0] = 'i'
        names = r.sample(NAMES, len(types))
        n = r.choice([0, 1, 2, 3, 3, 4, 4, 5, 6][:max_rows + 3]) if max_rows >= 6 else r.randint(0, max_rows)
        rows = [tuple(self.value(t) for t in types) for _ in range(n)]
        # encourage duplicates and ties
        if rows and r.random() < 0.5:
            for _ in range(r.randint(1, 2)):
                src = r.choice(rows)
                dup = tuple(v if r.random() < 0.8 else self.value(t) for v, t in zip(src, types))
                rows.insert(r.randint(0, len(rows)), dup)
        k = r.randint(1, 4)
        cuts = sorted(r.randint(0, len(rows)) for _ in range(k - 1))
        parts = [rows[a:b] for a, b in zip([0] + cuts, cuts + [len(rows)])]
        return (names, ''.join(types), parts)

    # ---- typed expressions
    def leaf(self, env, ty):
        r = self.rng
        cols = [n for n, t in env if t == ty]
        if cols and r.random() < 0.7:
            return (COL, r.choice(cols))
        return (LIT, self.value(ty, null_p=0.12, small=False))

    def num_pair(self, want):
        """operand types of a binary arithmetic operator whose result type is `want`"""
        r = self.rng
        if want == 'i':
            return 'i', 'i'
        return r.choice([('d', 'd'), ('i', 'd'), ('d', 'i')])

    def expr(self, env, ty, depth):
        r = self.rng
        if depth <= 0 or r.random() < 0.15:
            return self.leaf(env, ty)
        d = depth - 1
        choices = ['coalesce', 'case', 'alias']
        if ty in 'id':
            choices += ['arith'] * 5 + ['neg']
            if ty == 'd':
                choices += ['div'] * 2
            else:
                choices += ['mod']
        if ty == 'b':
            choices += ['cmp'] * 5 + ['and'] * 2 + ['or'] * 2 + ['not'] * 2 + ['isnull', 'isnotnull', 'between', 'ne']
        c = r.choice(choices)
        if c == 'coalesce':
            return (COALESCE, [self.expr(env, ty, d) for _ in range(r.randint(1, 3))])
        if c == 'case':
            bs = [(self.expr(env, 'b', d), self.expr(env, ty, d)) for _ in range(r.randint(1, 2))]
            return (CASE, bs, self.expr(env, ty, d) if r.random() < 0.6 else None)
        if c == 'alias':
            return (ALIAS, self.expr(env, ty, d), r.choice(NAMES))
        if c == 'arith':
            t1, t2 = self.num_pair(ty)
            return (ARITH, r.choice([ADD, SUB, MUL]), self.expr(env, t1, d), self.expr(env, t2, d))
        if c == 'div':
            t1, t2 = r.choice('id'), r.choice('id')
            return (ARITH, DIV, self.expr(env, t1, d), self.expr(env, t2, d))
        if c == 'mod':
            return (ARITH, MOD, self.expr(env, 'i', d), (LIT, r.choice([1, 2, 3, 5, 7])))
        if c == 'neg':
            return (NEG, self.expr(env, ty, d))
        if c in ('cmp', 'ne', 'between'):
            t1 = r.choice('iidds' + 'b')
            t2 = r.choice('id') if t1 in 'id' else t1
            if c == 'cmp':
                return (CMP, r.choice([EQ, LT, LE, GT, GE]), self.expr(env, t1, d), self.expr(env, t2, d))
            if c == 'ne':
                return (NE, self.expr(env, t1, d), self.expr(env, t2, d))
            t3 = r.choice('id') if t1 in 'id' else t1
            return (BETWEEN, self.expr(env, t1, d), self.expr(env, t2, d), self.expr(env, t3, d))
        if c == 'and':
            return (AND, self.expr(env, 'b', d), self.expr(env, 'b', d))
        if c == 'or':
            return (OR, self.expr(env, 'b', d), self.expr(env, 'b', d))
        if c == 'not':
            return (NOT, self.expr(env, 'b', d))
        t1 = r.choice('idsb')
        return (ISNULL if c == 'isnull' else ISNOTNULL, self.expr(env, t1, d))

    def asc_arg(self, n):
        """the `ascending` argument of sort / orderBy: absent, a scalar (bool or int) or one flag per key"""
        r = self.rng
        c = r.random()
        if c < 0.4:
            return None
        if c < 0.6:
            return r.choice([True, False, False, 1, 0])
        flags = [r.choice([True, False]) for _ in range(n)]
        if r.random() < 0.2:
            flags = [int(f) for f in flags]
        if r.random() < 0.04:
            flags = flags[:-1] if r.random() < 0.5 else flags + [False]     # zip truncation (oracle: out of scope)
        return flags

    def fresh(self, env, k=1):
        used = {n for n, _ in env}
        pool = [n for n in NAMES if n not in used]
        return self.rng.sample(pool, k)

    # ---- operators; env = [(name, type)] of the current frame; returns (op, new_env) or None
    def op(self, env, t2, unordered, depth, allow_union=True):
        r = self.rng
        kinds = ['select'] * 3 + ['filter'] * 3 + ['withColumn'] * 2 + ['withColumnReplace', 'drop', 'rename', 'toDF',
                                                                         'distinct', 'dropDuplicates'] + ['sort'] * 3
        if allow_union:
            kinds += ['union', 'unionByName']
        if not unordered:
            kinds += ['limit', 'dropDuplicatesSubset']
        c = r.choice(kinds)
        if c == 'select':
            k = r.randint(1, 4)
            new = self.fresh([], k)
            items, nenv = [], []
            for n in new:
                if r.random() < 0.35 and any(m not in [x for x, _ in nenv] for m, _ in env):
                    m, t = r.choice([(m, t) for m, t in env if m not in [x for x, _ in nenv]])
                    items.append((COL, m))
                    nenv.append((m, t))
                else:
                    t = r.choice('idsb')
                    while n in [x for x, _ in nenv]:
                        n = r.choice(NAMES)
                    items.append((ALIAS, self.top(env, t, depth), n))
                    nenv.append((n, t))
            if len({n for n, _ in nenv}) != len(nenv):
                return None
            return (SELECT, items), nenv
        if c == 'filter':
            return (FILTER, self.top(env, 'b', depth)), env
        if c == 'withColumn':
            n = self.fresh(env)[0]
            t = r.choice('idsb')
            return (WITHCOL, n, self.top(env, t, depth)), env + [(n, t)]
        if c == 'withColumnReplace':
            i = r.randrange(len(env))
            t = r.choice('idsb')
            return (WITHCOL, env[i][0], self.top(env, t, depth)), env[:i] + [(env[i][0], t)] + env[i + 1:]
        if c == 'drop':
            if len(env) < 2:
                return None
            k = r.randint(1, len(env) - 1)
            ns = r.sample([n for n, _ in env], k)
            return (DROP, ns), [(n, t) for n, t in env if n not in ns]
        if c == 'rename':
            if r.random() < 0.15:
                return (RENAME, self.fresh(env)[0], self.fresh(env)[0]), env
            i = r.randrange(len(env))
            n = self.fresh(env)[0]
            return (RENAME, env[i][0], n), env[:i] + [(n, env[i][1])] + env[i + 1:]
        if c == 'toDF':
            ns = self.fresh([], len(env))
            return (TODF, ns), [(n, t) for n, (_, t) in zip(ns, env)]
        if c in ('union', 'unionByName'):
            env2 = list(zip(t2[0], t2[1]))
            if c == 'union' and [t for _, t in env] == [t for _, t in env2] and r.random() < 0.5:
                return (UNION, []), env                       # the second table as it is, whatever its names
            if c == 'unionByName' and sorted(env) == sorted(env2) and r.random() < 0.5:
                return (UNIONBYNAME, []), env
            other = []
            if r.random() < 0.3:
                other.append((FILTER, self.top(env2, 'b', min(depth, 2))))
            order = list(range(len(env)))
            names = [n for n, _ in env]
            if c == 'unionByName':
                r.shuffle(order)
                out_names = [names[i] for i in order]
            else:
                # UNION is positional: the names of the second operand do not matter -- the same names in
                # another order, partially overlapping names, or unrelated names
                mode = r.random()
                if mode < 0.3:
                    out_names = list(names)
                elif mode < 0.65:
                    out_names = list(names)
                    r.shuffle(out_names)
                elif mode < 0.85:
                    out_names = list(names)
                    r.shuffle(out_names)
                    fresh = self.fresh(env, len(names))
                    out_names = [n if r.random() < 0.5 else f for n, f in zip(out_names, fresh)]
                else:
                    out_names = self.fresh(env, len(names))
            items = []
            for i, n in zip(order, out_names):
                _, t = env[i]
                same = [m for m, tt in env2 if tt == t]
                if same and r.random() < 0.6:
                    items.append((ALIAS, (COL, r.choice(same)), n))
                else:
                    items.append((ALIAS, self.top(env2, t, min(depth, 2)), n))
            other.append((SELECT, items))
            if r.random() < 0.15:
                other.append((DISTINCT,))
            return (UNION if c == 'union' else UNIONBYNAME, other), env
        if c == 'distinct':
            return (DISTINCT,), env
        if c == 'dropDuplicates':
            return (DROPDUP, []), env
        if c == 'dropDuplicatesSubset':
            k = r.randint(1, len(env))
            return (DROPDUP, r.sample([n for n, _ in env], k)), env
        if c == 'sort':
            ks = []
            for _ in range(r.choice([1, 1, 2, 2, 3])):
                if r.random() < 0.7:
                    e = (COL, r.choice(env)[0])
                else:
                    e = self.top(env, r.choice('idsb'), min(depth, 2))
                ks.append((e, r.randrange(7)))
            return (SORT, ks, self.asc_arg(len(ks))), env
        if c == 'limit':
            return (LIMIT, r.choice([0, 1, 2, 3, 5, 50])), env
        return None

    def case(self, max_ops=3, depth=3):
        r = self.rng
        self.pool = []
        t1 = self.table()
        t2 = self.table(types=list(t1[1])) if r.random() < 0.5 else self.table()
        if t2[1] == t1[1] and r.random() < 0.5:
            # the second table declares the SAME column names in another order (types stay positional)
            names2 = list(t1[0])
            r.shuffle(names2)
            t2 = (names2, t2[1], t2[2])
        env = list(zip(t1[0], t1[1]))
        ops, unordered = [], False
        n_ops = r.choice([1, 2, 2, 3, 3, 3][:max_ops * 2])
        tries = 0
        while len(ops) < n_ops and tries < 20:
            tries += 1
            got = self.op(env, t2, unordered, r.choice([1, 2, 2, 3][:depth + 1]) if depth < 3 else r.choice([1, 2, 2, 3, 3]))
            if got is None:
                continue
            o, env = got
            ops.append(o)
            unordered = unordered or op_unordered(o)
        return (t1, t2, ops, self.conv_seed())

    def conv_seed(self):
        r = self.rng
        c = r.random()
        if c < 0.2:
            return 0
        k = r.randrange(1, 1 << 28)
        return 3 * k if c < 0.55 else 3 * k + r.choice([1, 2])


def _has_negative_zero(rows):
    return any(isinstance(v, float) and v == 0 and math.copysign(1.0, v) < 0 for r in rows for v in r)


def in_scope(case):
    """the reference interpreter can evaluate the whole chain (no % on negative numbers ...)"""
    t1, t2, ops = case[:3]
    names, rows = list(t1[0]), [r for p in t1[2] for r in p]
    unordered = False
    try:
        for op in ops:
            if unordered and op[0] in (DISTINCT, DROPDUP) and _has_negative_zero(rows):
                # which of the equal rows 0.0 / -0.0 survives depends on the (unspecified) order
                return False
            unordered = unordered or op_unordered(op)
            if op[0] == SORT and isinstance(op[2], list) and len(op[2]) != len(op[1]):
                # zip() truncation in _sort_cols: kept for the correspondence only, the oracle skips the case
                n = min(len(op[1]), len(op[2]))
                if n == 0:
                    continue
                op = (SORT, op[1][:n], op[2][:n])
            names, rows, _ = r_step(op, names, rows, t2)
            if op[0] == SELECT or op[0] == WITHCOL:
                for r_ in rows:
                    for v in r_:
                        if isinstance(v, float) and (math.isnan(v) or math.isinf(v)):
                            return False
                        if isinstance(v, int) and abs(v) >= 2 ** 50:
                            return False
    except OutOfScope:
        return False
    return True


EX_DOM = {
    'i': [None, 0, 1, -1, 2, 3, -7, 10, 1000],
    'd': [None, 0.0, -0.0, 1.0, -1.5, 2.5, 0.1, 1e10, 3.0],
    's': [None, '', 'a', 'b', 'ab', 'A', 'é', 'aa', 'z'],
    'b': [None, True, False],
}


def exhaustive_cases(rng):
    """every binary / unary operator on every pair of domain values (one table row per pair)"""
    cases = []
    dummy = (['z'], 'i', [[]])
    for t1, t2 in [('i', 'i'), ('i', 'd'), ('d', 'i'), ('d', 'd'), ('s', 's'), ('b', 'b')]:
        rows = [(x, y) for x in EX_DOM[t1] for y in EX_DOM[t2]]
        p, q = (COL, 'p'), (COL, 'q')
        items = []
        if t1 in 'id':
            items += [(ALIAS, (ARITH, o, p, q), f'a{o}') for o in (ADD, SUB, MUL, DIV)]
            items += [(ALIAS, (NEG, p), 'neg')]
            items += [(ALIAS, (BETWEEN, p, q, (LIT, 2)), 'btw')]
        items += [(ALIAS, (CMP, o, p, q), f'c{o}') for o in (EQ, LT, LE, GT, GE)]
        items += [(ALIAS, (NE, p, q), 'ne'), (ALIAS, (ISNULL, p), 'isn'), (ALIAS, (ISNOTNULL, q), 'inn'),
                  (ALIAS, (COALESCE, [p, q]), 'coal')]
        if t1 == 'b':
            items += [(ALIAS, (AND, p, q), 'and'), (ALIAS, (OR, p, q), 'or'), (ALIAS, (NOT, p), 'not'),
                      (ALIAS, (NOT, (AND, p, q)), 'nand'),
                      (ALIAS, (CASE, [(p, (LIT, 1)), (q, (LIT, 2))], (LIT, 3)), 'case'),
                      (ALIAS, (CASE, [(p, (LIT, 1))], None), 'case0')]
        for k in (1, 3):
            cuts = sorted(rng.randint(0, len(rows)) for _ in range(k - 1))
            parts = [rows[a:b] for a, b in zip([0] + cuts, cuts + [len(rows)])]
            tbl = (['p', 'q'], t1 + t2, parts)
            cases.append((tbl, dummy, [(SELECT, items)], k - 1))
            if k == 1:
                # filters: the predicate itself, its negation, and the sort of the pairs in every direction
                for pred in ([(CMP, LT, p, q), (NE, p, q), (NOT, (CMP, LE, p, q))] if t1 != 'b'
                             else [(AND, p, q), (OR, p, q), (NOT, (AND, p, q)), (NOT, (OR, p, q)), p]):
                    cases.append((tbl, dummy, [(FILTER, pred)], 0))
                for d1 in range(7):
                    cases.append((tbl, dummy, [(SORT, [(p, d1), (q, (d1 * 3 + 1) % 7)], None)], d1))
    # int % on the non-negative domain
    rows = [(x, y) for x in [None, 0, 1, 2, 3, 7, 10, 1000] for y in [None, 1, 2, 3, 7]]
    cases.append(((['p', 'q'], 'ii', [rows]), dummy,
                  [(SELECT, [(ALIAS, (ARITH, MOD, (COL, 'p'), (COL, 'q')), 'm')])], 0))
    return cases


def reuse_cases():
    """the same Column / expression object in several steps of one chain while the column changes its position
    in between (drop / select / withColumn / toDF / rename before the second use), and in both operands of a
    union whose tables order their columns differently; conv seeds divisible by 3 = object reuse"""
    import itertools
    t = (['a', 'b', 'c'], 'iii', [[(1, 2, 3), (5, 0, 1)], [(None, 4, 2), (2, 2, 2), (3, None, 0)]])
    t2 = (['c', 'a', 'b'], 'iii', [[(7, 8, 9)], [(0, 1, 2), (2, None, 5)]])
    b, c_ = (COL, 'b'), (COL, 'c')
    pred = (CMP, GT, b, (LIT, 1))
    summ = (ARITH, ADD, b, c_)
    movers = [
        [(DROP, ['a'])],
        [(SELECT, [(COL, 'c'), (COL, 'b'), (COL, 'a')])],
        [(SELECT, [(ALIAS, (LIT, 0), 'z'), (COL, 'a'), (COL, 'c'), (COL, 'b')])],
        [(WITHCOL, 'a', (COL, 'c')), (DROP, ['c']), (RENAME, 'a', 'c'), (SELECT, [(COL, 'c'), (COL, 'b')])],
        [(TODF, ['b', 'c', 'a'])],
        [(RENAME, 'a', 'k'), (DROP, ['k'])],
    ]
    uses = [
        lambda: (FILTER, pred),
        lambda: (WITHCOL, 's', summ),
        lambda: (SORT, [(summ, DESC_NF), (b, ASC_NL)], [True, False]),
        lambda: (SELECT, [(ALIAS, summ, 's'), (COL, 'b'), (ALIAS, (COALESCE, [c_, b]), 'c')]),
    ]
    cases = []
    seed = 3
    for mv in movers:
        for u1, u2 in itertools.product(range(len(uses)), repeat=2):
            if u1 == 3:
                continue                      # the select use replaces the schema: only as the last step
            mv2 = [(TODF, o[1] + ['s']) if o[0] == TODF and u1 == 1 else o for o in mv]
            ops = [uses[u1]()] + mv2 + [uses[u2]()]
            for sd in (seed, 0):
                cases.append((t, t2, ops, sd))
            seed += 3
    # the same predicate / projection on both operands of a union whose tables order the columns differently
    for kind_ in (UNION, UNIONBYNAME):
        sel = [(ALIAS, (COL, 'a'), 'a'), (ALIAS, b, 'b'), (ALIAS, summ, 'c')]
        cases.append((t, t2, [(FILTER, pred), (SELECT, sel), (kind_, [(FILTER, pred), (SELECT, sel)]), (FILTER, pred)], seed))
        seed += 3
    return cases


def union_cases():
    """UNION is positional, UNION BY NAME is by name: every order of the same three names on the right-hand side,
    partially overlapping and unrelated names, produced by the declaration of the second table, by select, by toDF
    and by withColumnRenamed"""
    import itertools
    left = (['a', 'b', 'c'], 'iii', [[(1, 2, 3)], [(4, None, 6)]])
    rows2 = [[(10, 20, 30), (None, 21, 31)], [(12, 22, None)]]
    cases = []
    seed = 1
    for perm in itertools.permutations(['a', 'b', 'c']):
        right = (list(perm), 'iii', rows2)
        for kind_ in (UNION, UNIONBYNAME):
            cases.append((left, right, [(kind_, [])], 0))
            cases.append((left, right, [(kind_, [(SELECT, [(COL, n) for n in perm[::-1]])]), (SORT, [((COL, 'a'), ASC_NL)], None)], seed))
            seed += 1
        plain = (['p', 'q', 'r'], 'iii', rows2)
        cases.append((left, plain, [(UNION, [(TODF, list(perm))])], seed))
        cases.append((left, plain, [(UNION, [(RENAME, 'p', perm[0]), (RENAME, 'q', perm[1]), (RENAME, 'r', perm[2])])], seed + 1))
        cases.append((left, plain, [(UNIONBYNAME, [(TODF, list(perm))])], seed + 2))
        seed += 3
    for names in (['a', 'x', 'b'], ['c', 'b', 'y'], ['x', 'y', 'z'], ['b', 'a', 'z']):
        cases.append((left, (names, 'iii', rows2), [(UNION, []), (DISTINCT,)], seed))
        cases.append((left, left, [(UNION, [(SELECT, [(ALIAS, (COL, 'c'), names[0]), (ALIAS, (COL, 'a'), names[1]),
                                                       (ALIAS, (COL, 'b'), names[2])])])], seed + 1))
        seed += 2
    return cases


ASC_SCALARS = [None, True, False, 1, 0]


def sort_convention_cases(rng, tier):
    """every way of calling sort / orderBy: each SortOrder wrapper (or none) per key x `ascending` absent / scalar
    / list of flags, on a two-column table with nulls and ties; the convention seed varies names vs Columns vs
    F.desc('a') vs col.desc(), sort vs orderBy, keys as varargs vs one list"""
    dummy = (['z'], 'i', [[]])
    dom = [None, 1, 2, 3]
    rows = [(x, y) for x in dom for y in dom] + [(1, 2), (None, None), (3, 1)]
    p, q = (COL, 'p'), (COL, 'q')
    cases = []
    seed = 1
    for d1 in range(7):
        for asc in ASC_SCALARS + [[True], [False], [1], [0]]:
            for sd in (0, seed):
                cuts = sorted(rng.randint(0, len(rows)) for _ in range(2))
                parts = [rows[:cuts[0]], rows[cuts[0]:cuts[1]], rows[cuts[1]:]]
                cases.append(((['p', 'q'], 'ii', parts), dummy, [(SORT, [(p, d1)], asc)], sd))
                seed += 1
    pairs = [(d1, d2) for d1 in range(7) for d2 in range(7)]
    if tier == 'quick':
        pairs = rng.sample(pairs, 12)
    for d1, d2 in pairs:
        for asc in [None, False, [True, True], [True, False], [False, True], [False, False], [1, 0]]:
            cases.append(((['p', 'q'], 'ii', [rows[:9], rows[9:]]), dummy, [(SORT, [(p, d1), (q, d2)], asc)], seed))
            seed += 1
    # expression keys with flags
    for d1 in (PLAIN, DESC_NF, ASC_NL):
        for asc in ([True, False], [False, True]):
            cases.append(((['p', 'q'], 'ii', [rows]), dummy,
                          [(SORT, [((ARITH, ADD, p, q), d1), ((NEG, q), DESC)], asc)], seed))
            seed += 1
    return cases


DYN_DOM = {'i': [None, 0, 1, -1, 2], 'd': [None, 0.0, 1.0, -1.5, 2.5], 'b': [None, True, False],
           's': [None, '', 'a', 'true', '1']}


def dynamic_cases():
    """ill-typed but modelled behaviour of the class dispatch (bool is an int in arithmetic, int/float vs bool
    comparison casts to bool, AND/OR/NOT/when on non-booleans use Python truthiness, str + str concatenates):
    only the correspondence looks at these (type letters in upper case switch the oracle off)"""
    dummy = (['z'], 'i', [[]])
    p, q = (COL, 'p'), (COL, 'q')
    cases = []
    full = [('eq', (CMP, EQ, p, q)), ('lt', (CMP, LT, p, q)), ('ge', (CMP, GE, p, q)), ('add', (ARITH, ADD, p, q)),
            ('mul', (ARITH, MUL, p, q)), ('div', (ARITH, DIV, p, q)), ('and', (AND, p, q)), ('or', (OR, p, q)),
            ('not', (NOT, p)), ('neg', (NEG, p)), ('case', (CASE, [(p, (LIT, 1))], (LIT, 0)))]
    for t1, t2 in [('i', 'b'), ('b', 'i'), ('d', 'b'), ('b', 'd'), ('b', 'b'), ('s', 's'), ('i', 'i'), ('d', 'd'), ('i', 'd')]:
        rows = [(x, y) for x in DYN_DOM[t1] for y in DYN_DOM[t2]]
        items = [(ALIAS, e, n) for n, e in full if t1 != 's' or n not in ('mul', 'div', 'neg')]
        cases.append(((['p', 'q'], (t1 + t2).upper(), [rows]), dummy, [(SELECT, items)], 0))
        cases.append(((['p', 'q'], (t1 + t2).upper(), [rows[:7], rows[7:]]), dummy, [(FILTER, p), (FILTER, (OR, p, q))], 0))
    return cases


def generate(rng, tier):
    g = Gen(rng)
    heavy = exhaustive_cases(rng)
    conv = sort_convention_cases(rng, tier)
    n = 1500 if tier == 'quick' else 24000
    light = []
    guard = 0
    while len(light) < n and guard < 10 * n:
        guard += 1
        c = g.case()
        if not c[2] or not in_scope(c):
            continue
        light.append(c)
    # the exhaustive cases are large (81 rows x ~17 expressions): spread them over the shards
    cases = list(_corpus()) + dynamic_cases() + conv + reuse_cases() + union_cases()
    step = max(1, len(light) // (len(heavy) + 1))
    for i, c in enumerate(light):
        if i % step == 0 and heavy:
            cases.append(heavy.pop(0))
        cases.append(c)
    return cases + heavy


def _corpus():
    import glob
    import json
    import os
    from common.coqlit import uncanon
    root = os.path.join(os.environ.get('VERIF_ROOT', '/verif'), 'corpus', 'C12')
    for path in sorted(glob.glob(os.path.join(root, '*.json'))):
        yield _totuple(uncanon(json.load(open(path))['case']))


def _totuple(c):
    return c


def shrink_candidates(case):
    t1, t2, ops, conv = case
    if conv:
        yield (t1, t2, ops, 0)
    for i in range(len(ops)):
        yield (t1, t2, ops[:i] + ops[i + 1:], conv)
    names, types, parts = t1
    if len(parts) > 1:
        yield ((names, types, [[r for p in parts for r in p]]), t2, ops, conv)
    for pi, p in enumerate(parts):
        for ri in range(len(p)):
            yield ((names, types, parts[:pi] + [p[:ri] + p[ri + 1:]] + parts[pi + 1:]), t2, ops, conv)
    n2, ty2, parts2 = t2
    for pi, p in enumerate(parts2):
        for ri in range(len(p)):
            yield (t1, (n2, ty2, parts2[:pi] + [p[:ri] + p[ri + 1:]] + parts2[pi + 1:]), ops, conv)
    for i, op in enumerate(ops):
        if op[0] == SELECT and len(op[1]) > 1:
            for j in range(len(op[1])):
                yield (t1, t2, ops[:i] + [(SELECT, op[1][:j] + op[1][j + 1:])] + ops[i + 1:], conv)
        if op[0] == SORT and len(op[1]) > 1:
            for j in range(len(op[1])):
                asc = op[2][:j] + op[2][j + 1:] if isinstance(op[2], list) else op[2]
                yield (t1, t2, ops[:i] + [(SORT, op[1][:j] + op[1][j + 1:], asc)] + ops[i + 1:], conv)
