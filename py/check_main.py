import argparse
import logging
import os
import sys

sys.path.insert(0, os.path.join(os.environ.get('VERIF_ROOT', '/verif'), 'py'))
logging.disable(logging.CRITICAL)


def main():
    ap = argparse.ArgumentParser()
    ap.add_argument('prop')
    ap.add_argument('--tier', default=os.environ.get('VERIF_TIER', 'quick'), choices=['quick', 'thorough'])
    ap.add_argument('--seed', type=int, default=int(os.environ.get('VERIF_SEED', '0') or 0))
    ap.add_argument('--replay')
    a = ap.parse_args()
    import pysparkling
    repo = os.path.realpath(os.environ.get('VERIF_REPO', '/repo'))
    assert os.path.realpath(pysparkling.__file__).startswith(repo + '/'), pysparkling.__file__
    from common import harness
    sys.exit(harness.run_property(a.prop.upper(), a.tier, a.seed, a.replay))


if __name__ == '__main__':
    main()
