"""C20 -- file patterns resolve to exactly the matching files.

Case kinds (first element is the kind code, see coq/Run/C20_run.v):
  (0, cwd, [relative file, ...], [file text, ...], [file attribute, ...], all_expr)
        "res": a real scratch tree with those files is created under
        $VERIF_ROOT/.work/, the process changes into it, File.resolve_filenames(all_expr),
        Context().textFile(all_expr).collect() and the file names in the order wholeTextFiles / binaryFiles
        deliver them are observed.  File texts vary (zero bytes, one byte, the file's own absolute path,
        several lines, a few hundred bytes; names with codec extensions hold really compressed text) and so do
        attributes the resolver must not look at (0 plain, 1 symbolic link to a copy outside the tree, 2 part of a
        directory really written by saveAsTextFile -- including empty partitions --, 3 read-only, 4 old mtime).  The tree lives at a symbolic root
        (ROOT_SYM) inside the case; the real scratch directory is substituted on the way in and mapped back
        on the way out, so a case does not depend on the machine it was generated on.
  (1, pattern)  "fnm": bit mask of the fnmatch used by fileio/fs/local.py over all 364 names of length <= 5
        over the alphabet 'a' '.' '/'
  (2, s) posixpath.dirname, (3, s) str.strip, (4, s) Tokenizer(s).get_next(['*','?']), (5, s) get_fs(s).__name__,
  (6, s) s.split(',')
"""
import atexit
import bz2
import gzip
import hashlib
import itertools
import json
import os
import posixpath
import shutil

from common.coqlit import Err, uncanon

import pysparkling
from pysparkling.fileio import File
from pysparkling.fileio import fs as fs_mod
from pysparkling.fileio.fs import local as local_mod
from pysparkling.utils import Tokenizer

ID = 'C20'
KERNELS = ['Gen/FsDispatch.v: file_extensions', 'Gen/FsDispatch.v: get_fs', 'Gen/FsDispatch.v: local_constants']
SHARD = 250
ROOT_SYM = '/vroot/t0'
RES, FNM, DIRNAME, STRIP, TOK, GETFS, SPLIT = range(7)
KIND_NAMES = ['res', 'fnm', 'dirname', 'strip', 'tok', 'getfs', 'split']
# signature of the defect this check found (repaired in /repo by 9d8ea91); kept as a specific label
KNOWN_SIG = 'Local.resolve_filenames:missing:wildcard-in-first-component-of-relative-pattern'

RULE = ('res cases: small directory trees (plain files, part-file directories with a _SUCCESS marker -- some really '
        'written by saveAsTextFile with empty partitions --, nested directories up to depth 4, names with dots/spaces/'
        'non-ASCII/codec extensions/hidden prefixes; file sizes vary: zero bytes, one byte, several lines, a few hundred '
        'bytes; attributes vary: symbolic link, read-only, old mtime; exhaustive sub-trees of a 6-path universe in the small '
        'scope) x patterns built from the names of their files and directories with ? and * substituted at every '
        'position, runs replaced by *, two wildcards, literal names, non-existent names; each relative, ./-prefixed, '
        'absolute, with and without file://, and comma combinations with optional blanks; plus every pattern up to '
        'length 4 over {a,d,/,*,?} (small scope).  fnm cases: every pattern over {a . / * ?} up to length 5 '
        '(length 5 sampled in the quick tier) against every name over {a . /} up to length 5.  '
        'non-trivial = at least one file resolved (res) / at least one name matched (fnm); distinct by canonical '
        'JSON of the case')
ASSUMPTIONS = [
    "patterns contain no '[' (fnmatch character classes are outside the model) and no '..' component",
    'absolute patterns have their first wildcard below the scratch tree root (the walk would otherwise start '
    'above the tree); the scratch root is replaced by the symbolic root %s in cases and results' % ROOT_SYM,
    'file names avoid commas and leading/trailing blanks; files named *.gz / *.bz2 hold really compressed text (or are empty); '
    'file texts use \\n as their only line break; no symbolic links to directories, no dangling links',
    'remote schemes (s3, gs, http, hdfs) are not exercised; unknown schemes raise NotImplementedError',
    'the order of File.resolve_filenames itself follows os.walk and is compared as a sorted list; '
    'the reader order (textFile(...).collect()) is compared exactly',
]
TRUSTED = ['translator/kernels/c20.py (FILE_EXTENSIONS table, get_fs shape, constants of Local.resolve_filenames)',
           'scratch-tree construction and the symbolic-root substitution in py/c20.py']

VERIF = os.environ.get('VERIF_ROOT', '/verif')
_BASE = os.path.join(VERIF, '.work', f'C20-trees-{os.getpid()}')
_trees = {}


def _cleanup():
    shutil.rmtree(_BASE, ignore_errors=True)


atexit.register(_cleanup)


def kind(p):
    if p[0] == RES:
        e = p[5]
        k = 'res'
        if ',' in e:
            k += '-comma'
        if ROOT_SYM in e:
            k += '-abs'
        if 'file://' in e:
            k += '-scheme'
        if not any(c in e for c in '*?'):
            k += '-literal'
        return k
    return KIND_NAMES[p[0]]


# ------------------------------------------------------------------ scratch trees
PLAIN, SYMLINK, SAVED, READONLY, OLD = range(5)
CODECS = {'.gz': gzip.compress, '.bz2': bz2.compress}
SAVE_REWRITES = [0]


def disk_bytes(rel, text):
    data = text.encode('utf8')
    for ext, comp in CODECS.items():
        if rel.endswith(ext) and data:
            return comp(data)
    return data


def lines_of(text):
    """str.splitlines for texts whose only line break is \\n (own version, used by the oracle)"""
    parts = text.split('\n')
    if parts[-1] == '':
        parts.pop()
    return parts


def ensure_tree(files, contents, attrs):
    key = (tuple(files), tuple(contents), tuple(attrs))
    if key in _trees:
        return _trees[key]
    if not (len(files) == len(contents) == len(attrs)):
        raise ValueError('files / contents / attributes differ in length')
    h = hashlib.sha1(json.dumps([list(k) for k in key]).encode()).hexdigest()[:12]
    top = os.path.join(_BASE, f'{len(_trees)}_{h}')
    root = os.path.join(top, 'r')
    os.makedirs(root, exist_ok=True)
    for rel, text in zip(files, contents):
        comps = rel.split('/')
        if rel.startswith('/') or any(c in ('', '.', '..') for c in comps):
            raise ValueError(f'not a canonical relative file path: {rel!r}')
        if any(c in text for c in '\r\x0b\x0c\x1c\x1d\x1e\x85\u2028\u2029'):
            raise ValueError('file text with a line break other than \\n')
    # directories really written by saveAsTextFile (first: the directory must not exist yet)
    saved = {}
    for rel, text, a in zip(files, contents, attrs):
        if a == SAVED and posixpath.basename(rel).startswith('part-'):
            saved.setdefault(posixpath.dirname(rel), []).append((rel, text))
    for d, parts in saved.items():
        parts.sort()
        if len(parts) < 2:
            continue
        elems = [ln for _, text in parts for ln in lines_of(text)]
        try:
            os.makedirs(os.path.dirname(os.path.join(root, d)), exist_ok=True)
            pysparkling.Context().parallelize(elems, len(parts)).saveAsTextFile(os.path.join(root, d))
        except Exception:  # pylint: disable=broad-except
            pass
    for idx, (rel, text, a) in enumerate(zip(files, contents, attrs)):
        path = os.path.join(root, rel)
        data = disk_bytes(rel, text)
        if a == SAVED and os.path.isfile(path):
            with open(path, 'rb') as f:
                if f.read() == data:
                    continue
            SAVE_REWRITES[0] += 1
        os.makedirs(os.path.dirname(path), exist_ok=True)
        if a == SYMLINK:
            ext = os.path.join(top, 'ext')
            os.makedirs(ext, exist_ok=True)
            with open(os.path.join(ext, str(idx)), 'wb') as f:
                f.write(data)
            os.symlink(os.path.join(ext, str(idx)), path)
            continue
        with open(path, 'wb') as f:
            f.write(data)
        if a == READONLY:
            os.chmod(path, 0o444)
        elif a == OLD:
            os.utime(path, (1_000_000_000, 1_000_000_000))
    # nothing but the listed files may exist (a save that wrote something else would change the tree)
    listed = set(files)
    for dp, _, fns in os.walk(root):
        for fn in fns:
            rel = os.path.relpath(os.path.join(dp, fn), root)
            if rel not in listed:
                os.remove(os.path.join(dp, fn))
                SAVE_REWRITES[0] += 1
    _trees[key] = root
    return root


def items_of(expr):
    out = []
    for it in expr.split(','):
        it = it.strip()
        if it.startswith('file://'):
            it = it[7:]
        out.append(it)
    return out


def safe(expr):
    """Refuse expressions whose walk could leave the scratch tree."""
    for it in items_of(expr):
        if it.startswith('/'):
            lit = it
            for i, c in enumerate(it):
                if c in '*?':
                    lit = it[:i]
                    break
            if not (lit.startswith(ROOT_SYM + '/') or lit == ROOT_SYM):
                return False
        if '..' in it.split('/'):
            return False
    return True


def impl(p):
    k = p[0]
    if k == RES:
        return impl_res(p)
    if k == FNM:
        pat = p[1]
        m = 0
        for i, nm in enumerate(FNM_NAMES):
            if local_mod.fnmatch(nm, pat):
                m |= 1 << i
        return m
    if k == DIRNAME:
        return os.path.dirname(p[1])
    if k == STRIP:
        return p[1].strip()
    if k == TOK:
        return Tokenizer(p[1]).get_next(['*', '?'])
    if k == GETFS:
        return fs_mod.get_fs(p[1]).__name__
    if k == SPLIT:
        return p[1].split(',')
    raise ValueError(k)


def impl_res(p):
    _, cwd, files, contents, attrs, expr = p
    if cwd != ROOT_SYM or not safe(expr):
        return Err('UnsafePattern')
    root = ensure_tree(files, contents, attrs)
    real = expr.replace(ROOT_SYM, root)

    def sym(s):
        return s.replace(root, ROOT_SYM)
    old = os.getcwd()
    os.chdir(root)
    try:
        try:
            r1 = sorted(sym(n) for n in File.resolve_filenames(real))
        except Exception as e:  # pylint: disable=broad-except
            r1 = Err(type(e).__name__)
        try:
            r2 = [sym(x) for x in pysparkling.Context().textFile(real).collect()]
        except Exception as e:  # pylint: disable=broad-except
            r2 = Err(type(e).__name__)
        try:
            r3 = [sym(n) for n, _ in pysparkling.Context().wholeTextFiles(real).collect()]
        except Exception as e:  # pylint: disable=broad-except
            r3 = Err(type(e).__name__)
        try:
            r4 = [sym(n) for n, _ in pysparkling.Context().binaryFiles(real).collect()]
        except Exception as e:  # pylint: disable=broad-except
            r4 = Err(type(e).__name__)
    finally:
        os.chdir(old)
    return (r1, r2, r3, r4)


# ------------------------------------------------------------------ oracle (independent of the Coq model)
def wild(pat, s):
    """'*' any run of characters, '?' any single one, everything else itself (own matcher, not fnmatch)."""
    n = len(s)
    cur = [True] + [False] * n
    for ch in pat:
        if ch == '*':
            nxt = cur[:]
            for j in range(1, n + 1):
                nxt[j] = nxt[j] or nxt[j - 1]
        else:
            nxt = [False] * (n + 1)
            for j in range(n):
                if cur[j] and (ch == '?' or ch == s[j]):
                    nxt[j + 1] = True
        cur = nxt
    return cur[n]


def in_scope(it):
    if '[' in it or '://' in it or it.endswith('/') or it == '.':
        return False
    comps = it.split('/')
    if '..' in comps:
        return False
    body = comps[1:] if it.startswith('/') or it.startswith('./') else comps
    if it and any(c in ('', '.') for c in body):
        return False
    return True


def lit_prefix(it):
    for i, c in enumerate(it):
        if c in '*?':
            return it[:i]
    return it


def defect_shaped(it):
    """relative item with a separator whose first component holds a wildcard after a literal start"""
    lp = lit_prefix(it)
    return (not it.startswith('/')) and '/' in it and lp != '' and '/' not in lp and lp != it


def item_bounds(it, files):
    """(lower, lower_surviving_known_defect, upper) sets of relative file paths for one item"""
    if it.startswith('/'):
        def name(rel):
            return ROOT_SYM + '/' + rel
        pat = it
    else:
        def name(rel):
            return rel
        pat = it[2:] if it.startswith('./') else it
    lower = {f for f in files if wild(pat, name(f))}
    upper = {f for f in files if wild(pat, name(f)) or wild(pat + '/part*', name(f))}
    literal = not any(c in pat for c in '*?')
    if pat:
        # an item naming -- literally or through its wildcards -- a directory written by a multi-partition save
        # (a directory holding a _SUCCESS marker): that directory's part files
        dirs = {posixpath.dirname(f) for f in files if posixpath.basename(f) == '_SUCCESS' and '/' in f}
        for d in dirs:
            if wild(pat, name(d)):
                lower |= {f for f in files if posixpath.dirname(f) == d and posixpath.basename(f).startswith('part')}
    surviving = lower
    if defect_shaped(it):
        lp = lit_prefix(it)
        surviving = {f for f in lower if f.startswith(lp + '/')}
    return lower, surviving, upper, literal


def to_rel(n):
    """the tree-relative path of the file a resolved name stands for"""
    a = n if n.startswith('/') else ROOT_SYM + '/' + n
    a = posixpath.normpath(a)
    if a.startswith(ROOT_SYM + '/'):
        return a[len(ROOT_SYM) + 1:]
    return None


def oracle(p, r):
    k = p[0]
    if k == FNM:
        want = 0
        for i, nm in enumerate(FNM_NAMES):
            if wild(p[1], nm):
                want |= 1 << i
        if r != want:
            diff = (r ^ want) if isinstance(r, int) else 0
            i = (diff & -diff).bit_length() - 1
            return ('fnmatch:wildcard-semantics', f'pattern {p[1]!r} vs name {FNM_NAMES[i]!r}: implementation says '
                    f'{bool(isinstance(r, int) and r >> i & 1)}')
        return None
    if k == TOK:
        if r != lit_prefix(p[1]):
            return ('Tokenizer.get_next:literal-prefix', f'{p[1]!r} -> {r!r}')
        return None
    if k != RES:
        return None
    _, _, files, contents, _, expr = p
    if isinstance(r, Err):
        return None if r.name == 'UnsafePattern' else ('impl:' + r.name, 'harness error')
    names, coll, whole, binary = r
    items = items_of(expr)
    if not all(in_scope(it) for it in items):
        return None
    if isinstance(names, Err):
        return ('File.resolve_filenames:raises:' + names.name, f'{expr!r} raised {names.name}')
    fileset = set(files)
    got = {}
    for n in names:
        rel = to_rel(n)
        if rel is None or rel not in fileset:
            return ('Local.resolve_filenames:not-an-existing-file', f'{expr!r} resolved to {n!r}, which is not a file of the tree')
        got[rel] = got.get(rel, 0) + 1
    bounds = [item_bounds(it, files) for it in items]
    for f in files:
        lo = sum(1 for b in bounds if f in b[0])
        lo_known = sum(1 for b in bounds if f in b[1])
        hi = sum(1 for b in bounds if f in b[2])
        c = got.get(f, 0)
        # the resolution is judged as a list: every item contributes each existing file at most once (so a file
        # may appear as often as there are items accepting it, never more); a file that some item matches must
        # appear (an implementation that lists it once for two identical items is not blamed)
        lo, lo_known = min(lo, 1), min(lo_known, 1)
        if hi and c > hi:
            return ('Local.resolve_filenames:duplicate-within-item',
                    f'{expr!r} resolved {f!r} {c} time(s) but only {hi} item(s) can yield it: listed more than once by one item')
        if c > hi:
            lit_marker = posixpath.basename(f) == '_SUCCESS' and any(b[3] for b in bounds)
            sig = 'Local.resolve_filenames:marker-resolved' if lit_marker else 'Local.resolve_filenames:extra-file'
            return (sig, f'{expr!r} resolved {f!r} {c} time(s); at most {hi} item(s) match it')
        if c < lo_known:
            return ('Local.resolve_filenames:missing-file', f'{expr!r} resolved {f!r} {c} time(s); {lo} item(s) match it')
        if c < lo:
            return (KNOWN_SIG, f'{expr!r} resolved {f!r} {c} time(s); {lo} item(s) match it')
    # readers process the resolved files in sorted path order
    if isinstance(coll, Err):
        return ('textFile:raises:' + coll.name, f'textFile({expr!r}).collect() raised {coll.name}')
    text_of = dict(zip(files, contents))
    want = [ln for n in sorted(names) for ln in lines_of(text_of[to_rel(n)])]
    if len(coll) != len(want):
        return ('textFile:record-count', f'textFile({expr!r}) returned {len(coll)} records; the resolved files hold {len(want)}')
    if sorted(coll) != sorted(want):
        return ('textFile:files-differ', f'textFile({expr!r}) read {coll!r}, resolved {want!r}')
    if coll != want:
        return ('textFile:order', f'textFile({expr!r}) read {coll!r}, sorted path order is {want!r}')
    for reader, got_names in (('wholeTextFiles', whole), ('binaryFiles', binary)):
        if isinstance(got_names, Err):
            return (f'{reader}:raises:' + got_names.name, f'{reader}({expr!r}).collect() raised {got_names.name}')
        if sorted(got_names) != sorted(names):
            return (f'{reader}:files-differ', f'{reader}({expr!r}) read {got_names!r}, resolved {names!r}')
        if got_names != sorted(names):
            return (f'{reader}:order', f'{reader}({expr!r}) read {got_names!r}, sorted path order is {sorted(names)!r}')
    return None


def nontrivial(p, r):
    if p[0] == RES:
        return isinstance(r, tuple) and isinstance(r[0], list) and len(r[0]) > 0
    if p[0] == FNM:
        return r != 0
    return True


# ------------------------------------------------------------------ generators
FNM_NAMES = [''.join(t) for n in range(6) for t in itertools.product('a./', repeat=n)]
FNM_PAT_ALPHA = 'a./*?'

FILE_NAMES = ['a.txt', 'b.txt', 'ab.txt', 'x.txt', 'data.csv', 'notes', 'part', 'partial.txt', 'apart', '.hidden',
              'my file.txt', '\u00e9.txt', '_SUCCESS', 'a', 'b', 'part-00000', 'a-b_c.d', 'x+y.txt', 'A.TXT',
              'c.gz', 'n.bz2', '.part-00000.crc', '_temporary', '.x.txt.swp', 'part-00001.gz']
DIR_NAMES = ['d', 'data', 'out', 'out2', 'sub', 'x', 'logs', 'dat', 'o.d', 'a', 'part-dir', 'my dir', 'dd', '.cache', '_tmp']


def path_text(rel):
    return ROOT_SYM + '/' + rel


def gen_content(rng, rel):
    base = posixpath.basename(rel)
    r = rng.random()
    if base == '_SUCCESS':
        return '' if r < 0.85 else 'done\n'
    if r < 0.40:
        return path_text(rel)
    if r < 0.62:
        return ''
    if r < 0.72:
        return 'x'
    if r < 0.92:
        return path_text(rel) + '\nsecond line of ' + base + '\n'
    return ''.join(f'{i} {rel}\n' for i in range(12))


def gen_attr(rng):
    r = rng.random()
    return PLAIN if r < 0.8 else SYMLINK if r < 0.88 else READONLY if r < 0.94 else OLD


_saved_cache = {}


def saved_dataset(elems, n):
    """(file name, text) pairs of a directory really written by parallelize(elems, n).saveAsTextFile"""
    key = (tuple(elems), n)
    if key not in _saved_cache:
        d = os.path.join(_BASE, 'gen', str(len(_saved_cache)), 'ds')
        os.makedirs(os.path.dirname(d), exist_ok=True)
        pysparkling.Context().parallelize(list(elems), n).saveAsTextFile(d)
        out = []
        for fn in sorted(os.listdir(d)):
            with open(os.path.join(d, fn), encoding='utf8') as f:
                out.append((fn, f.read()))
        _saved_cache[key] = out
    return _saved_cache[key]


def gen_dir(rng, depth):
    """(relative path, text, attribute) triples of one directory's content"""
    out = []
    style = rng.random()
    if style < 0.25:
        # really written by a multi-partition save, usually with more partitions than elements
        k = rng.choice([0, 0, 1, 2, 2, 3])
        n = rng.choice([2, 3, 4, 5])   # a single partition is written as one plain file, not a directory
        elems = [f'e{i}' for i in range(k)]
        out += [(fn, text, SAVED) for fn, text in saved_dataset(elems, n)]
        if rng.random() < 0.25:
            f = rng.choice(['partial.txt', 'other.txt', '.part-00000.crc', 'apart', 'sub/part-00000', 'part-x/y', 'sub/notes.txt', 'key=1/part-00000'])
            out.append((f, gen_content(rng, f), gen_attr(rng)))
            if f.startswith('sub/') and rng.random() < 0.5:
                out.append(('sub/_SUCCESS', '', PLAIN))
    elif style < 0.45:
        # laid out like a dataset directory, arbitrary sizes
        n = rng.randint(1, 3)
        for i in range(n):
            out.append((f'part-{i:05d}', '' if rng.random() < 0.4 else f'row {i}\n' * rng.randint(1, 3), gen_attr(rng)))
        out.append(('_SUCCESS', gen_content(rng, '_SUCCESS'), PLAIN))
        if rng.random() < 0.3:
            f = rng.choice(['partial.txt', 'other.txt', '.part-00000.crc', 'apart', 'sub/part-00000', 'part-x/y'])
            out.append((f, gen_content(rng, f), gen_attr(rng)))
    else:
        for _ in range(rng.randint(1, 3)):
            if depth < 3 and rng.random() < 0.35:
                d = rng.choice(DIR_NAMES)
                out += [(d + '/' + f, t, a) for f, t, a in gen_dir(rng, depth + 1)]
            else:
                f = rng.choice(FILE_NAMES)
                out.append((f, gen_content(rng, f), gen_attr(rng)))
    return out


def mk_tree(triples):
    """sorted, duplicate-free (files, contents, attrs); a path cannot be a file and a directory at once"""
    byname = {}
    for f, t, a in triples:
        byname.setdefault(f, (t, a))
    files = sorted(byname)
    keep = [f for f in files if not any(g.startswith(f + '/') for g in files)][:10]
    # a directory written by a save stays complete (or loses the attribute)
    return keep, [byname[f][0] for f in keep], [byname[f][1] if byname[f][1] != SAVED or all(
        g in keep for g in files if posixpath.dirname(g) == posixpath.dirname(f)) else PLAIN for f in keep]


SIBLINGS = [('out', ['oak', 'oat', 'ou', 'outx', 'o.t']), ('data', ['dat', 'date', 'd.ta', 'dota']),
            ('run1', ['run2', 'run', 'r.n1']), ('logs', ['log.txt', 'lags', 'logs.txt'])]


def gen_siblings(rng):
    """a dataset directory and plain files with similar names next to it"""
    d, sibs = rng.choice(SIBLINGS)
    parent = rng.choice(['', '', 'D/', 'x/y/'])
    n = rng.randint(1, 3)
    out = [(parent + d + f'/part-{i:05d}', '' if rng.random() < 0.4 else f'row {i}\n', gen_attr(rng)) for i in range(n)]
    out.append((parent + d + '/_SUCCESS', '', PLAIN))
    for f in rng.sample(sibs, rng.randint(1, 2)):
        out.append((parent + f, gen_content(rng, parent + f), gen_attr(rng)))
    return out


def gen_tree(rng):
    triples = []
    if rng.random() < 0.4:
        triples += gen_siblings(rng)
    for _ in range(rng.randint(1, 4)):
        if rng.random() < 0.4:
            f = rng.choice(FILE_NAMES)
            triples.append((f, gen_content(rng, f), gen_attr(rng)))
        else:
            d = rng.choice(DIR_NAMES)
            triples += [(d + '/' + f, t, a) for f, t, a in gen_dir(rng, 1)]
    return mk_tree(triples)


DOC_FILES = ['a.txt', 'd/x.txt', 'data/x.txt', 'out/_SUCCESS', 'out/part-00000', 'out/part-00001', 'out/sub/b.txt']
DOC_TREE = (DOC_FILES, [path_text('a.txt'), 'x', '', '', '', 'row 1\n', path_text('out/sub/b.txt') + '\nsecond\n'],
            [PLAIN] * 7)
SMALL_UNIVERSE = ['a', 'd/a', 'd/part-0', 'd/_SUCCESS', 'da/a', 'd/d/a']


def small_tree(mask, salt):
    files = [f for i, f in enumerate(SMALL_UNIVERSE) if mask >> i & 1]
    contents = ['' if (i + salt + mask) % 2 == 0 else path_text(f) for i, f in enumerate(files)]
    return files, contents, [PLAIN] * len(files)


def names_of(files):
    """files and all their ancestor directories"""
    out = []
    seen = set()
    for f in files:
        comps = f.split('/')
        for i in range(1, len(comps) + 1):
            n = '/'.join(comps[:i])
            if n not in seen:
                seen.add(n)
                out.append(n)
    return out


def single_wildcards(name):
    for i in range(len(name)):
        yield name[:i] + '?' + name[i + 1:]
        yield name[:i] + '*' + name[i + 1:]
    for i in range(len(name) + 1):
        yield name[:i] + '*' + name[i:]


def rand_pattern(rng, name):
    r = rng.random()
    s = name
    if r < 0.35:
        i = rng.randrange(len(s))
        j = rng.randint(i, len(s))
        s = s[:i] + '*' + s[j:]
    elif r < 0.7:
        for _ in range(2):
            i = rng.randrange(len(s))
            s = s[:i] + rng.choice('*?') + s[i + 1:]
    elif r < 0.85:
        i = rng.randrange(len(s) + 1)
        s = s[:i] + rng.choice(['x', '_', 'part', '/', '.']) + s[i:]
        if s.startswith('/'):
            s = 'q' + s
    else:
        s = '*' + s[rng.randrange(len(s)):]
    return s


def cover_patterns(a, b):
    """patterns built from two names that match both: '?' at the differing positions, '*' between the common ends"""
    out = []
    if len(a) == len(b) and a != b:
        out.append(''.join(x if x == y else '?' for x, y in zip(a, b)))
    i = 0
    while i < min(len(a), len(b)) and a[i] == b[i]:
        i += 1
    j = 0
    while j < min(len(a), len(b)) - i and a[-1 - j] == b[-1 - j]:
        j += 1
    out.append(a[:i] + '*' + (a[len(a) - j:] if j else ''))
    if i:
        out.append(a[:i] + '?' * (len(a) - i))
    return out


def sibling_cover_patterns(files):
    """patterns that cover a dataset directory and a plain file next to it at once"""
    dsets = sorted({posixpath.dirname(f) for f in files if posixpath.basename(f) == '_SUCCESS' and '/' in f})
    out = []
    for d in dsets:
        parent = posixpath.dirname(d)
        for f in files:
            if posixpath.dirname(f) == parent and not f.startswith(d + '/'):
                out += cover_patterns(d, f)
    return [q for q in dict.fromkeys(out) if ok_item(q) and not q.startswith('/')]


SIB_FILES = ['D/log.txt', 'D/oak', 'D/out/_SUCCESS', 'D/out/part-00000', 'D/out/part-00001', 'log.txt', 'oak', 'oat.txt',
             'ou', 'out/_SUCCESS', 'out/part-00000', 'out/part-00001', 'out/part-00002']
SIB_TREE = (SIB_FILES, ['l\n', '', '', 'r0\n', '', 'l\n', 'oak', '', 'x', '', '', 'r1\n', 'r2\nr3\n'], [0] * 13)
SIB_PATTERNS = ['o??', '*t', 'o*t', '?u?', 'o?', 'ou*', 'o*', '???', 'D/o??', 'D/*t', 'D/o*t', 'D/???', '?/o??', '*/o??', 'D/o?k,D/o?t',
                'log.txt,o??', 'o??,nonexistent', ' o?? , D/*t', 'oak,ou?', 'o??,o??', 'file://o??,D/o??', 'o?t', 'oa?', 'D/ou?', 'D/oak']


NEST_FILES = ['out/_SUCCESS', 'out/key=1/part-00000', 'out/part-00000', 'out/part-00001', 'out/sub/_SUCCESS', 'out/sub/notes.txt',
              'out/sub/part-00000', 'out/sub/part-00001', 'top.txt']
NEST_TREE = (NEST_FILES, ['', 'k1\n', 'r0\n', '', '', 'note\n', '', 's1\n', 'top\n'], [0] * 9)


def styled(rng, pat, style=None):
    """relative / ./-relative / absolute, with or without file://"""
    style = rng.randrange(6) if style is None else style
    if style == 0:
        return pat
    if style == 1:
        return './' + pat
    if style == 2:
        return ROOT_SYM + '/' + pat
    if style == 3:
        return 'file://' + pat
    if style == 4:
        return 'file://' + ROOT_SYM + '/' + pat
    return pat


def ok_item(it):
    return '[' not in it and ',' not in it and it == it.strip() and '..' not in it.split('/')


def tree_cases(rng, tree, per_name_all, n_random, n_comma, n_odd=6):
    cases = []
    files, contents, attrs = tree
    names = names_of(files)
    pats = []
    for n in names:
        pats.append(n)
        sw = list(single_wildcards(n))
        if per_name_all:
            pats += sw
        else:
            pats += rng.sample(sw, min(len(sw), 6))
    for _ in range(n_random):
        pats.append(rand_pattern(rng, rng.choice(names)))
    pats += sibling_cover_patterns(files)
    pats += ['nonexistent', 'nonexistent/x*', '*', '*/*', '?', '', 'part*', '*/part*', '_SUCCESS', '*_SUCCESS']
    # odd spellings (outside the property's quantifier, judged by the correspondence only): doubled separators,
    # '.' components, trailing separators
    for _ in range(n_odd):
        q = rand_pattern(rng, rng.choice(names)) if rng.random() < 0.5 else rng.choice(names)
        comps = q.split('/')
        i = rng.randrange(len(comps) + 1)
        comps.insert(i, rng.choice(['', '.', '.', '']))
        q = '/'.join(comps)
        if q.startswith('/'):
            q = '.' + q
        pats.append(q)
    pats = [q for q in pats if ok_item(q) and not q.startswith('/')]
    for q in pats:
        cases.append((RES, ROOT_SYM, list(files), list(contents), list(attrs), styled(rng, q)))
    for _ in range(n_comma):
        k = rng.choice([2, 2, 3])
        its = [styled(rng, rng.choice(pats)) for _ in range(k)]
        if rng.random() < 0.3:
            its = [rng.choice(['', ' ', '  ']) + it + rng.choice(['', ' ', '\t']) for it in its]
        cases.append((RES, ROOT_SYM, list(files), list(contents), list(attrs), ','.join(its)))
    return cases


def small_scope_patterns():
    out = []
    for n in range(0, 5):
        for t in itertools.product('ad/*?', repeat=n):
            q = ''.join(t)
            if q.startswith('/'):
                continue
            out.append(q)
    return out


def load_corpus():
    d = os.path.join(VERIF, 'corpus', ID)
    out = []
    if os.path.isdir(d):
        for fn in sorted(os.listdir(d)):
            if fn.endswith('.json'):
                out.append(uncanon(json.load(open(os.path.join(d, fn)))['case']))
    return out


def generate(rng, tier):
    quick = tier == 'quick'
    cases = load_corpus()
    # first in the stream: one item that matches a plain file AND names a dataset directory next to it
    for q in SIB_PATTERNS:
        for st in (0, 1, 2, 3, 4) if ',' not in q else (0,):
            cases.append((RES, ROOT_SYM) + SIB_TREE + (styled(rng, q, st) if st else q,))
    for q in sibling_cover_patterns(SIB_FILES):
        cases.append((RES, ROOT_SYM) + SIB_TREE + (styled(rng, q),))
    # a '*' that runs across the separator reaches a part file directly AND through item + '/part*' (each file
    # once per item all the same); directories nested inside a dataset directory
    for q in ['o*', 'ou*', 'o*t*', 'D/o*', 'D/ou*', 'D/o*t*', 'log.txt,D/out*', 'o*,o*', 'ou*,D/o*', '*', 'D/*', '*t*']:
        for st in (0, 1, 2, 3, 4) if ',' not in q else (0,):
            cases.append((RES, ROOT_SYM) + SIB_TREE + (styled(rng, q, st) if st else q,))
    for q in ['out', 'out/sub', 'out/su?', '*/sub', 'ou?/sub/part-0000?', '*.txt', 'out,out/sub', 'out/key=1', 'out/key=?', 'out/*',
              'o*', 'out/s*', 'ou?', 'out/sub/*', '*/*/part*', 'out/sub,out/key=1', 'o*/sub', 'out*', 'out/sub/notes.txt', 'ou?/su?']:
        for st in (0, 2, 3, 4) if ',' not in q else (0,):
            cases.append((RES, ROOT_SYM) + NEST_TREE + (styled(rng, q, st) if st else q,))
    # documentation-style tree: every single substitution on every name, all styles for the literals
    for q in names_of(DOC_FILES) + ['out/', 'out/sub', 'foo://x', 'a.txt,a.txt', ' a.txt , out ', 'out//part*', 'out/./part*',
                                  'a.txt/x*', 'a.txt/', './a.txt', '.', './', 'd*/x.txt', 'da?a/x.txt', '*/x.txt', '?/x.txt',
                                  'file://foo://x', 'http-x', 'a.txt,foo://y', 'foo://y,a.txt', 'ou?', 'o*t', 'out*',
                                  'out/part-0000?', 'out/_SUCCESS', 'out/_*', '*SUCCESS', 'out/sub/*', 'out,out/sub/b.txt',
                                  'nonexistent,a.txt', 'a.txt,nonexistent*', ',', 'a.txt,', ',a.txt']:
        for st in (0, 2, 4) if ok_item(q) and not q.startswith('.') and '://' not in q and q not in ('', ',') else (0,):
            cases.append((RES, ROOT_SYM) + DOC_TREE + (styled(rng, q, st) if st else q,))
    cases += tree_cases(rng, DOC_TREE, True, 40, 40)
    # sizes and attributes: datasets really written with empty partitions, an empty dataset, zero-byte / one-byte /
    # larger files, compressed text under codec extensions, a symbolic link, a read-only and an old file, hidden names
    triples = [('sparse/' + fn, t, SAVED) for fn, t in saved_dataset(['e0', 'e1'], 5)]
    triples += [('none/' + fn, t, SAVED) for fn, t in saved_dataset([], 2)]
    triples += [('e.txt', '', PLAIN), ('one.txt', 'x', PLAIN), ('big.txt', ''.join(f'{i} big\n' for i in range(30)), PLAIN),
                ('c.gz', 'zipped 1\nzipped 2\n', PLAIN), ('z.gz', '', PLAIN), ('lnk.txt', 'linked\n', SYMLINK),
                ('ro.txt', path_text('ro.txt'), READONLY), ('old.txt', '', OLD), ('.hidden', '', PLAIN),
                ('_tmp/part-00000', '', PLAIN), ('_tmp/_SUCCESS', 'done\n', PLAIN)]
    files = sorted(t[0] for t in triples)
    byname = {t[0]: t for t in triples}
    attr_tree = (files, [byname[f][1] for f in files], [byname[f][2] for f in files])
    for q in ['sparse', 'none', 'spars?', 'n?ne', '*', '*.txt', '?.gz', 'sparse,none', 'none,e.txt', 'sparse/part-*', 'sparse/*',
              '_tmp', '.hidden', '.*', '_*', 'e.txt,one.txt,big.txt', '*e', 's*e']:
        for st in (0, 2, 3, 4):
            cases.append((RES, ROOT_SYM) + attr_tree + (styled(rng, q, st) if ',' not in q else q,))
    cases += tree_cases(rng, attr_tree, False, 30, 30)
    # random trees
    for _ in range(12 if quick else 100):
        tree = gen_tree(rng)
        if not tree[0]:
            continue
        cases += tree_cases(rng, tree, not quick, 25 if quick else 60, 15 if quick else 40)
    # small scope: sub-trees of a 6-path universe x every pattern up to length 4 over {a,d,/,*,?}
    sp = small_scope_patterns()
    masks = range(1, 1 << len(SMALL_UNIVERSE))
    if quick:
        for _ in range(700):
            cases.append((RES, ROOT_SYM) + small_tree(rng.choice(masks), rng.randrange(2)) + (rng.choice(sp),))
    else:
        for m in masks:
            tree = small_tree(m, rng.randrange(2))
            for q in sp:
                cases.append((RES, ROOT_SYM) + tree + (q,))
    # fnmatch semantics, exhaustive
    fpats = [''.join(t) for n in range(5) for t in itertools.product(FNM_PAT_ALPHA, repeat=n)]
    five = [''.join(t) for t in itertools.product(FNM_PAT_ALPHA, repeat=5)]
    fpats += rng.sample(five, 400) if quick else five
    cases += [(FNM, q) for q in fpats]
    # runtime helpers the model transcribes
    aux = ['', '/', '//', '///a', 'a', 'a/', 'a/b', 'a//b', '/a', '//a', './a', '.', './', 'a/b/', 'a/b//', '/a/b', 'a/./b',
           ROOT_SYM + '/d/x', './d', 'd/x.txt', '././x']
    for _ in range(100 if quick else 1000):
        aux.append(''.join(rng.choice('ab/./ *?') for _ in range(rng.randint(0, 8))))
    for s in aux:
        cases.append((DIRNAME, s))
        cases.append((TOK, s))
    ws = [' a ', '\ta\n', 'a b', '  ', '', '\x0ba\x0c', '\x1ca\x1f', '\x85a\xa0', '\u2003a\u3000', '\u200ba', 'a\ufeff', '\x1ba',
          '\u1680a\u2028', '\u2029a\u202f', '\u205fa', ' \t a,b \r\n']
    # every code point Python regards as blank, and its neighbours, on both sides of a word
    blanks = [c for c in range(0x3100) if chr(c).isspace()]
    for c in sorted({d for c in blanks for d in (c - 1, c, c + 1) if d >= 0}):
        ws.append(chr(c) + 'a b' + chr(c))
    for s in ws:
        cases.append((STRIP, s))
    for s in ['', 'a.txt', 'file://a', 'file:///x/y', 's3://b/k', 's3n://b', 'gs://b', 'gcs://b', 'http://h/x', 'https://h',
              'hdfs://n/p', 'h://x', 'df://x', 'hd://x', 'foo://x', '://x', 'a/file://b', 'FILE://x', 'file:/x', 'x://y://z',
              's3a://b', 'fs://q', 'dfs://q', 'hdfsx://q']:
        cases.append((GETFS, s))
    for s in ['', ',', 'a', 'a,b', 'a,,b', ',a', 'a,', ' a , b ', 'a*,b?', ',,']:
        cases.append((SPLIT, s))
    return cases


def shrink_candidates(p):
    if p[0] != RES:
        if isinstance(p[1], str):
            for i in range(len(p[1])):
                yield (p[0], p[1][:i] + p[1][i + 1:])
        return
    _, cwd, files, contents, attrs, expr = p

    def mk(fl, cl, al, e):
        # a directory written by a save must stay complete: drop the attribute when shrinking the tree
        return (RES, cwd, fl, cl, [PLAIN if a == SAVED and len(fl) != len(files) else a for a in al], e)
    for i in range(len(files)):
        if len(files) > 1:
            yield mk(files[:i] + files[i + 1:], contents[:i] + contents[i + 1:], attrs[:i] + attrs[i + 1:], expr)
    if any(a != PLAIN for a in attrs):
        yield (RES, cwd, files, contents, [PLAIN] * len(files), expr)
    its = expr.split(',')
    if len(its) > 1:
        for i in range(len(its)):
            yield mk(files, contents, attrs, ','.join(its[:i] + its[i + 1:]))
    if expr.startswith('file://'):
        yield mk(files, contents, attrs, expr[7:])
    if expr.startswith(ROOT_SYM + '/'):
        yield mk(files, contents, attrs, expr[len(ROOT_SYM) + 1:])
    for i in range(len(expr)):
        if expr[i] in ',/' or ROOT_SYM in expr:
            continue
        yield mk(files, contents, attrs, expr[:i] + expr[i + 1:])


def extra_evidence():
    trees = list(_trees)
    sizes = {'zero_byte_files': 0, 'one_byte_files': 0, 'multi_line_files': 0, 'larger_files': 0}
    attrs = {}
    names = {'hidden_names': 0, 'codec_extension_names': 0}
    saved_dirs = empty_parts_in_saved = 0
    for files, contents, ats in trees:
        for f, t, a in zip(files, contents, ats):
            sizes['zero_byte_files'] += t == ''
            sizes['one_byte_files'] += len(t) == 1
            sizes['multi_line_files'] += t.count('\n') > 1
            sizes['larger_files'] += len(t) > 100
            attrs[['plain', 'symlink', 'written_by_saveAsTextFile', 'read_only', 'old_mtime'][a]] = \
                attrs.get(['plain', 'symlink', 'written_by_saveAsTextFile', 'read_only', 'old_mtime'][a], 0) + 1
            names['hidden_names'] += posixpath.basename(f).startswith(('.', '_'))
            names['codec_extension_names'] += f.endswith(tuple(CODECS))
            if a == SAVED and posixpath.basename(f) == '_SUCCESS':
                saved_dirs += 1
            if a == SAVED and posixpath.basename(f).startswith('part-') and t == '':
                empty_parts_in_saved += 1
    return {'c20_trees': {'distinct_trees_built': len(trees), **sizes, 'file_attributes': attrs, **names,
                          'directories_written_by_saveAsTextFile': saved_dirs,
                          'empty_part_files_in_them': empty_parts_in_saved,
                          'saved_files_rewritten_to_match_the_case': SAVE_REWRITES[0]}}
