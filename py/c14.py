"""C14 -- grouped aggregation is correct and independent of partitioning.

case = (mode, keycols, pivot, aggs, parts)
  mode    : 'groupBy' | 'rollup' | 'cube' | 'describe' | 'summary'
  keycols : list of column indices used as grouping keys (columns: 0 'k' int, 1 's' string, 2 'v' int, 3 'w' double)
  pivot   : None | (column index, None | [values])      (None for the values = pivot(col) without a value list)
  aggs    : list of (code, [column indices], share)      (code: see AGG); share = 0: a freshly constructed Column;
            share = (g, form): the Column OBJECT of sharing group g (one object per g within the case), used as it is
            (form 0), as obj.alias(..) (form 1) or as obj.alias(..).alias(..) (form 2)
  a mode ending in '*' : the same Column objects are first evaluated by a different grouping, then by this one
  parts   : list of partitions, each a list of rows, each row a 4-tuple (k, s, v, w) of nullable values

The implementation side builds a DataFrame over exactly these partitions
(Context._parallelize_partitions + createDataFrame with an explicit schema), calls
groupBy/rollup/cube(...)[.pivot(...)].agg(...) (or describe/summary) and collects.  The result is the list of
output rows in the order collect() returns them; collect_set cells are sorted (a Python set has no order)."""
import itertools
import math
from fractions import Fraction

from common.coqlit import Err
from pysparkling import Context
from pysparkling.sql import functions as F
from pysparkling.sql.session import SparkSession
from pysparkling.sql.types import DoubleType, IntegerType, StringType, StructField, StructType

ID = 'C14'
KERNELS = ['Gen/AggMoments.v: csh_update_moments', 'Gen/AggMoments.v: csh_merge_moments',
           'Gen/AggMoments.v: csh_mean', 'Gen/AggMoments.v: csh_variance_pop', 'Gen/AggMoments.v: csh_variance_samp',
           'Gen/AggMoments.v: csh_skewness', 'Gen/AggMoments.v: csh_kurtosis']
SHARD = 150

COLS = ['k', 's', 'v', 'w']
K, S, V, W = range(4)
AGG = ['count', 'count_star', 'sum', 'avg', 'min', 'max', 'var_samp', 'var_pop', 'stddev_samp', 'stddev_pop',
       'skewness', 'kurtosis', 'collect_list', 'collect_set', 'countDistinct', 'sumDistinct',
       'first', 'first_ignorenulls', 'last', 'last_ignorenulls']
CODE = {n: i for i, n in enumerate(AGG)}
NUMERIC = ['sum', 'avg', 'var_samp', 'var_pop', 'stddev_samp', 'stddev_pop', 'skewness', 'kurtosis', 'sumDistinct']
ORDERED = ['collect_list', 'first', 'first_ignorenulls', 'last', 'last_ignorenulls']
DESCRIBE_COLS = [K, S, V, W]

RULE = ('cases (mode, key columns, pivot, aggregates, partitions of rows): tables of 0..6 rows over nullable columns '
        'k:int, s:string, v:int, w:double (doubles are small dyadic rationals so that every sum of them is exact in any '
        'order), every aggregate of the property alone, in pairs and all together, groupBy with 0..2 keys / rollup / cube / '
        'pivot over s (explicit values incl. an absent one, or inferred), describe / summary(count, mean, stddev, min, max) '
        'on the numeric columns; for each table ALL assignments of its rows to 1..3 partitions that keep row order inside '
        'a partition (exhaustive for the small tables, sampled for 5-6 rows in the quick tier) plus random assignments to '
        '<= 6 partitions with empty ones; about a third of the grouped cases have a twin whose agg() list SHARES aggregate '
        'Column objects (same object twice, aliased once or twice, two alias expressions around one object, objects that '
        'went through another rollup/pivot grouping first); non-trivial = at least two non-empty partitions or a subtotal/pivot mode; '
        'distinct by canonical JSON of the case')
ASSUMPTIONS = [
    'int -> float conversions are exact (|sum of a column| < 2^53; generators use |v| <= 10^4)',
    'values of the double column are dyadic rationals (k/8, |k| <= 80): sums over a Python set are then independent of '
    'the set iteration order; NaN, -0.0 and infinities are not generated',
    'key and pivot columns are int / string (no float keys); pivot value lists have no duplicates',
    'math.sqrt is the correctly rounded IEEE-754 square root (= PrimFloat.sqrt)',
    'percentile rows of summary() (approximate by design) are not requested',
    'string columns: count / min / max / collectors / first / last are judged; sum / avg / variance / stddev of a '
    'string column (TypeError -> null in ColumnStatHelper) are compared with the model only; skewness / kurtosis of a '
    'string column (TypeError raised by the read-out) and describe() of string columns are not generated',
]
TRUSTED = ['translator/kernels/c14.py (update_moments, merge_moments and the moment read-outs of ColumnStatHelper)',
           'PrimFloat arithmetic and sqrt as the meaning of CPython float arithmetic and math.sqrt',
           'the theorems about moment aggregates are over R (exact arithmetic): float rounding is covered only by the '
           'bit-exact correspondence and by the 1e-9 oracle']

_SCHEMA = StructType([StructField('k', IntegerType(), True), StructField('s', StringType(), True),
                      StructField('v', IntegerType(), True), StructField('w', DoubleType(), True)])
_state = {}


def _spark():
    if 'spark' not in _state:
        _state['sc'] = Context()
        _state['spark'] = SparkSession(_state['sc'])
    return _state['sc'], _state['spark']


def _reset():
    _state.clear()


def _fn(code, cols):
    name = AGG[code]
    c = [COLS[i] for i in cols]
    if name == 'count_star':
        return F.count('*')
    if name == 'countDistinct':
        return F.countDistinct(*c)
    if name == 'first':
        return F.first(c[0])
    if name == 'first_ignorenulls':
        return F.first(c[0], True)
    if name == 'last':
        return F.last(c[0])
    if name == 'last_ignorenulls':
        return F.last(c[0], True)
    table = {'count': F.count, 'sum': F.sum, 'avg': F.avg, 'min': F.min, 'max': F.max, 'var_samp': F.var_samp,
             'var_pop': F.var_pop, 'stddev_samp': F.stddev_samp, 'stddev_pop': F.stddev_pop, 'skewness': F.skewness,
             'kurtosis': F.kurtosis, 'collect_list': F.collect_list, 'collect_set': F.collect_set,
             'sumDistinct': F.sumDistinct}
    return table[name](c[0])


def _build(aggs):
    """The Column arguments of agg(); aggregates of one sharing group are ONE Python object."""
    shared = {}
    cols = []
    for i, (code, c, tag) in enumerate(aggs):
        if not tag:
            cols.append(_fn(code, c))
            continue
        gid, form = tag
        if gid not in shared:
            shared[gid] = _fn(code, c)
        obj = shared[gid]
        cols.append(obj if form == 0 else obj.alias(f'x{i}') if form == 1 else obj.alias(f'y{i}').alias(f'z{i}'))
    return cols


def _parse(text, col):
    if text is None:
        return None
    if col == S:
        return text
    return int(text) if col in (K, V) and 'n' not in text and '.' not in text and 'e' not in text else float(text)


def impl(case):
    mode, keycols, pivot, aggs, parts = case
    try:
        sc, spark = _spark()
        df = spark.createDataFrame(sc._parallelize_partitions([list(p) for p in parts]), _SCHEMA)  # pylint: disable=protected-access
        if mode in ('describe', 'summary'):
            names = [COLS[i] for i in DESCRIBE_COLS]
            if mode == 'describe':
                rows = df.describe(*names).collect()
            else:
                rows = df.select(*names).summary('count', 'mean', 'stddev', 'min', 'max').collect()
            out = []
            for r in rows:
                vals = list(r)
                stat = vals[0]
                cells = []
                for col, text in zip(DESCRIBE_COLS, vals[1:]):
                    cells.append(int(text) if stat == 'count' else
                                 (None if text is None else float(text)) if stat in ('mean', 'stddev') else _parse(text, col))
                out.append([stat] + cells)
            return out
        keys = [COLS[i] for i in keycols]
        columns = _build(aggs)
        if mode.endswith('*'):
            # the same Column objects in the aggregate list of another grouping, evaluated first
            other = ['s'] if keys != ['s'] else ['k']
            df.rollup(*other).agg(*columns).collect()
            df.groupBy(*other).pivot('s' if other != ['s'] else 'k', ['a', 1]).agg(*columns).collect()
        g = {'groupBy': df.groupBy, 'rollup': df.rollup, 'cube': df.cube}[mode.rstrip('*')](*keys)
        if pivot is not None:
            g = g.pivot(COLS[pivot[0]]) if pivot[1] is None else g.pivot(COLS[pivot[0]], list(pivot[1]))
        res = g.agg(*columns).collect()
    except Exception as e:  # pylint: disable=broad-except
        _reset()
        return Err(type(e).__name__)
    nk = len(keycols)
    out = []
    for r in res:
        vals = list(r)
        cells = vals[nk:]
        fixed = []
        for j, cell in enumerate(cells):
            code = aggs[j % len(aggs)][0]
            if AGG[code] == 'collect_set' and isinstance(cell, list):
                cell = sorted(cell)
            fixed.append(cell)
        out.append(vals[:nk] + fixed)
    return out


# ------------------------------------------------------------------------------------------------ oracle

def _close(a, b):
    if a is None or b is None:
        return a is None and b is None
    if isinstance(a, float) and math.isnan(a) or isinstance(b, float) and math.isnan(b):
        return isinstance(a, float) and isinstance(b, float) and math.isnan(a) and math.isnan(b)
    a, b = float(a), float(b)
    return abs(a - b) <= 1e-9 * max(1.0, abs(a), abs(b))


def _moments(vals):
    xs = [Fraction(x) for x in vals]
    n = len(xs)
    mu = sum(xs) / n
    return n, mu, [sum((x - mu) ** p for x in xs) for p in (2, 3, 4)]


def direct(name, rows, cols, exact_order):
    """The aggregate computed directly from the rows of one group.  Returns (kind, expected) where kind says how
    to compare: 'eq', 'close', 'multiset', 'member' (for order-dependent results when the row order inside the group
    is not fixed by the property)."""
    col = cols[0] if cols else None
    allv = [r[col] for r in rows] if col is not None else []
    vals = [x for x in allv if x is not None]
    if name == 'count_star':
        return 'eq', len(rows)
    if col == S and name in NUMERIC:
        return 'skip', None      # numeric aggregates of a string column: no claim (the implementation yields null)
    if name == 'count':
        return 'eq', len(vals)
    if name == 'countDistinct':
        tuples = {tuple(r[c] for c in cols) for r in rows if all(r[c] is not None for c in cols)}
        return 'eq', len(tuples)
    if name == 'sum':
        return ('eq' if col != W else 'close'), (sum(Fraction(x) for x in vals) if vals else None)
    if name == 'sumDistinct':
        return ('eq' if col != W else 'close'), (sum(Fraction(x) for x in set(vals)) if vals else None)
    if name == 'min':
        return 'eq', (min(vals) if vals else None)
    if name == 'max':
        return 'eq', (max(vals) if vals else None)
    if name == 'collect_list':
        return ('eq' if exact_order else 'multiset'), list(vals)
    if name == 'collect_set':
        return 'eq', sorted(set(vals))
    if name == 'first':
        return ('eq', allv[0] if allv else None) if exact_order else ('member', allv)
    if name == 'last':
        return ('eq', allv[-1] if allv else None) if exact_order else ('member', allv)
    if name == 'first_ignorenulls':
        return ('eq', vals[0] if vals else None) if exact_order else ('member', vals or [None])
    if name == 'last_ignorenulls':
        return ('eq', vals[-1] if vals else None) if exact_order else ('member', vals or [None])
    if not vals:
        return 'eq', None
    n, mu, (m2, m3, m4) = _moments(vals)
    if name == 'avg':
        return 'close', mu
    if name == 'var_pop':
        return 'close', m2 / n
    if name == 'var_samp':
        return 'close', (m2 / (n - 1) if n > 1 else None)
    if name == 'stddev_pop':
        return 'close', math.sqrt(m2 / n)
    if name == 'stddev_samp':
        return 'close', (math.sqrt(m2 / (n - 1)) if n > 1 else None)
    if name == 'skewness':
        return 'close', (float('nan') if m2 == 0 else math.sqrt(n) * float(m3) / float(m2) ** 1.5)
    if name == 'kurtosis':
        return 'close', (float('nan') if m2 == 0 else float(n * m4 / (m2 * m2)) - 3.0)
    raise ValueError(name)


def _cmp(kind, want, got):
    if kind == 'skip':
        return True
    if kind == 'eq':
        if isinstance(want, Fraction):
            return got is not None and not isinstance(got, list) and Fraction(got) == want
        return type(got) is type(want) and got == want
    if kind == 'close':
        return _close(want, got)
    if kind == 'multiset':
        return isinstance(got, list) and sorted(got) == sorted(want)
    if kind == 'member':
        return any(got == w and type(got) is type(w) for w in want) or (not want and got is None)
    return False


def subtotal_patterns(mode, nk):
    """Which key positions are replaced by the subtotal marker, per output family."""
    if mode == 'groupBy':
        return [tuple([False] * nk)]
    if mode == 'rollup':
        return [tuple([False] * i + [True] * (nk - i)) for i in range(nk + 1)]
    return list(itertools.product([True, False], repeat=nk))


class _Sub:
    def __repr__(self):
        return 'SUB'


SUB = _Sub()


def expected_groups(mode, keycols, rows):
    """{marked key: rows}; a marked key has SUB at subtotal positions."""
    groups = {}
    nk = len(keycols)
    for pat in subtotal_patterns(mode, nk):
        for r in rows:
            key = tuple(SUB if pat[i] else r[keycols[i]] for i in range(nk))
            groups.setdefault(key, []).append(r)
    return groups


def pivot_values(pivot, rows):
    if pivot is None:
        return [None]
    if pivot[1] is not None:
        return list(pivot[1])
    return sorted({r[pivot[0]] for r in rows if r[pivot[0]] is not None})


def _site(case):
    mode, _, pivot, _, _ = case
    return mode + ('.pivot' if pivot is not None else '')


def oracle_describe(case, result):
    mode, _, _, _, parts = case
    rows = [r for p in parts for r in p]
    site = f'DataFrame.{mode}'
    if isinstance(result, Err):
        return (f'{site}:raises', f'{mode} raised {result.name}')
    stats = ['count', 'mean', 'stddev', 'min', 'max']
    if [r[0] for r in result] != stats:
        return (f'{site}:rows', f'statistic rows are {[r[0] for r in result]}')
    if not rows:
        return None if all(len(r) == 1 for r in result) else (f'{site}:empty', f'empty table gave {result}')
    table = {'count': 'count', 'mean': 'avg', 'stddev': 'stddev_samp', 'min': 'min', 'max': 'max'}
    # agreement with the aggregates of the same (whole-table) group, computed by agg() on the same partitions
    agg_case = ('groupBy', [], None, [(CODE[table[s]], [c], 0) for s in stats for c in DESCRIBE_COLS], parts)
    agg_res = impl(agg_case)
    for i, st in enumerate(stats):
        for j, c in enumerate(DESCRIBE_COLS):
            got = result[i][1 + j]
            kind, want = direct(table[st], rows, [c], True)
            if not _cmp(kind, want, got):
                return (f'{site}:{st}:direct', f'{st}({COLS[c]}) = {got!r}, direct computation gives {want!r}; parts={parts}')
            if isinstance(agg_res, list) and len(agg_res) == 1:
                other = agg_res[0][i * len(DESCRIBE_COLS) + j]
                if not _same(other, got):
                    return (f'{site}:{st}:agg-disagrees', f'{st}({COLS[c]}) = {got!r} but agg() gives {other!r}; parts={parts}')
    return None


def _same(a, b):
    if isinstance(a, float) and isinstance(b, float):
        return a == b or (math.isnan(a) and math.isnan(b))
    return type(a) is type(b) and a == b


def oracle(case, result):
    """C14 executed on the implementation's result: one row per distinct (marked) key combination, every cell equal
    to the direct computation over that group's rows (in the pivot case: over the group's rows with that pivot
    value)."""
    mode, keycols, pivot, aggs, parts = case
    if mode in ('describe', 'summary'):
        return oracle_describe(case, result)
    mode = mode.rstrip('*')
    case = (mode, keycols, pivot, aggs, parts)
    site = _site(case)
    names = '+'.join(sorted({AGG[c] for c, _, _ in aggs}))
    if isinstance(result, Err):
        return (f'{site}:raises:{names}', f'agg raised {result.name}; case={case}')
    rows = [r for p in parts for r in p]
    nk = len(keycols)
    groups = expected_groups(mode, keycols, rows)
    pvs = pivot_values(pivot, rows)
    width = nk + len(pvs) * len(aggs)
    if any(len(r) != width for r in result):
        return (f'{site}:row-width', f'rows of width {[len(r) for r in result]}, expected {width}; case={case}')
    # one row per distinct key combination: match output rows to expected groups.  A subtotal position shows as
    # null, like a null key value, so output rows are matched to marked keys by shown key AND cell contents.
    shown = {}
    for key, grows in groups.items():
        shown.setdefault(tuple(None if x is SUB else x for x in key), []).append((key, grows))
    if len(result) != len(groups):
        return (f'{site}:row-count', f'{len(result)} rows for {len(groups)} distinct key combinations; case={case}')
    by_key = {}
    for r in result:
        by_key.setdefault(tuple(r[:nk]), []).append(r)
    for key, rs in by_key.items():
        cands = shown.get(key)
        if not cands or len(cands) != len(rs):
            return (f'{site}:unexpected-key', f'{len(rs)} rows with key {key}, expected {len(cands or [])}; case={case}')
    # a subtotal position shows as null, like a null key: rows with the same shown key are matched to the marked keys
    # by their cells (best assignment; at most 4 candidates per shown key)
    for key, rs in by_key.items():
        cands = shown[key]
        best = None
        for perm in itertools.permutations(range(len(cands))):
            fails = [f for f in (_check_cells(site, mode, case, r, cands[j][0], cands[j][1], pvs)
                                 for r, j in zip(rs, perm)) if f is not None]
            if not fails:
                best = []
                break
            score = (len(fails), sum(1 for f in fails if not f[0].startswith('pivot.agg:last:')))
            if best is None or score < best[0]:
                best = (score, fails)
        if best:
            return best[1][0]
    return None


def last_defect_applies(case, mkey, grows, pv, got):
    """The finding of this check, repaired in /repo by cee87a5 (kept as a specific signature): Last.mergeStats
    (ignore_nulls=False) overwrote its value with the initial None of a partial that saw no row.  Such partials only
    exist under pivot (a slot of a group that has rows for other pivot values)."""
    _, keycols, pivot, _, parts = case
    if pivot is None or got is not None:
        return False

    def in_group(r):
        return all(m is SUB or (r[c] == m and type(r[c]) is type(m)) for c, m in zip(keycols, mkey))

    def in_cell(r):
        return r[pivot[0]] is not None and r[pivot[0]] == pv
    for p in parts:
        g = [r for r in p if in_group(r)]
        if g and not any(in_cell(r) for r in g):
            return True
    if SUB in mkey:
        fine = {}
        for r in grows:
            fine.setdefault(tuple(r[c] for c in keycols), []).append(r)
        return any(not any(in_cell(r) for r in rs) for rs in fine.values())
    return False


def _check_cells(site, mode, case, r, mkey, grows, pvs):
    _, keycols, pivot, aggs, _ = case
    nk = len(keycols)
    exact_order = SUB not in mkey
    for pi, pv in enumerate(pvs):
        cell_rows = grows if pivot is None else [x for x in grows if x[pivot[0]] == pv and x[pivot[0]] is not None]
        for ai, (code, cols, _) in enumerate(aggs):
            got = r[nk + pi * len(aggs) + ai]
            kind, want = direct(AGG[code], cell_rows, cols, exact_order)
            if not _cmp(kind, want, got):
                if AGG[code] == 'last' and last_defect_applies(case, mkey, grows, pv, got):
                    return ('pivot.agg:last:null-after-a-partial-of-the-group-without-a-row-for-the-pivot-value',
                            f'last({COLS[cols[0]]}) for key {mkey} pivot {pv!r} is None, the cell has rows '
                            f'{[x[cols[0]] for x in cell_rows]}; case={case}')
                empty = 'empty-cell' if not cell_rows else 'cell'
                return (f'{site}:{AGG[code]}:{empty}',
                        f'{AGG[code]}({",".join(COLS[c] for c in cols)}) for key {mkey} pivot {pv!r} is {got!r}, '
                        f'direct computation over the group gives {want!r} ({kind}); case={case}')
    return None


# ------------------------------------------------------------------------------------------------ generation

INT_POOL = [0, 1, 2, 3, 5, -1, -4, 7, 10, 100, 9999, -10000]
DBL_POOL = [0.5, 1.5, -2.25, 3.0, 0.125, 10.0, -0.5, 2.0, 7.75, 1.0]
KEY_POOL = [1, 2, 3, None]
STR_POOL = ['a', 'b', 'c', None]


def gen_row(rng, null_p=0.25):
    k = rng.choice(KEY_POOL)
    s = rng.choice(STR_POOL)
    v = None if rng.random() < null_p else rng.choice(INT_POOL)
    w = None if rng.random() < null_p else rng.choice(DBL_POOL)
    return (k, s, v, w)


def gen_table(rng, n):
    style = rng.random()
    if style < 0.15:       # one value column entirely null for one key
        rows = [gen_row(rng) for _ in range(n)]
        return [(k, s, None if k == 1 else v, None if k == 2 else w) for k, s, v, w in rows]
    if style < 0.3:        # few distinct values (duplicates for the distinct aggregates)
        rows = []
        for _ in range(n):
            rows.append((rng.choice([1, None]), rng.choice(['a', 'b']), rng.choice([1, 1, 2, None]), rng.choice([0.5, 0.5, 1.5, None])))
        return rows
    return [gen_row(rng) for _ in range(n)]


def all_assignments(n, p):
    """All assignments of n rows to p labelled partitions (row order kept inside each partition)."""
    return itertools.product(range(p), repeat=n)


def split(rows, assign, p):
    parts = [[] for _ in range(p)]
    for r, a in zip(rows, assign):
        parts[a].append(r)
    return parts


def agg_sets(rng, tier):
    """Aggregate lists: each alone, pairs, and everything together."""
    def spec(name, rng_):
        if name == 'count_star':
            return (CODE[name], [], 0)
        if name == 'countDistinct':
            return (CODE[name], rng_.choice([[V], [W], [S], [V, W], [K, S], [S, V]]), 0)
        if name in ('min', 'max'):
            return (CODE[name], [rng_.choice([V, W, S, K])], 0)
        if name in NUMERIC:
            return (CODE[name], [rng_.choice([V, W, V, W, K])], 0)
        return (CODE[name], [rng_.choice([V, W, S, V, W])], 0)
    singles = [[spec(n, rng)] for n in AGG] + [[spec(n, rng)] for n in AGG]
    pairs = [[spec(a, rng), spec(b, rng)] for a, b in itertools.combinations(AGG, 2)]
    rng.shuffle(pairs)
    everything = [[spec(n, rng) for n in AGG], [(CODE[n], [V], 0) for n in AGG if n != 'count_star'],
                  [(CODE[n], [W], 0) for n in AGG if n != 'count_star']]
    return singles, pairs, everything


def share_variant(rng, aggs, prior_ok=True):
    """The same aggregate list with some aggregate Column objects SHARED: a spec is repeated (the very same object
    twice, an aliased copy, a doubly aliased copy, or two different alias expressions around the one object)."""
    aggs = [(c, cols, 0) for c, cols, _ in aggs]
    k = rng.randint(1, min(3, len(aggs)))
    out = list(aggs)
    for g, idx in enumerate(rng.sample(range(len(aggs)), k), 1):
        code, cols, _ = aggs[idx]
        style = rng.randrange(4)
        first = (g, 0) if style < 3 else (g, 1)          # style 3: two different alias expressions, no bare object
        pos = out.index(aggs[idx])
        out[pos] = (code, cols, first)
        extra = [(code, cols, (g, [0, 1, 2, 2][style]))]
        if rng.random() < 0.25:
            extra.append((code, cols, (g, rng.randrange(3))))
        for e in extra:
            out.insert(rng.randint(0, len(out)), e)
    return out


def modes(rng):
    """(mode, keycols, pivot) combinations."""
    out = [('groupBy', [K], None), ('groupBy', [S], None), ('groupBy', [K, S], None), ('groupBy', [], None),
           ('rollup', [K, S], None), ('rollup', [K], None), ('cube', [K, S], None), ('cube', [S], None),
           ('groupBy', [K], (S, ['a', 'b'])), ('groupBy', [K], (S, None)), ('groupBy', [K], (S, ['b', 'z', 'a'])),
           ('groupBy', [], (S, ['a', 'b', 'c'])), ('rollup', [K], (S, ['a', 'b'])), ('cube', [K], (S, None))]
    return out


def systematic_cases():
    """Deterministic cases at the head of the stream (both tiers, every seed).

    (a) rollup / cube over two key columns with the order-keeping / collecting aggregates, on tables where the group met
        FIRST has only nulls in the collected column, a second group shares two subtotals with it (same k) and a third
        group shares only the grand total (other k): aliasing between subtotal accumulators must show in the list
        contents of some subtotal.  All assignments of the rows to 1..3 partitions.
    (b) min / max / count over the STRING column (agg, rollup / cube subtotals, describe, summary) where the extreme value
        is not in the first partial: the group is spread over >= 2 partitions, or >= 2 groups lie under one subtotal, and
        the minimum / maximum sits in the second / last partial."""
    out = []
    coll = [(CODE[n], [c], 0) for c in (V, W) for n in ('collect_list', 'collect_set', 'first', 'first_ignorenulls',
                                                         'last', 'last_ignorenulls', 'count')]
    tables = [
        [(1, 'a', None, None), (1, 'b', 3, 0.5), (2, 'a', 5, 1.5)],
        [(1, 'a', None, None), (1, 'b', 3, 0.5), (2, 'b', 5, 1.5), (1, 'b', 7, 2.0)],
        [(None, 'a', None, None), (None, None, 3, 0.5), (2, None, 5, 1.5), (2, 'a', 3, 0.5)],
        [(1, 'a', None, None), (1, 'a', None, None), (1, 'b', 3, 0.5), (2, 'c', 5, 1.5)],
    ]
    for ti, rows in enumerate(tables):
        n = len(rows)
        for mode, keys in (('rollup', [K, S]), ('cube', [K, S])) + ((('rollup', [S, K]), ('cube', [S, K])) if ti == 0 else ()):
            three = [a for a in all_assignments(n, 3) if len(set(a)) == 3]
            assigns = [(0,) * n] + list(all_assignments(n, 2))[1:-1] + three[::max(1, len(three) // 8)]
            for a in assigns:
                out.append((mode, keys, None, coll, split(rows, a, max(a) + 1)))
    strs = [(CODE['min'], [S], 0), (CODE['max'], [S], 0), (CODE['count'], [S], 0), (CODE['min'], [V], 0)]
    stables = [
        [(1, 'b', 1, 0.5), (1, 'a', 2, 1.5), (1, 'c', 3, 0.5)],              # min in the 2nd, max in the last
        [(1, 'b', 1, 0.5), (2, 'a', 2, 1.5), (2, 'c', 3, 0.5), (1, None, 4, 1.0)],   # extremes in the 2nd group
        [(1, None, 1, 0.5), (1, 'c', 2, 1.5), (2, 'b', 3, 0.5), (2, 'a', 0, 1.0)],
        [(None, 'bb', 1, 0.5), (None, 'b', 2, 1.5), (3, 'ba', 3, 0.5), (3, 'a', 3, 1.0)],
    ]
    for rows in stables:
        n = len(rows)
        parts_list = [[rows], [[r] for r in rows], [rows[:1], rows[1:]], [rows[:1], [], rows[1:]],
                      [rows[:2], rows[2:]], [rows[:-1], rows[-1:]]]
        for parts in parts_list:
            for mode, keys in (('groupBy', [K]), ('groupBy', []), ('rollup', [K]), ('cube', [K, V]), ('rollup', [K, W])):
                out.append((mode, keys, None, strs, parts))
            out.append(('groupBy', [K], (W, [0.5, 1.5]), strs[:3], parts) if False else ('groupBy', [], None, strs[:2], parts))
            out.append(('describe', [], None, [], parts))
            out.append(('summary', [], None, [], parts))
    return out


def load_corpus():
    import glob
    import json
    import os
    from common.coqlit import uncanon
    root = os.path.join(os.environ.get('VERIF_ROOT', '/verif'), 'corpus', 'C14')
    out = []
    for path in sorted(glob.glob(os.path.join(root, '*.json'))):
        out.append(uncanon(json.load(open(path))['case']))
    return out


def generate(rng, tier):
    quick = tier == 'quick'
    cases = []
    singles, pairs, everything = agg_sets(rng, tier)
    mds = modes(rng)
    # corpus-like minimal cases first: a partial that saw no non-null value, all-null group in two partitions
    seeds = [
        ('groupBy', [K], None, everything[0], [[(1, 'a', 3, 0.5)], [(1, 'b', None, None)]]),
        ('groupBy', [K], None, everything[0], [[(1, 'a', None, None)], [(1, 'b', None, None)]]),
        ('groupBy', [K], None, everything[0], [[(1, 'a', None, None)], [], [(1, 'b', 4, 1.5), (None, None, 1, 0.5)]]),
        ('groupBy', [K], (S, ['a', 'b']), everything[1], [[(1, 'a', 3, 0.5)], [(1, 'b', 4, None)]]),
        ('groupBy', [K], None, everything[0], [[], []]),
        ('groupBy', [K], None, everything[0], []),
        ('describe', [], None, [], [[(1, 'a', 3, 0.5)], [], [(2, 'b', None, None), (2, 'b', 5, 1.5)]]),
        ('summary', [], None, [], [[(1, 'a', None, 0.5)], [(2, 'b', None, None)]]),
        ('describe', [], None, [], [[], []]),
        ('summary', [], None, [], []),
    ]
    cases.extend(seeds)
    cases.extend(load_corpus())
    cases.extend(systematic_cases())

    # (1) exhaustive assignments to <= 3 partitions: tables of 1..4 rows (3^n assignments each, all of them),
    #     with all aggregates together, cycling through the modes
    n_tables = {1: 2, 2: 3, 3: 4, 4: 4 if quick else 12}
    mi = rng.randrange(len(mds))
    for n, cnt in n_tables.items():
        for _ in range(cnt):
            rows = gen_table(rng, n)
            md = mds[mi % len(mds)]
            mi += 1
            aggs = everything[mi % len(everything)]
            for p in (1, 2, 3):
                for assign in all_assignments(n, p):
                    cases.append((md[0], md[1], md[2], aggs, split(rows, assign, p)))
    # (2) tables of 5 and 6 rows: all 3^n assignments in the thorough tier, a sample in the quick tier
    for n in (5, 6):
        for _ in range(2 if quick else 12):
            rows = gen_table(rng, n)
            md = mds[mi % len(mds)]
            mi += 1
            aggs = everything[mi % len(everything)]
            allas = list(all_assignments(n, 3))
            if quick:
                allas = rng.sample(allas, 120)
            for assign in allas:
                cases.append((md[0], md[1], md[2], aggs, split(rows, assign, 3)))
    # (3) every aggregate alone and in pairs x every mode, random tables, random assignment to <= 6 partitions
    combos = [(a, m) for a in singles for m in mds]
    pair_combos = [(a, mds[i % len(mds)]) for i, a in enumerate(pairs)]
    if quick:
        combos = rng.sample(combos, 420)
    else:
        combos = combos * 10
        pair_combos = [(a, mds[(i + j) % len(mds)]) for j in range(16) for i, a in enumerate(pairs)]
    for aggs, md in combos + pair_combos:
        n = rng.randint(1, 6)
        rows = gen_table(rng, n)
        p = rng.randint(1, 6)
        assign = [rng.randrange(p) for _ in range(n)]
        cases.append((md[0], md[1], md[2], aggs, split(rows, assign, p)))
        if rng.random() < 0.5:
            cases.append((md[0], md[1], md[2], aggs, [rows]))    # the single-partition reference
    # (3b) the TypeError -> None path of ColumnStatHelper: numeric aggregates over the string column (correspondence
    #      only, the oracle makes no claim about them), min / max / count of strings (judged)
    strnames = ['count', 'sum', 'avg', 'min', 'max', 'var_samp', 'var_pop', 'stddev_samp', 'stddev_pop']
    for i in range(60 if quick else 900):
        n = rng.randint(1, 6)
        rows = gen_table(rng, n)
        p = rng.randint(1, 4)
        assign = [rng.randrange(p) for _ in range(n)]
        aggs = [(CODE[rng.choice(strnames)], [S], 0) for _ in range(rng.randint(1, 3))]
        md = mds[i % len(mds)]
        cases.append((md[0], md[1], md[2], aggs, split(rows, assign, p)))
    # (3c) shared aggregate Column objects: every third grouped case gets a twin whose agg() list reuses Column
    #      objects (and, for some, whose objects went through another grouping first); the model treats aggregators
    #      as values, so the expected rows only gain the repeated columns
    twins = []
    for i, (mode, keycols, pivot, aggs, parts) in enumerate(cases):
        if aggs and rng.random() < (0.4 if quick else 0.33):
            sub = aggs if len(aggs) <= 4 else rng.sample(aggs, rng.randint(2, 5))
            m2 = mode + '*' if rng.random() < 0.3 else mode
            twins.append((m2, keycols, pivot, share_variant(rng, sub), parts))
    if quick:
        twins = rng.sample(twins, min(len(twins), 450))
    cases.extend(twins)
    # (4) describe / summary
    for _ in range(80 if quick else 1200):
        n = rng.randint(0, 6)
        rows = gen_table(rng, n)
        p = rng.randint(1, 5)
        assign = [rng.randrange(p) for _ in range(n)]
        cases.append((rng.choice(['describe', 'summary']), [], None, [], split(rows, assign, p)))
    return cases


def kind(case):
    mode, keycols, pivot, aggs, parts = case
    shared = '.shared' if any(t for _, _, t in aggs) else ''
    return f'{mode}{len(keycols)}' + ('.pivot' if pivot is not None else '') + (f'/{len(aggs)}agg' if aggs else '') + shared


def nontrivial(case, result):
    mode, _, pivot, _, parts = case
    return sum(1 for p in parts if p) >= 2 or (mode.rstrip('*') in ('rollup', 'cube') or pivot is not None) and any(parts)


def shrink_candidates(case):
    mode, keycols, pivot, aggs, parts = case
    if len(aggs) > 1:
        for i in range(len(aggs)):
            yield (mode, keycols, pivot, aggs[:i] + aggs[i + 1:], parts)
    for i, p in enumerate(parts):
        for j in range(len(p)):
            yield (mode, keycols, pivot, aggs, parts[:i] + [p[:j] + p[j + 1:]] + parts[i + 1:])
    for i, p in enumerate(parts):
        if not p and len(parts) > 1:
            yield (mode, keycols, pivot, aggs, parts[:i] + parts[i + 1:])
    if mode.endswith('*'):
        yield (mode.rstrip('*'), keycols, pivot, aggs, parts)
    if mode in ('rollup', 'cube'):
        yield ('groupBy', keycols, pivot, aggs, parts)
    if pivot is not None and pivot[1] is None:
        rows = [r for p in parts for r in p]
        yield (mode, keycols, (pivot[0], pivot_values(pivot, rows)), aggs, parts)
