"""C02 -- keyed, join and set operations follow Spark's multiset semantics.

case = (op, left_parts, right_parts, numPartitions, extra)
  op            index into OPS
  left_parts    the partitions of `self` (list of lists; keyed ops: elements are (key, value) tuples)
  right_parts   the partitions of `other` ([] for unary ops)
  numPartitions None or an int, passed where the method has that parameter
  extra         function-library code (reduceByKey/foldByKey/aggregateByKey) or the ascending flag (sortByKey)

The implementation side builds both RDDs with Context()._parallelize_partitions (arbitrary partitionings,
empty partitions included), calls the real method and returns (elements, partition sizes):
elements in collect() order where the code fixes the order (dict insertion order), canonically sorted where
the order comes from a Python set (cogroup, fullOuterJoin, subtractByKey, distinct, intersection); for
fullOuterJoin/subtractByKey the pairs are first grouped per key in output order so that the per-key order
survives the sorting."""
import functools
import itertools

from common.coqlit import Err
from pysparkling import Context

ID = 'C02'
KERNELS = ['Gen/Parallelize.v: par_take', 'Gen/Parallelize.v: par_single',
           'Gen/KeyedJoin.v: gen_join_fn', 'Gen/KeyedJoin.v: gen_loj_fn', 'Gen/KeyedJoin.v: gen_roj_fn',
           'Gen/KeyedJoin.v: gen_foj_fn', 'Gen/KeyedJoin.v: gen_semi_fn', 'Gen/KeyedJoin.v: gen_anti_fn',
           'Gen/KeyedJoin.v: gen_subk_keep', 'Gen/KeyedJoin.v: gen_group_step']

OPS = ['groupByKey', 'reduceByKey', 'foldByKey', 'aggregateByKey', 'countByKey', 'cogroup', 'join',
       'leftOuterJoin', 'rightOuterJoin', 'fullOuterJoin', 'subtractByKey', 'subtract', 'distinct',
       'intersection', 'cartesian', 'sortByKey', '_leftSemiJoin', '_leftAntiJoin', 'repartition', 'partitionBy',
       'sequence']
(GROUP, REDUCE, FOLD, AGG, COUNT, COGROUP, JOIN, LOJ, ROJ, FOJ, SUBK, SUB, DISTINCT, INTER, CART, SORT, SEMI,
 ANTI, REPART, PARTBY, SEQ) = range(21)
SINGLE_OPS = 18       # the ops drawn by the random / exhaustive generators of single calls
JOIN_FAMILY = [COGROUP, JOIN, LOJ, ROJ, FOJ, SUBK, SEMI, ANTI]
BINARY = {COGROUP, JOIN, LOJ, ROJ, FOJ, SUBK, SUB, INTER, CART, SEMI, ANTI}
KEYED = {GROUP, REDUCE, FOLD, AGG, COUNT, COGROUP, JOIN, LOJ, ROJ, FOJ, SUBK, SORT, SEMI, ANTI}
HAS_NP = {GROUP, REDUCE, COGROUP, JOIN, LOJ, ROJ, FOJ, SUBK, SUB, DISTINCT, SORT, REPART, PARTBY}
SET_ORDERED = {COGROUP, FOJ, SUBK, DISTINCT, INTER, REPART, PARTBY}

RULE = ('cases (op, self, other, numPartitions, function code | steps); an input is either its explicit partitions '
        '(built with _parallelize_partitions) or (n, xs) = the real Context.parallelize(xs, n). '
        '(1) every op of the property (+ semi/anti joins) x key-value lists of length 0-6 over a small key domain '
        '(ints, None, tuples, strings; duplicates frequent; an unhashable key now and then -> TypeError) with values '
        'from ints, strings, None, lists, tuples x random partitionings of both sides (empty and zero partitions '
        'included) x numPartitions in {None,0,1,2,3,5,7,11,13,17,23,32}; exhaustive for both sides of length <= 2 '
        'over 2 keys x all partitionings into <= 2 (quick) / 3 pieces. '
        '(2) sequences: 2-5 join-family calls (join, outer joins, cogroup, subtractByKey, semi/anti; either RDD as '
        'self) on the SAME two RDD objects, each evaluated (glom, collect, count) before the next call; all ordered '
        'pairs of calls on a fixed pair with keys missing on either side, plus random sequences. '
        '(3) boundary sweep: element count L in 1..40 (distinct keys) x partition count n in 1..32 for '
        'groupByKey/reduceByKey/join/distinct/sortByKey/repartition/partitionBy, n used both as the slice count of a '
        'real parallelize input and as numPartitions (quick: 2 cases per (L, n) through the correspondence and the '
        'full sweep judged by the oracle alone; thorough: the full sweep through the correspondence). '
        'non-trivial = at least 2 input elements in total or an error; distinct by canonical JSON of the case')
ASSUMPTIONS = [
    'key / element equality is structural on the generated domain (no mixing of True/1/1.0, no NaN, no floats)',
    'Python set iteration order is not modelled: set-ordered results are compared after canonical sorting',
    'reduceByKey/foldByKey/aggregateByKey functions come from the finite library in Model/Keyed.v (bin_fn, agg_fn); '
    'operands of + are kept of one type per case so that the functions do not raise',
    'sortByKey keys: homogeneous ints, strings or int tuples, or mixed/None keys (TypeError when 2+ elements)',
    'int(i*len/n) in Context.parallelize is exact (lengths are far below 2^53)',
]
TRUSTED = ['translator kernels par_take, par_single (Gen/Parallelize.v) and translator/kernels/c02.py (Gen/KeyedJoin.v)',
           'canonical order: ckey (py/c02.py) and pv_cmp (Model/Keyed.v) define the same total order']


# ------------------------------------------------------------------------------------------------
# function library (twins of bin_fn / agg_fn in coq/Model/Keyed.v)
def _append_inplace(acc, v):
    acc.append(v)
    return acc


def _extend_inplace(a, b):
    a.extend(b)
    return a


BIN = {
    0: lambda a, b: a + b,
    1: max,
    2: lambda a, b: a - b,
    3: lambda a, b: a,
    4: lambda a, b: b,
    5: lambda a, b: (a, b),
}
# code -> (zero factory, seqFunc, combFunc, homomorphic: Spark's result is defined and partition independent)
AGGS = {
    0: (lambda: 0, lambda a, v: a + v, lambda a, b: a + b, True),
    1: (lambda: [], lambda a, v: a + [v], lambda a, b: a + b, True),
    2: (lambda: [], _append_inplace, _extend_inplace, True),
    3: (lambda: 1, lambda a, v: a + v, lambda a, b: a + b, False),
    4: (lambda: 0, lambda a, v: a + 1, lambda a, b: a + b, True),
    5: (lambda: 0, lambda a, v: a - v, lambda a, b: a - b, False),
    6: (lambda: (0, 0), lambda a, v: (a[0] + v, a[1] + 1), lambda a, b: (a[0] + b[0], a[1] + b[1]), True),
    7: (lambda: (), lambda a, v: (a, v), lambda a, b: (a, b), False),
}
# foldByKey: (zero factory, op code, neutral zero and associative op)
FOLDS = {
    0: (lambda: 0, 0, True),
    1: (lambda: 1, 0, False),
    2: (lambda: [], 0, True),
    3: (lambda: -1000, 1, True),
    4: (lambda: 0, 2, False),
    5: (lambda: None, 5, False),
}
INT_ONLY_BIN = {1, 2}          # value type the function needs: ints
INT_ONLY_AGG = {0, 3, 5, 6}
INT_ONLY_FOLD = {0, 1, 3, 4}
LIST_ONLY_FOLD = {2}


# ------------------------------------------------------------------------------------------------
def ckey(v):
    """Canonical total order on the generated universe (twin of pv_cmp in Model/Keyed.v)."""
    if v is None:
        return (0,)
    if isinstance(v, bool):
        return (1, int(v))
    if isinstance(v, int):
        return (2, v)
    if isinstance(v, str):
        return (3, [ord(c) for c in v])
    if isinstance(v, tuple):
        return (4, [ckey(x) for x in v])
    if isinstance(v, list):
        return (5, [ckey(x) for x in v])
    raise TypeError(f'outside the modelled universe: {v!r}')


def csorted(xs):
    return sorted(xs, key=ckey)


def group_canon(pairs):
    """[(k, payload)] -> canonically sorted [(k, [payloads in output order])]."""
    d = {}
    for k, p in pairs:
        d.setdefault(k, []).append(p)
    return csorted([(k, ps) for k, ps in d.items()])


def flat(parts):
    """Elements of an input: explicit partitions (list of lists) or (n, xs) = Context.parallelize(xs, n)."""
    if isinstance(parts, tuple):
        return list(parts[1])
    return [x for p in parts for x in p]


def mk_rdd(ctx, parts):
    if isinstance(parts, tuple):
        return ctx.parallelize(_fresh(list(parts[1])), parts[0])
    return ctx._parallelize_partitions(_fresh(parts))  # pylint: disable=protected-access


def kind(c):
    if c[0] == SEQ:
        return 'sequence'
    if isinstance(c[1], tuple) or isinstance(c[2], tuple):
        return OPS[c[0]] + '/sliced'
    return OPS[c[0]]


def _fresh(x):
    """A structural copy (the function library may mutate accumulators; inputs are rebuilt per run)."""
    if isinstance(x, list):
        return [_fresh(y) for y in x]
    if isinstance(x, tuple):
        return tuple(_fresh(y) for y in x)
    return x


def apply_op(op, a, b, np_, extra):
    """Call the real method on the RDD objects a (self) and b (other); returns the RDD (countByKey: the dict)."""
    if op == GROUP:
        return a.groupByKey(np_)
    if op == REDUCE:
        return a.reduceByKey(BIN[extra], np_)
    if op == FOLD:
        z, f, _ = FOLDS[extra]
        return a.foldByKey(z(), BIN[f])
    if op == AGG:
        z, s, cmb, _ = AGGS[extra]
        return a.aggregateByKey(z(), s, cmb, np_)
    if op == COUNT:
        return a.countByKey()
    if op == COGROUP:
        return a.cogroup(b, np_)
    if op == JOIN:
        return a.join(b, np_)
    if op == LOJ:
        return a.leftOuterJoin(b, np_)
    if op == ROJ:
        return a.rightOuterJoin(b, np_)
    if op == FOJ:
        return a.fullOuterJoin(b, np_)
    if op == SUBK:
        return a.subtractByKey(b, np_)
    if op == SUB:
        return a.subtract(b, np_)
    if op == DISTINCT:
        return a.distinct(np_)
    if op == INTER:
        return a.intersection(b)
    if op == CART:
        return a.cartesian(b)
    if op == SORT:
        return a.sortByKey(bool(extra), np_)
    if op == SEMI:
        return a._leftSemiJoin(b)  # pylint: disable=protected-access
    if op == ANTI:
        return a._leftAntiJoin(b)  # pylint: disable=protected-access
    if op == REPART:
        return a.repartition(np_)
    if op == PARTBY:
        return a.partitionBy(np_)
    raise ValueError(op)


def evaluate(op, r):
    """Evaluate the result (twice: glom and collect must agree); returns (canonical elements, glom sizes or None)."""
    if op == COUNT:
        return list(r.items()), None
    parts = r.glom().collect()
    out = r.collect()
    if op in SET_ORDERED:
        if _multiset(flat(parts)) != _multiset(out):
            raise AssertionError('glom/collect disagree')
    elif flat(parts) != out:
        raise AssertionError('glom/collect disagree')
    if r.count() != len(out):
        raise AssertionError('count/collect disagree')
    return canon_out(op, out), (None if op in (REPART, PARTBY) else [len(p) for p in parts])


def call(c):
    """Run the real method(s) on freshly built RDDs."""
    op, lp, rp, np_, extra = c
    ctx = Context()
    a = mk_rdd(ctx, lp)
    if op == SEQ:
        b = mk_rdd(ctx, rp)
        res = []
        for sop, swapped in extra:
            # each result is evaluated before the next method is called on the same two objects
            r = apply_op(sop, b, a, np_, 0) if swapped else apply_op(sop, a, b, np_, 0)
            res.append(evaluate(sop, r))
        return res
    b = mk_rdd(ctx, rp) if op in BINARY else None
    return evaluate(op, apply_op(op, a, b, np_, extra))


def canon_out(op, out):
    if op == GROUP:
        return [(k, list(vs)) for k, vs in out]
    if op == COGROUP:
        return csorted([(k, [list(g[0]), list(g[1])]) for k, g in out])
    if op in (FOJ, SUBK):
        return group_canon(out)
    if op in (DISTINCT, INTER, REPART, PARTBY):
        return csorted(out)
    return list(out)


def impl(c):
    try:
        return call(c)
    except Exception as e:  # pylint: disable=broad-except
        return Err(type(e).__name__)


# ------------------------------------------------------------------------------------------------
# the property's statement, as plain-Python comprehensions over the flattened inputs
def _multiset(xs):
    return sorted(ckey(x) for x in xs)


def _hashable(x):
    try:
        hash(x)
        return True
    except TypeError:
        return False


def spec(c):
    """(expected, mode) from the flattened inputs; mode: 'multiset' | 'exact' | 'groups' | 'sorted' | None (not judged)."""
    op, lp, rp, _, extra = c
    xs, ys = flat(lp), flat(rp)
    if op in KEYED and op != SORT and not all(_hashable(k) for k, _ in xs + (ys if op in BINARY else [])):
        return None, None
    if op in (DISTINCT, INTER) and not all(_hashable(e) for e in xs + ys):
        return None, None
    keys = list(dict.fromkeys(k for k, _ in xs)) if op in KEYED else None
    vals = (lambda k, l: [v for k2, v in l if k2 == k])
    if op == GROUP:
        return [(k, vals(k, xs)) for k in keys], 'groups'
    if op == REDUCE:
        if extra not in (0, 1):       # Spark defines reduceByKey for commutative + associative functions
            return None, None
        if extra == 0 and not all(isinstance(v, int) for _, v in xs):
            return None, None         # + on lists/strings is not commutative
        return [(k, functools.reduce(BIN[extra], vals(k, xs))) for k in keys], 'multiset'
    if op == FOLD:
        z, f, ok = FOLDS[extra]
        if not ok:
            return None, None
        return [(k, functools.reduce(BIN[f], vals(k, xs), z())) for k in keys], 'multiset'
    if op == AGG:
        z, s, _, ok = AGGS[extra]
        if not ok:
            return None, None
        return [(k, functools.reduce(s, vals(k, xs), z())) for k in keys], 'multiset'
    if op == COUNT:
        return [(k, len(vals(k, xs))) for k in keys], 'multiset'
    if op == COGROUP:
        allk = list(dict.fromkeys([k for k, _ in xs] + [k for k, _ in ys]))
        return [(k, [vals(k, xs), vals(k, ys)]) for k in allk], 'groups'
    if op == JOIN:
        return [(k, (v, w)) for k, v in xs for k2, w in ys if k == k2], 'multiset'
    if op == LOJ:
        return ([(k, (v, w)) for k, v in xs for k2, w in ys if k == k2]
                + [(k, (v, None)) for k, v in xs if not vals(k, ys)]), 'multiset'
    if op == ROJ:
        return ([(k, (v, w)) for k, v in xs for k2, w in ys if k == k2]
                + [(k, (None, w)) for k, w in ys if not vals(k, xs)]), 'multiset'
    if op == FOJ:
        return ([(k, (v, w)) for k, v in xs for k2, w in ys if k == k2]
                + [(k, (v, None)) for k, v in xs if not vals(k, ys)]
                + [(k, (None, w)) for k, w in ys if not vals(k, xs)]), 'multiset'
    if op == SEMI:
        return [(k, (v, ())) for k, v in xs if vals(k, ys)], 'multiset'
    if op == ANTI:
        return [(k, (v, None)) for k, v in xs if not vals(k, ys)], 'multiset'
    if op == SUBK:
        return [(k, v) for k, v in xs if not vals(k, ys)], 'multiset'
    if op == SUB:
        return [e for e in xs if e not in ys], 'multiset'
    if op == DISTINCT:
        return list(dict.fromkeys(xs)), 'multiset'
    if op == INTER:
        return [e for e in dict.fromkeys(xs) if e in ys], 'multiset'
    if op == CART:
        return [(a, b) for a in xs for b in ys], 'multiset'
    if op in (REPART, PARTBY):
        return list(xs), 'multiset'
    if op == SORT:
        try:
            return sorted(xs, key=lambda kv: kv[0], reverse=not extra), 'sorted'
        except TypeError:
            return None, None
    return None, None


def result_elements(c, r):
    """The multiset of output elements recovered from the canonical result."""
    op = c[0]
    els = r[0]
    if op in (FOJ, SUBK):
        return [(k, p) for k, ps in els for p in ps]
    return list(els)


STATS = {'oracle_judged': 0, 'oracle_not_judged': 0}


def extra_evidence():
    return {'sweep_cases_judged_by_oracle_alone': STATS.get('sweep_oracle_only', 0),
            'oracle_judged_cases': STATS['oracle_judged'],
            'oracle_not_judged_cases': STATS['oracle_not_judged'],
            'oracle_not_judged_why': 'TypeError inputs (unhashable / unorderable keys) and reduce/fold/aggregate '
                                     'arguments outside Spark\'s contract (non-commutative, non-neutral zero): '
                                     'model-vs-implementation only'}


def sub_case(c, step):
    """The single call a step of a sequence amounts to."""
    sop, swapped = step
    return (sop, c[2], c[1], c[3], 0) if swapped else (sop, c[1], c[2], c[3], 0)


def oracle(c, r):
    if c[0] != SEQ:
        return oracle_single(c, r)
    if isinstance(r, Err):
        return (f'sequence:raises-{r.name}', f'a sequence of join-family calls raised {r.name}')
    for i, (step, ri) in enumerate(zip(c[4], r)):
        o = oracle_single(sub_case(c, step), ri)
        if o is not None:
            before = ', '.join(OPS[s0] + ('(swapped)' if sw else '') for s0, sw in c[4][:i]) or 'nothing'
            return ('sequence:' + o[0], f'step {i} evaluated after [{before}] on the same RDD objects: {o[1]}')
    return None


def oracle_single(c, r):
    op = c[0]
    name = OPS[op]
    want, mode = spec(c)
    if mode is None:
        STATS['oracle_not_judged'] += 1
        return None
    STATS['oracle_judged'] += 1
    if isinstance(r, Err):
        return (f'{name}:raises-{r.name}', f'{name} raised {r.name} on inputs for which Spark defines a result')
    got = result_elements(c, r)
    if _multiset(got) != _multiset(want):
        dup = _has_dup(c)
        sliced = isinstance(c[1], tuple) or isinstance(c[2], tuple)
        return (f'{name}:multiset' + (':dup-keys' if dup else '') + (':slicing' if sliced and not dup else ''),
                f'{name}: got {got!r}, Spark semantics give (as a multiset) {want!r}')
    if mode == 'groups':
        # the values grouped under one key keep their input order: already part of the element comparison
        # (value lists are compared as lists); nothing more to check
        return None
    if mode == 'sorted':
        ks = [kv[0] for kv in got]
        wk = [kv[0] for kv in want]
        if ks != wk:
            return (f'{name}:order', f'{name}: keys come out as {ks!r}, sorted order is {wk!r}')
    return None


def _has_dup(c):
    for parts in (c[1], c[2]):
        ks = [ckey(e[0]) if isinstance(e, tuple) and e else ckey(e) for e in flat(parts)]
        if len(ks) != len({repr(k) for k in ks}):
            return True
    return False


def nontrivial(c, r):
    return isinstance(r, Err) or len(flat(c[1])) + len(flat(c[2])) >= 2


# ------------------------------------------------------------------------------------------------
KEYS = [1, 2, None, (1, 2), 'a']
KEYS_WIDE = [1, 2, 3, 0, -1, None, (1, 2), (1,), (), 'a', 'b', '', ('a', None), (1, (2, 3))]
VALS_ANY = [0, 1, 2, 7, -3, None, 'x', 'y', '', [1], [], [1, 2], (1, 2), (), ('x', None), [[1], 'z']]
VALS_HASHABLE = [0, 1, 2, 7, None, 'x', '', (1, 2), ()]
VALS_INT = [0, 1, 2, 3, 7, -3, 10, -1]
VALS_LIST = [[], [1], [2], [1, 2], ['x'], [None]]
NPS = [None, None, None, 0, 1, 2, 3, 5, 7, 11, 13, 17, 23, 32]


def split(rng, xs, allow_zero=True):
    """A random partitioning of xs (empty partitions allowed; zero partitions only for an empty list)."""
    n = len(xs)
    if n == 0 and allow_zero and rng.random() < 0.3:
        return []
    k = rng.choice([1, 1, 2, 2, 3, 4, 6])
    cuts = sorted(rng.randint(0, n) for _ in range(k - 1))
    parts, prev = [], 0
    for cpos in cuts + [n]:
        parts.append(xs[prev:cpos])
        prev = cpos
    return parts


def all_splits(xs, maxparts=3):
    """Every partitioning of xs into 1..maxparts consecutive (possibly empty) pieces, plus zero partitions if empty."""
    n = len(xs)
    out = [] if n else [[]]
    for k in range(1, maxparts + 1):
        for cuts in itertools.combinations_with_replacement(range(n + 1), k - 1):
            parts, prev = [], 0
            for cpos in list(cuts) + [n]:
                parts.append(xs[prev:cpos])
                prev = cpos
            out.append(parts)
    return out


def _vals_for(op, extra, rng):
    if op == REDUCE:
        if extra in INT_ONLY_BIN:
            return VALS_INT
        if extra == 0:
            return rng.choice([VALS_INT, VALS_LIST, ['x', 'y', '', 'ab']])
        return VALS_ANY
    if op == FOLD:
        if extra in INT_ONLY_FOLD:
            return VALS_INT
        if extra in LIST_ONLY_FOLD:
            return VALS_LIST
        return VALS_ANY
    if op == AGG:
        return VALS_INT if extra in INT_ONLY_AGG else VALS_ANY
    if op in (DISTINCT, INTER):
        return VALS_HASHABLE
    return VALS_ANY


def _extra_for(op, rng):
    if op == REDUCE:
        return rng.choice(sorted(BIN))
    if op == FOLD:
        return rng.choice(sorted(FOLDS))
    if op == AGG:
        return rng.choice(sorted(AGGS))
    if op == SORT:
        return rng.choice([1, 1, 0])
    return 0


def random_case(rng, op):
    extra = _extra_for(op, rng)
    vals = _vals_for(op, extra, rng)
    if op == SORT:
        cls = rng.choice(['int', 'int', 'str', 'tup', 'mixed'])
        keys = {'int': [0, 1, 2, 3, -1, 10], 'str': ['', 'a', 'b', 'ab', 'B', 'é'],
                'tup': [(), (1,), (1, 2), (2,), (1, 2, 3), (0, 5)],
                'mixed': [1, 2, 'a', None, (1, 2)]}[cls]
    else:
        keys = rng.choice([KEYS, KEYS, KEYS[:2], KEYS_WIDE])
    unhashable = op != SORT and rng.random() < 0.04

    def side(maxlen):
        n = rng.choice([0, 1, 2, 2, 3, 3, 4, 5, 6][:maxlen + 3])
        xs = [(rng.choice(keys), rng.choice(vals)) for _ in range(n)]
        if op in (SUB, DISTINCT, INTER, CART) and rng.random() < 0.3:
            xs = [rng.choice(VALS_HASHABLE if op != SUB else VALS_ANY) for _ in range(n)]
        return xs
    xs = side(6)
    ys = side(6) if op in BINARY else []
    if op in (SUB, INTER) and xs and rng.random() < 0.6:
        ys = ys + rng.sample(xs, rng.randint(1, len(xs)))
        rng.shuffle(ys)
    if unhashable:
        tgt = rng.choice([xs, ys] if op in BINARY else [xs])
        bad = rng.choice([[1], [], ([1], 2)])
        if op in KEYED:
            tgt.insert(rng.randint(0, len(tgt)), (bad, rng.choice(vals)))
        elif op in (DISTINCT, INTER):
            tgt.insert(rng.randint(0, len(tgt)), rng.choice([bad, (1, [2])]))
    np_ = rng.choice(NPS) if op in HAS_NP or op == AGG else None
    lp = (rng.randint(0, 12), xs) if rng.random() < 0.15 else split(rng, xs)
    if op not in BINARY:
        rp = []
    else:
        rp = (rng.randint(0, 12), ys) if rng.random() < 0.15 else split(rng, ys)
    return (op, lp, rp, np_, extra)


# ---- (a) sequences of join-family calls on the same two RDD objects
def sequence_cases(rng, tier):
    out = []
    # a fixed pair with keys missing on either side and duplicate keys, every ordered pair of (op, swapped) steps
    a0 = [[(1, 'a'), (2, 'b')], [(1, 'c'), (3, 'd')]]
    b0 = [[(1, 'x'), (4, 'y')], [(1, 'z')], [(3, 'w')]]
    steps = [(o, sw) for o in JOIN_FAMILY for sw in (False, True)]
    for s1 in steps:
        for s2 in steps:
            if tier == 'quick' and s1[0] != JOIN and s2[0] != JOIN and rng.random() < 0.6:
                continue
            out.append((SEQ, a0, b0, rng.choice([None, None, 2, 5]), [s1, s2]))
    n = 300 if tier == 'quick' else 6000
    for _ in range(n):
        keys = rng.choice([[1, 2, 3, 4], [1, 2, None, (1, 2), 'a'], [0, 1]])
        ka = rng.sample(keys, rng.randint(1, len(keys)))
        kb = rng.sample(keys, rng.randint(1, len(keys)))
        xs = [(rng.choice(ka), rng.choice(VALS_ANY)) for _ in range(rng.randint(0, 5))]
        ys = [(rng.choice(kb), rng.choice(VALS_ANY)) for _ in range(rng.randint(0, 5))]
        k = rng.choice([2, 2, 3, 3, 4])
        st = [(rng.choice(JOIN_FAMILY), rng.random() < 0.35) for _ in range(k)]
        r = rng.random()
        if r < 0.5:
            st[0] = (JOIN, rng.random() < 0.3)          # the inner join evaluated first
        elif r < 0.7:
            st[-1] = (JOIN, rng.random() < 0.3)         # ... or last (mirrored order)
        if rng.random() < 0.25:
            st.append(st[0])                            # the first call repeated at the end
        lp = (rng.randint(1, 6), xs) if rng.random() < 0.15 else split(rng, xs)
        rp = (rng.randint(1, 6), ys) if rng.random() < 0.15 else split(rng, ys)
        out.append((SEQ, lp, rp, rng.choice([None, None, 1, 2, 5, 11]), st))
    return out


# ---- (b) boundary pairs (element count L, partition count n) of the slicing arithmetic
SWEEP_OPS = [GROUP, REDUCE, JOIN, DISTINCT, SORT, REPART, PARTBY]
SWEEP_L = range(1, 41)
SWEEP_N = range(1, 33)
NAMED_PAIRS = [(15, 11), (15, 13), (30, 11), (13, 23), (29, 25), (31, 29), (7, 32), (40, 32), (23, 12), (35, 27)]


def sweep_case(op, L, n, sliced):
    """L distinct keys / elements; sliced: the input is Context.parallelize(xs, n) and numPartitions is left to
    default to the input's partition count; otherwise explicit input partitions and numPartitions = n."""
    if op == DISTINCT:
        xs = list(range(L))
    elif op == SORT:
        xs = [((i * 7 + 3) % L if L % 7 else L - 1 - i, i) for i in range(L)]
    else:
        xs = [(i, i) for i in range(L)]
    ys = [[(i, -i) for i in range(0, L, 2)], [(L + 1, 0)]] if op == JOIN else []
    if sliced and op not in (REPART, PARTBY):
        return (op, (n, xs), ys, None, 1 if op == SORT else 0)
    if sliced:
        return (op, (n, xs), ys, n, 0)
    cut = L // 3
    return (op, [xs[:cut], xs[cut:]], ys, n, 1 if op == SORT else 0)


def sweep_cases(full):
    out = []
    i = 0
    for L in SWEEP_L:
        for n in SWEEP_N:
            if full or (L, n) in NAMED_PAIRS:
                for op in SWEEP_OPS:
                    out.append(sweep_case(op, L, n, True))
                    out.append(sweep_case(op, L, n, False))
            else:
                out.append(sweep_case(SWEEP_OPS[i % len(SWEEP_OPS)], L, n, True))
                out.append(sweep_case(SWEEP_OPS[(i + 3) % len(SWEEP_OPS)], L, n, False))
                i += 1
    return out


def extra_checks(rng, tier, workdir):  # pylint: disable=unused-argument
    """quick tier: the FULL (L, n) x op x form sweep judged by the oracle alone (the thorough tier puts the full
    sweep through the correspondence as ordinary cases)."""
    if tier != 'quick':
        return
    seen = set()
    for c in sweep_cases(True):
        r = impl(c)
        STATS['sweep_oracle_only'] = STATS.get('sweep_oracle_only', 0) + 1
        o = oracle(c, r)
        if o is not None and o[0] not in seen:
            seen.add(o[0])
            yield (o[0], o[1][:300], f'case={c!r} result={r!r}'[:1500], c)


def exhaustive_cases(rng, tier):
    """Both sides of length <= 2 over 2 keys and 2 values x every op x every partitioning into <= 2 (quick) / 3 pieces."""
    out = []
    pairs = [(k, v) for k in (1, None) for v in (0, [1])]
    lists = [[]] + [[p] for p in pairs] + [[p, q] for p in pairs for q in pairs]
    maxparts = 2 if tier == 'quick' else 3
    for op in range(SINGLE_OPS):
        if op in (REDUCE, FOLD, AGG, SORT, DISTINCT, INTER):
            continue   # these need typed values / hashable elements; covered by the typed sweep below
        for xs in lists:
            for ys in (lists if op in BINARY else [[]]):
                if tier == 'quick' and op in BINARY and rng.random() < 0.8:
                    continue
                sx = all_splits(xs, maxparts)
                sy = all_splits(ys, maxparts) if op in BINARY else [[]]
                if tier == 'quick':
                    sx = [rng.choice(sx)] if rng.random() < 0.7 else sx
                    sy = [rng.choice(sy)]
                elif op in BINARY:
                    sy = [rng.choice(sy)]
                for px in sx:
                    for py in sy:
                        out.append((op, px, py, rng.choice([None, 2, 3]), 0))
    # typed sweep for the function-carrying ops and the hashing ops
    ipairs = [(k, v) for k in (1, (1, 2)) for v in (1, 2)]
    ilists = [[]] + [[p] for p in ipairs] + [[p, q] for p in ipairs for q in ipairs] \
        + [[p, q, s] for p in ipairs for q in ipairs for s in ipairs[:2]]
    for xs in ilists:
        for px in all_splits(xs, maxparts):
            for extra in sorted(BIN):
                out.append((REDUCE, px, [], rng.choice([None, 2]), extra))
            for extra in sorted(FOLDS):
                if extra not in LIST_ONLY_FOLD:
                    out.append((FOLD, px, [], None, extra))
            for extra in sorted(AGGS):
                out.append((AGG, px, [], None, extra))
            for asc in (0, 1):
                out.append((SORT, px, [], rng.choice([None, 2, 5]), asc))
            out.append((DISTINCT, px, [], rng.choice([None, 1, 2, 3]), 0))
            if tier != 'quick' or rng.random() < 0.3:
                for ys in rng.sample(ilists, 3):
                    out.append((INTER, px, rng.choice(all_splits(ys, maxparts)), None, 0))
    if tier == 'quick':
        out = [c for c in out if rng.random() < 0.45]
    return out


CORPUS = [
    # the inner join that used to collapse duplicate keys through dict()
    (JOIN, [[(1, 'a'), (1, 'b')]], [[(1, 'x'), (1, 'y')]], None, 0),
    (JOIN, [[(1, 'a')], [(1, 'b')]], [[(1, 'x')], [], [(1, 'y')]], 5, 0),
    # doctest inputs
    (COGROUP, [[('house', 1), ('tree', 2)]], [[('house', 3)]], None, 0),
    (FOJ, [[('a', 0), ('b', 1)]], [[('b', 2), ('c', 3)]], None, 0),
    (SUBK, [[('a', 1), ('b', 4)], [('b', 5), ('a', 2)]], [[('a', 3), ('c', None)]], None, 0),
    (INTER, [[0, 4, 7, 4, 10]], [[3, 4, 7, 4, 5]], None, 0),
    (SUB, [[(0, 1), (1, 1)]], [[(1, 1), (1, 3)]], None, 0),
    (AGG, [[('a', 1), ('b', 2)], [('a', 3), ('c', 4)]], [], None, 0),
    (SORT, [[(5, 'a'), (1, 'b')], [(2, 'c'), (3, 'd')]], [], None, 1),
    (SORT, [[(None, 1), (None, 2)]], [], None, 1),
    (GROUP, [[([1], 1)]], [], None, 0),
]


def generate(rng, tier):
    cases = list(CORPUS)
    cases += exhaustive_cases(rng, tier)
    n = 2500 if tier == 'quick' else 60000
    ops = list(range(SINGLE_OPS))
    for i in range(n):
        cases.append(random_case(rng, ops[i % len(ops)]))
    cases += sequence_cases(rng, tier)
    cases += sweep_cases(tier != 'quick')
    return cases


def shrink_candidates(c):
    op, lp, rp, np_, extra = c
    xs, ys = flat(lp), flat(rp)
    if op == SEQ:
        # fewer steps first (a failing step together with what was evaluated before it)
        for i in range(len(extra)):
            if len(extra) > 1:
                yield (op, lp, rp, np_, extra[:i] + extra[i + 1:])
    # fewer partitions first, then fewer elements
    if isinstance(lp, list) and len(lp) > 1:
        yield (op, [xs], rp, np_, extra)
    if isinstance(rp, list) and len(rp) > 1:
        yield (op, lp, [ys], np_, extra)
    if np_ is not None and op not in (REPART, PARTBY):
        yield (op, lp, rp, None, extra)
    for i in range(len(xs)):
        rest = xs[:i] + xs[i + 1:]
        yield (op, (lp[0], rest) if isinstance(lp, tuple) else [rest], rp, np_, extra)
    for i in range(len(ys)):
        rest = ys[:i] + ys[i + 1:]
        yield (op, lp, (rp[0], rest) if isinstance(rp, tuple) else [rest], np_, extra)
