"""Per-property MANIFEST text.  tools/make_manifest.py turns this into MANIFEST.json."""

NOTES = ('Every check = (1) regenerate coq/Gen from /repo with the fail-closed translator, (2) rebuild the property\'s '
         'Coq files and re-check Print Assumptions of every theorem in coq/Properties/<id>.v, (3) run the real '
         'implementation and the Gallina model on the same generated cases and compare inside Coq, (4) execute the '
         'property statement (oracle) on the implementation to produce concrete replays. See DESIGN.md.')

CLAIMED = {}
NOT_CLAIMED = {}

CLAIMED['C18'] = {
    'text': 'Theorems for every integer, width and interval: the modular kernel of _cast_to_bounded_type (regenerated from '
            'casts.py on every run, with the regenerated width constants) is two\'s-complement wrap-around (in range, congruent, '
            'unique); int/bool/float(truncated) sources wrap; identity and null rules of the dispatch; string->integral range rule; '
            'true/false in every letter case. The hand-written parts of the model (dispatch, int(str), strip/split, date validity) '
            'are tied to casts.py by a differential run over ~8k (quick) / ~300k (thorough) generated casts compared inside Coq.',
    'note': 'Trusted: Coq kernel + vm_compute; translator/gen.py (cast_bounded, cast_widths kernels); correspondence harness '
            '(generators, encoder); FloatOps.Prim2SF as the meaning of int(float). Not modelled: float<->string (repr), casts to '
            'float/double/decimal/timestamp, nested types. No axioms (Print Assumptions lists only PrimFloat/PrimInt63 primitives).',
}
