"""C01 -- RDD pipelines compute plain-list semantics for every partitioning.

case   = (xs, numSlices, stages, action)
           xs      : list over {int, str, None, tuple, list}
           stages  : list of (opcode, args...)      -- see TR below
           action  : (opcode, args...)              -- see ACT below
         user functions are referenced by their index in the library tables FN / PRED / GEN / KEY / OP / PARTF,
         which mirror coq/Model/RddLib.v member by member.
result = [glom().collect() after parallelize, ... after every stage ..., result of the action]; the first
         step that raises ends the list with Err(<exception class>).
"""
import copy
import functools
import itertools

from common.coqlit import Err
from pysparkling import Context

ID = 'C01'
KERNELS = ['Gen/Parallelize.v: par_take', 'Gen/Parallelize.v: par_single', 'Gen/Layout.v: coalesce_plan',
           'Gen/StatCounter.v: sc_merge', 'Gen/StatCounter.v: sc_mergeStats']
SHARD = 400


# --------------------------------------------------------------------------- function library (Python half)
def _need_int(x):
    if type(x) is not int:  # pylint: disable=unidiomatic-typecheck
        raise TypeError('int expected')


def f_swap(x):
    return (x[1], x[0])


FN = [
    ('f_id', lambda x: x),
    ('f_inc', lambda x: x + 1),
    ('f_neg', lambda x: -x),
    ('f_dbl', lambda x: x * 2),
    ('f_pair', lambda x: (x, x)),
    ('f_wrap', lambda x: [x]),
    ('f_swap', f_swap),
    ('f_zero', lambda x: 0),
    ('f_len', lambda x: len(x)),  # pylint: disable=unnecessary-lambda
    ('f_mod3', lambda x: x % 3),
    ('f_none', lambda x: None),
    ('f_fst', lambda x: x[0]),
]
PRED = [
    ('p_true', lambda x: True),
    ('p_false', lambda x: False),
    ('p_even', lambda x: x % 2 == 0),
    ('p_pos', lambda x: x > 0),
    ('p_isint', lambda x: type(x) is int),  # pylint: disable=unidiomatic-typecheck
    ('p_truthy', lambda x: x),
    ('p_notnone', lambda x: x is not None),
    ('p_edges', lambda x: x < 23 or x >= 44),
]
GEN = [
    ('g_none', lambda x: []),
    ('g_one', lambda x: [x]),
    ('g_dup', lambda x: [x, x]),
    ('g_upto', lambda x: range(x)),
    ('g_iter', lambda x: x),
]


def k_id(x):
    _need_int(x)
    return x


def k_neg(x):
    _need_int(x)
    return -x


def k_mod3(x):
    _need_int(x)
    return x % 3


def k_fst(x):
    v = x[0]
    _need_int(v)
    return v


KEY = [('k_id', k_id), ('k_neg', k_neg), ('k_mod3', k_mod3), ('k_size', lambda x: len(x)),  # pylint: disable=unnecessary-lambda
       ('k_zero', lambda x: 0), ('k_fst', k_fst)]


def op_max(a, b):
    _need_int(a)
    _need_int(b)
    return max(a, b)


def op_mul(a, b):
    _need_int(a)
    _need_int(b)
    return a * b


LIMIT = 20000   # no accumulator of a generated case gets anywhere near this on a correct implementation


def _guard(r):
    """a broken implementation (e.g. a zero value shared between partitions) can make accumulators double
    per partition: turn that into an exception instead of exhausting the machine's memory"""
    if isinstance(r, (list, tuple, str)) and len(r) > LIMIT:
        raise OverflowError('accumulator exploded')
    return r


def op_extend(a, b):
    """in place: mutates and returns its first argument"""
    if type(a) is not list or type(b) is not list:  # pylint: disable=unidiomatic-typecheck
        raise TypeError('lists expected')
    _guard(a)
    _guard(b)
    a.extend(b)
    return a


def op_append(a, x):
    """in place: mutates and returns its first argument"""
    if type(a) is not list:  # pylint: disable=unidiomatic-typecheck
        raise TypeError('list expected')
    _guard(a)
    a.append(x)
    return a


def _is_int_pair(a):
    return type(a) is tuple and len(a) == 2 and type(a[0]) is int and type(a[1]) is int  # pylint: disable=unidiomatic-typecheck


def op_sumcount(a, x):
    if not _is_int_pair(a) or type(x) is not int:  # pylint: disable=unidiomatic-typecheck
        raise TypeError('(int, int), int expected')
    return (a[0] + x, a[1] + 1)


def op_pairadd(a, b):
    if not _is_int_pair(a) or not _is_int_pair(b):
        raise TypeError('(int, int) expected')
    return (a[0] + b[0], a[1] + b[1])


def _inner(a):
    if type(a) not in (list, tuple) or not a or type(a[0]) is not list:  # pylint: disable=unidiomatic-typecheck
        raise TypeError('nested accumulator expected')
    return _guard(a[0])


def op_inner_append(a, x):
    """in place on the INNER list of a nested accumulator; returns the accumulator"""
    _inner(a).append(x)
    return a


def op_inner_extend(a, b):
    """in place on the INNER list of a nested accumulator; returns the accumulator"""
    la, lb = _inner(a), _inner(b)
    la.extend(list(lb))
    return a


OP = [
    ('op_add', lambda a, b: _guard(a + b)),
    ('op_max', op_max),
    ('op_mul', op_mul),
    ('op_sub', lambda a, b: a - b),
    ('op_first', lambda a, b: a),
    ('op_last', lambda a, b: b),
    ('op_extend', op_extend),
    ('op_append', op_append),
    ('op_count', lambda a, x: a + 1),
    ('op_sumcount', op_sumcount),
    ('op_pairadd', op_pairadd),
    ('op_inner_append', op_inner_append),
    ('op_inner_extend', op_inner_extend),
]
OP_ADD, OP_MAX, OP_MUL, OP_SUB, OP_FIRST, OP_LAST, OP_EXTEND, OP_APPEND, OP_COUNT, OP_SUMCOUNT, OP_PAIRADD, OP_INNER_APPEND, OP_INNER_EXTEND = range(13)
ASSOC_OPS = {OP_ADD, OP_MAX, OP_MUL, OP_FIRST, OP_LAST, OP_EXTEND, OP_PAIRADD}
NESTED_ZEROS = [[[]], ([], [0]), [[], [1]], ([], ('k', [])), [[], [[]]]]


def mp_dup(it):
    for x in it:
        yield x
        yield x


def mp_head(it):
    for x in it:
        return [x]
    return []


PARTF = [
    ('mp_id', lambda it: it, True),
    ('mp_inc', lambda it: (x + 1 for x in it), True),
    ('mp_dup', mp_dup, True),
    ('mp_evens', lambda it: (x for x in it if x % 2 == 0), True),
    ('mp_rev', lambda it: reversed(list(it)), False),
    ('mp_sum', lambda it: [sum(it)], False),
    ('mp_count', lambda it: [sum(1 for _ in it)], False),
    ('mp_head', mp_head, False),
]

# --------------------------------------------------------------------------- stage and action codes
(T_MAP, T_FILTER, T_FLATMAP, T_MAPVALUES, T_FLATMAPVALUES, T_KEYBY, T_KEYS, T_VALUES, T_MAPPARTITIONS, T_GLOM,
 T_UNION, T_ZIP, T_ZIPWITHINDEX, T_SORTBY, T_COALESCE, T_REPARTITION, T_PERSIST) = range(17)
TR = ['map', 'filter', 'flatMap', 'mapValues', 'flatMapValues', 'keyBy', 'keys', 'values', 'mapPartitions', 'glom',
      'union', 'zip', 'zipWithIndex', 'sortBy', 'coalesce', 'repartition', 'persist']
(A_COLLECT, A_COUNT, A_FIRST, A_TAKE, A_SUM, A_REDUCE, A_FOLD, A_AGGREGATE, A_COUNTBYVALUE, A_TOP, A_TAKEORDERED,
 A_LOOKUP, A_COLLECTASMAP, A_TOLOCALITERATOR, A_MIN, A_MAX, A_MEAN) = range(17)
ACT = ['collect', 'count', 'first', 'take', 'sum', 'reduce', 'fold', 'aggregate', 'countByValue', 'top',
       'takeOrdered', 'lookup', 'collectAsMap', 'toLocalIterator', 'min', 'max', 'mean']

RULE = ('cases (xs, numSlices, stages, action): (0) slice-count sweep -- parallelize(range(L), n) for every L in 0..9 x '
        'every n in 1..140, sampled n up to 4000 and L up to 60, observed as count/collect/partition sizes; '
        '(1) exhaustive small scope -- every input of length <= 3 over the '
        'alphabets {0,1,2} and {(0,1),(1,"a"),"ab"} x every single stage with every library function x every slice '
        'count 1..len+2, and every action with every library parameter on every integer / pair input x every slice '
        'count; (2) random pipelines of depth 0-4 (stages chosen to be mostly well-typed for the data reaching '
        'them, some deliberately ill-typed) over inputs of length 0-8 from {ints, strings, None, tuples, lists} x '
        'slice counts from 1..len+2, None, 0, -1, 17 and 1000, ended by every action incl. fold/aggregate with '
        'in-place mutating operators on a list zero; non-trivial = at least one stage or a non-collect action and '
        'a non-empty input; distinct by canonical JSON of the case')
ASSUMPTIONS = [
    'data domain without bool/float elements (1 == True == 1.0 in dict keys and comparisons is not modelled)',
    'sort keys are integers (library key functions check their argument type explicitly)',
    'top/takeOrdered with the default key are generated on all-integer data only',
    'user functions are pure and deterministic apart from the in-place mutation of the accumulator of op_extend/op_append',
    'int(i * len_x / numSlices) equals floor division (exact while i*len_x < 2**53)',
    'the model is strict: an exception in an element that a lazy action would not reach is outside what is '
    'compared, because every stage is observed through glom().collect() first',
]
TRUSTED = ['translator kernels par_take, par_single, coalesce_plan, sc_merge, sc_mergeStats',
           'function library pairs (py/c01.py vs coq/Model/RddLib.v), validated by the same correspondence run']


def is_sweep(case):
    return len(case) == 2


def is_layout(case):
    """(partitions, stages, action): the dataset is built from explicit partition lists"""
    return len(case) == 3


def _parts_of(case):
    """(stages, action, source description, plain input list)"""
    if is_layout(case):
        return case[1], case[2], f'layout{[len(p) for p in case[0]]}', _flat(case[0])
    return case[2], case[3], case[1], list(case[0])


def kind(case):
    if is_sweep(case):
        return 'sweep'
    if is_layout(case):
        return 'layout:' + ACT[case[2][0]]
    return ACT[case[3][0]] + ('/' + '+'.join(TR[o[0]] for o in case[2]) if len(case[2]) == 1 else f'/{len(case[2])}')


# --------------------------------------------------------------------------- implementation runner
def _stage(ctx, rdd, op):
    c = op[0]
    if c == T_MAP:
        return rdd.map(FN[op[1]][1])
    if c == T_FILTER:
        return rdd.filter(PRED[op[1]][1])
    if c == T_FLATMAP:
        return rdd.flatMap(GEN[op[1]][1])
    if c == T_MAPVALUES:
        return rdd.mapValues(FN[op[1]][1])
    if c == T_FLATMAPVALUES:
        return rdd.flatMapValues(GEN[op[1]][1])
    if c == T_KEYBY:
        return rdd.keyBy(FN[op[1]][1])
    if c == T_KEYS:
        return rdd.keys()
    if c == T_VALUES:
        return rdd.values()
    if c == T_MAPPARTITIONS:
        return rdd.mapPartitions(PARTF[op[1]][1])
    if c == T_GLOM:
        return rdd.glom()
    if c == T_UNION:
        return rdd.union(ctx.parallelize(copy.deepcopy(op[1]), op[2]))
    if c == T_ZIP:
        return rdd.zip(ctx.parallelize(copy.deepcopy(op[1]), op[2]))
    if c == T_ZIPWITHINDEX:
        return rdd.zipWithIndex()
    if c == T_SORTBY:
        return rdd.sortBy(KEY[op[1]][1], ascending=op[2], numPartitions=op[3])
    if c == T_COALESCE:
        return rdd.coalesce(op[1])
    if c == T_REPARTITION:
        return rdd.repartition(op[1])
    if c == T_PERSIST:
        return rdd.persist()
    raise ValueError(f'unknown stage {op!r}')


def _action(rdd, act):
    c = act[0]
    if c == A_COLLECT:
        return rdd.collect()
    if c == A_COUNT:
        return rdd.count()
    if c == A_FIRST:
        return rdd.first()
    if c == A_TAKE:
        return rdd.take(act[1])
    if c == A_SUM:
        return rdd.sum()
    if c == A_REDUCE:
        return rdd.reduce(OP[act[1]][1])
    if c == A_FOLD:
        return rdd.fold(copy.deepcopy(act[1]), OP[act[2]][1])
    if c == A_AGGREGATE:
        return rdd.aggregate(copy.deepcopy(act[1]), OP[act[2]][1], OP[act[3]][1])
    if c == A_COUNTBYVALUE:
        return dict(rdd.countByValue())
    if c == A_TOP:
        return rdd.top(act[1]) if act[2] == -1 else rdd.top(act[1], key=KEY[act[2]][1])
    if c == A_TAKEORDERED:
        return rdd.takeOrdered(act[1]) if act[2] == -1 else rdd.takeOrdered(act[1], key=KEY[act[2]][1])
    if c == A_LOOKUP:
        return rdd.lookup(act[1])
    if c == A_COLLECTASMAP:
        return rdd.collectAsMap()
    if c == A_TOLOCALITERATOR:
        return list(rdd.toLocalIterator())
    if c == A_MIN:
        return rdd.min()
    if c == A_MAX:
        return rdd.max()
    if c == A_MEAN:
        return rdd.mean()
    raise ValueError(f'unknown action {act!r}')


def impl_sweep(case):
    """parallelize(range(L), n) observed compactly: count, collect, number of partitions, non-empty partition sizes"""
    ln, n = case
    try:
        rdd = Context().parallelize(range(ln), n)
        g = rdd.glom().collect()
        return (rdd.count(), rdd.collect(), len(g), [(i, len(p)) for i, p in enumerate(g) if p])
    except Exception as e:  # pylint: disable=broad-except
        return Err(type(e).__name__)


def impl(case):
    if is_sweep(case):
        return impl_sweep(case)
    out = []
    ctx = Context()
    try:
        if is_layout(case):
            layout, ops, act = case
            rdd = ctx._parallelize_partitions(iter(copy.deepcopy(layout)))  # pylint: disable=protected-access
        else:
            xs, n, ops, act = case
            rdd = ctx.parallelize(copy.deepcopy(xs), n)
        out.append(copy.deepcopy(rdd.glom().collect()))
    except Exception as e:  # pylint: disable=broad-except
        return out + [Err(type(e).__name__)]
    for op in ops:
        try:
            rdd = _stage(ctx, rdd, op)
            out.append(copy.deepcopy(rdd.glom().collect()))
        except Exception as e:  # pylint: disable=broad-except
            return out + [Err(type(e).__name__)]
    try:
        out.append(copy.deepcopy(_action(rdd, act)))
    except Exception as e:  # pylint: disable=broad-except
        out.append(Err(type(e).__name__))
    return out


# --------------------------------------------------------------------------- plain-list meaning (oracle side)
def list_stage(op, xs):
    """The stage evaluated on a plain Python list (raises what plain Python raises)."""
    c = op[0]
    if c == T_MAP:
        f = FN[op[1]][1]
        return [f(x) for x in xs]
    if c == T_FILTER:
        p = PRED[op[1]][1]
        return [x for x in xs if p(x)]
    if c == T_FLATMAP:
        g = GEN[op[1]][1]
        return [y for x in xs for y in g(x)]
    if c == T_MAPVALUES:
        f = FN[op[1]][1]
        return [(e[0], f(e[1])) for e in xs]
    if c == T_FLATMAPVALUES:
        g = GEN[op[1]][1]
        return [(e[0], w) for e in xs for w in g(e[1])]
    if c == T_KEYBY:
        f = FN[op[1]][1]
        return [(f(x), x) for x in xs]
    if c == T_KEYS:
        return [e[0] for e in xs]
    if c == T_VALUES:
        return [e[1] for e in xs]
    if c == T_MAPPARTITIONS:
        return list(PARTF[op[1]][1](iter(xs)))
    if c == T_UNION:
        return xs + copy.deepcopy(op[1])
    if c == T_ZIP:
        return list(zip(xs, copy.deepcopy(op[1])))
    if c == T_ZIPWITHINDEX:
        return [(x, i) for i, x in enumerate(xs)]
    if c == T_SORTBY:
        return sorted(xs, key=KEY[op[1]][1], reverse=not op[2])
    if c in (T_COALESCE, T_REPARTITION, T_PERSIST):
        return xs
    raise ValueError(f'no list meaning for {op!r}')


# (zero, seqOp, combOp) for which Spark's contract holds: comb(zero, s) == s and
# comb(fold(seq, xs), fold(seq, ys)) == fold(seq, xs + ys) on the data the generator pairs them with
def lawful_agg(z, seq, comb, xs):
    def all_t(t):
        return all(type(x) is t for x in xs)  # pylint: disable=unidiomatic-typecheck
    if seq == comb == OP_ADD:
        return (z == 0 and type(z) is int and all_t(int)) or (z == '' and all_t(str)) or \
               (z == () and all_t(tuple)) or (z == [] and type(z) is list and all_t(list))  # pylint: disable=unidiomatic-typecheck
    if seq == comb == OP_MUL:
        return z == 1 and all_t(int)
    if seq == comb == OP_MAX:
        return type(z) is int and all_t(int) and all(x >= z for x in xs)  # pylint: disable=unidiomatic-typecheck
    if seq == comb == OP_FIRST:
        return True
    if seq == comb == OP_EXTEND:
        return z == [] and all_t(list)
    if (seq, comb) == (OP_APPEND, OP_EXTEND):
        return z == [] and type(z) is list  # pylint: disable=unidiomatic-typecheck
    def nested_zero(v):
        return type(v) in (list, tuple) and len(v) >= 1 and type(v[0]) is list and v[0] == []  # pylint: disable=unidiomatic-typecheck
    if (seq, comb) == (OP_INNER_APPEND, OP_INNER_EXTEND):
        return nested_zero(z)
    if seq == comb == OP_INNER_EXTEND:
        return nested_zero(z) and all(type(x) in (list, tuple) and len(x) >= 1 and type(x[0]) is list for x in xs)  # pylint: disable=unidiomatic-typecheck
    if (seq, comb) == (OP_COUNT, OP_ADD):
        return z == 0 and type(z) is int  # pylint: disable=unidiomatic-typecheck
    if (seq, comb) == (OP_SUMCOUNT, OP_PAIRADD):
        return z == (0, 0) and all_t(int)
    return False


def list_action(act, xs):
    """The action evaluated on a plain Python list; returns ('skip',) where the property gives no list meaning."""
    c = act[0]
    if c in (A_COLLECT, A_TOLOCALITERATOR):
        return list(xs)
    if c == A_COUNT:
        return len(xs)
    if c == A_FIRST:
        return next(iter(xs))
    if c == A_TAKE:
        if act[1] < 0:
            return ('skip',)
        return xs[:act[1]]
    if c == A_SUM:
        return sum(xs)
    if c == A_REDUCE:
        if not xs:
            raise ValueError('reduce of empty dataset')      # what the property demands of the dataset
        if act[1] not in ASSOC_OPS:
            return ('skip',)
        return functools.reduce(OP[act[1]][1], xs)
    if c == A_FOLD:
        if not lawful_agg(act[1], act[2], act[2], xs):
            return ('skip',)
        return functools.reduce(OP[act[2]][1], xs, copy.deepcopy(act[1]))
    if c == A_AGGREGATE:
        if not lawful_agg(act[1], act[2], act[3], xs):
            return ('skip',)
        return functools.reduce(OP[act[2]][1], xs, copy.deepcopy(act[1]))
    if c == A_COUNTBYVALUE:
        d = {}
        for x in xs:
            d[x] = d.get(x, 0) + 1
        return d
    if c in (A_TOP, A_TAKEORDERED):
        if act[1] < 0:
            return ('skip',)
        key = (lambda x: x) if act[2] == -1 else KEY[act[2]][1]
        return sorted(xs, key=key, reverse=(c == A_TOP))[:act[1]]
    if c == A_LOOKUP:
        return [e[1] for e in xs if e[0] == act[1]]
    if c == A_COLLECTASMAP:
        return dict(xs)
    if c in (A_MIN, A_MAX, A_MEAN):
        if not xs:
            return ('skip',)        # reading: numeric, non-empty data (DESIGN section 5)
        for x in xs:
            x - 0.0                  # pylint: disable=pointless-statement, expression-not-assigned
        if c == A_MIN:
            return min(xs)
        if c == A_MAX:
            return max(xs)
        return ('mean', sum(xs) / len(xs))
    raise ValueError(f'unknown action {act!r}')


def _flat(g):
    return [x for p in g for x in p]


def _same(a, b):
    """== that does not identify values of different types (1 == True, (1,) vs [1] are different anyway)"""
    if type(a) is not type(b):
        return False
    if isinstance(a, (list, tuple)):
        return len(a) == len(b) and all(_same(x, y) for x, y in zip(a, b))
    if isinstance(a, dict):
        return len(a) == len(b) and all(k in b and _same(v, b[k]) for k, v in a.items())
    return a == b


def _mutable(v):
    return isinstance(v, list) or (isinstance(v, tuple) and any(_mutable(x) for x in v))


def _zero_after(case):
    """run the pipeline once more on the implementation, keeping the zero value object that is handed to
    fold/aggregate, and return it as it is after the call (Err if the run raises)"""
    try:
        ctx = Context()
        if is_layout(case):
            layout, ops, act = case
            rdd = ctx._parallelize_partitions(iter(copy.deepcopy(layout)))  # pylint: disable=protected-access
        else:
            xs, n, ops, act = case
            rdd = ctx.parallelize(copy.deepcopy(xs), n)
        for op in ops:
            rdd = _stage(ctx, rdd, op)
        z = copy.deepcopy(act[1])
        if act[0] == A_FOLD:
            rdd.fold(z, OP[act[2]][1])
        else:
            rdd.aggregate(z, OP[act[2]][1], OP[act[3]][1])
        return z
    except Exception as e:  # pylint: disable=broad-except
        return Err(type(e).__name__)


def oracle(case, result):
    """The statement of C01 evaluated on the implementation's observations alone."""
    if is_sweep(case):
        ln, n = case
        if isinstance(result, Err):
            return ('parallelize:raised', f'parallelize(range({ln}), {n}) raised {result.name}')
        count, coll, _, sizes = result
        if coll != list(range(ln)):
            return ('parallelize:flat', f'parallelize(range({ln}), {n}).collect() = {coll!r}')
        if count != ln or sum(sz for _, sz in sizes) != ln:
            return ('parallelize:count', f'parallelize(range({ln}), {n}): count() = {count}, glom sizes {sizes!r}')
        return None
    ops, act, n, xs = _parts_of(case)
    if not isinstance(result, list) or not result:
        return ('harness:no-result', repr(result)[:200])
    g0 = result[0]
    if isinstance(g0, Err):
        return ('parallelize:raised', f'parallelize({xs!r}, {n}) raised {g0.name}')
    if not _same(_flat(g0), list(xs)):
        return ('parallelize:flat', f'parallelize({xs!r}, {n}).glom() = {g0!r}')
    cur = g0
    for i, op in enumerate(ops):
        name = TR[op[0]]
        if i + 1 >= len(result):
            return ('harness:short-result', repr(result)[:200])
        obs = result[i + 1]
        if op[0] == T_COALESCE and op[1] < 1:
            return None                  # coalesce to fewer than one partition: outside the property
        if op[0] == T_GLOM:
            if isinstance(obs, Err) or not _same(obs, [[list(p)] for p in cur]):
                return ('glom:partitions', f'glom of {cur!r} gave {obs!r}')
            cur = obs
            continue
        try:
            if op[0] == T_MAPPARTITIONS and not PARTF[op[1]][2]:
                exp_parts = [list(PARTF[op[1]][1](iter(copy.deepcopy(p)))) for p in cur]
                exp = _flat(exp_parts)
            else:
                exp = list_stage(op, copy.deepcopy(_flat(cur)))
        except Exception as e:  # pylint: disable=broad-except
            if not isinstance(obs, Err):
                return (f'{name}:no-raise', f'plain evaluation raises {type(e).__name__}, dataset gave {obs!r}')
            return None
        if isinstance(obs, Err):
            return (f'{name}:raised', f'{name}{op[1:]!r} on {cur!r} raised {obs.name}; plain evaluation gives {exp!r}')
        if not _same(_flat(obs), exp):
            return (f'{name}:flat', f'{name}{op[1:]!r} on {cur!r} (n={n}) gave {obs!r}; plain evaluation gives {exp!r}')
        cur = obs
    if len(result) != len(ops) + 2:
        return ('harness:short-result', repr(result)[:200])
    obs = result[-1]
    name = ACT[act[0]]
    data = copy.deepcopy(_flat(cur))
    try:
        exp = list_action(act, data)
    except Exception as e:  # pylint: disable=broad-except
        if act[0] == A_REDUCE and not data:
            if obs != Err('ValueError'):
                return ('reduce:empty-not-ValueError', f'reduce of an empty dataset gave {obs!r}')
            return None
        if not isinstance(obs, Err):
            return (f'{name}:no-raise', f'plain evaluation raises {type(e).__name__}, dataset gave {obs!r}')
        return None
    if exp == ('skip',):
        return None
    if isinstance(obs, Err):
        return (f'{name}:raised', f'{name}{act[1:]!r} on {cur!r} raised {obs.name}; plain evaluation gives {exp!r}')
    if isinstance(exp, tuple) and len(exp) == 2 and exp[0] == 'mean':
        m = exp[1]
        if not isinstance(obs, float) or abs(obs - m) > 1e-9 * max(1.0, abs(m)):
            return ('mean:value', f'mean of {cur!r} gave {obs!r}; sum/len = {m!r}')
        return None
    if act[0] in (A_FOLD, A_AGGREGATE) and _mutable(act[1]):
        after = _zero_after(case)
        if not _same(after, act[1]):
            return (f'{name}:zero-mutated', f'{name}{act[1:]!r} on {cur!r}: the caller\'s zero value is {after!r} afterwards')
    if not _same(obs, exp):
        return (f'{name}:value', f'{name}{act[1:]!r} on {cur!r} (n={n}) gave {obs!r}; plain evaluation gives {exp!r}')
    return None


def nontrivial(case, result):
    if is_sweep(case):
        return case[0] > 0 and case[1] > 1
    if is_layout(case):
        return len([p for p in case[0] if p]) > 1
    xs, _, ops, act = case
    return bool(xs) and (bool(ops) or act[0] != A_COLLECT)


# --------------------------------------------------------------------------- generators
INTS = [0, 1, 2, 3, -1, 5, -3, 4]
STRS = ['', 'a', 'b', 'ab', 'ba']
PAIRS = [(0, 1), (1, 'a'), (0, 2), ('a', 3), (1, (2, 3)), (2, [4]), (1, 1), ('a', 'b')]
ODD = [None, (), (7,), (1, 2, 3), [], [1], [1, 2], ([1], 2), 'ab']
ZEROS = {OP_ADD: [0, '', (), [], 1], OP_MUL: [1, 0], OP_MAX: [-9, 0], OP_SUB: [0], OP_FIRST: [0, None],
         OP_LAST: [0], OP_EXTEND: [[]], OP_PAIRADD: [(0, 0)]}
AGGS = [([], OP_APPEND, OP_EXTEND), (0, OP_COUNT, OP_ADD), ((0, 0), OP_SUMCOUNT, OP_PAIRADD), (0, OP_ADD, OP_ADD),
        ([], OP_EXTEND, OP_EXTEND), (1, OP_ADD, OP_ADD), (5, OP_COUNT, OP_ADD), (0, OP_SUB, OP_SUB),
        ([0], OP_APPEND, OP_EXTEND), ('', OP_ADD, OP_ADD)]


def _all_type(xs, t):
    return all(type(x) is t for x in xs)  # pylint: disable=unidiomatic-typecheck


def _pairish(xs):
    return all(isinstance(x, (tuple, list)) and len(x) >= 2 for x in xs)


def gen_input(rng, maxlen=8):
    style = rng.random()
    ln = rng.choice([0, 1, 1, 2, 2, 3, 3, 4, 5, 6, 7, 8][:maxlen + 4])
    ln = min(ln, maxlen)
    if style < 0.45:
        pool = INTS
    elif style < 0.6:
        pool = STRS
    elif style < 0.8:
        pool = PAIRS
    elif style < 0.88:
        pool = [[], [1], [1, 2], ['a']]
    else:
        pool = INTS + STRS + PAIRS + ODD
    return [copy.deepcopy(rng.choice(pool)) for _ in range(ln)]


def gen_slices(rng, ln):
    r = rng.random()
    if r < 0.8:
        return rng.randint(1, ln + 2)
    if r < 0.86:
        return 17
    if r < 0.9:
        return rng.choice([None, 0, -1])
    if r < 0.93:
        return 1000 if ln <= 4 else 64
    return rng.randint(1, 2 * ln + 3)


def _stage_choices(cur):
    """Stages that are well-typed for the data `cur` reaching them (cur None = unknown)."""
    ch = [(T_MAP, f) for f in (0, 4, 5, 7, 10)] + [(T_FILTER, p) for p in (0, 1, 4, 5, 6)] + \
         [(T_FLATMAP, g) for g in (0, 1, 2)] + [(T_KEYBY, f) for f in (0, 7, 4)] + \
         [(T_MAPPARTITIONS, h) for h in (0, 2, 4, 6, 7)] + [(T_GLOM,), (T_ZIPWITHINDEX,), (T_PERSIST,)] + \
         [(T_SORTBY, 4, True, None), (T_SORTBY, 4, False, 2)]
    if cur is None:
        return ch
    if _all_type(cur, int):
        ch += [(T_MAP, f) for f in (1, 2, 3, 9)] * 2 + [(T_FILTER, p) for p in (2, 3)] * 2 + [(T_FLATMAP, 3)] + \
              [(T_KEYBY, f) for f in (9, 1)] * 2 + [(T_MAPPARTITIONS, h) for h in (1, 3, 5)] + \
              [(T_SORTBY, k, asc, np) for k in (0, 1, 2) for asc in (True, False) for np in (None, 1, 3)]
    if cur and all(isinstance(x, (str, tuple, list)) for x in cur):
        ch += [(T_MAP, 8), (T_MAP, 3), (T_FLATMAP, 4), (T_SORTBY, 3, True, None), (T_SORTBY, 3, False, None)]
    if cur and _pairish(cur):
        ch += [(T_KEYS,), (T_VALUES,), (T_MAP, 6), (T_MAP, 11)] * 2 + [(T_MAPVALUES, f) for f in (0, 4, 5, 7, 10)] + \
              [(T_FLATMAPVALUES, g) for g in (0, 1, 2)]
        if all(type(x[1]) is int for x in cur):  # pylint: disable=unidiomatic-typecheck
            ch += [(T_MAPVALUES, f) for f in (1, 2, 3, 9)] + [(T_FLATMAPVALUES, 3)]
        if all(type(x[0]) is int for x in cur):  # pylint: disable=unidiomatic-typecheck
            ch += [(T_SORTBY, 5, True, None), (T_SORTBY, 5, False, None)]
    return ch


def gen_stage(rng, cur, maxlen):
    r = rng.random()
    npart = rng.choice([1, 2, 3, 4, 5, 7])
    if r < 0.08:
        return (T_COALESCE, rng.choice([1, 1, 2, 2, 3, 4, 5, 9]))
    if r < 0.14:
        return (T_REPARTITION, npart)
    if r < 0.2:
        return (T_UNION, gen_input(rng, 4), rng.choice([None, 1, 2, 3]) or 1)
    if r < 0.25:
        return (T_ZIP, gen_input(rng, 6), rng.choice([1, 2, 3]))
    if r < 0.29:
        # deliberately arbitrary (possibly ill-typed) stage
        c = rng.choice([T_MAP, T_FILTER, T_FLATMAP, T_MAPVALUES, T_FLATMAPVALUES, T_KEYBY, T_KEYS, T_VALUES,
                        T_MAPPARTITIONS, T_SORTBY, T_COALESCE])
        if c in (T_MAP, T_MAPVALUES, T_KEYBY):
            return (c, rng.randrange(len(FN)))
        if c == T_FILTER:
            return (c, rng.randrange(len(PRED)))
        if c in (T_FLATMAP, T_FLATMAPVALUES):
            g = rng.randrange(len(GEN))
            return (c, g)
        if c == T_MAPPARTITIONS:
            return (c, rng.randrange(len(PARTF)))
        if c == T_SORTBY:
            return (c, rng.randrange(len(KEY)), rng.random() < 0.5, rng.choice([None, 1, 2, 5]))
        if c == T_COALESCE:
            return (c, rng.choice([0, -1, 1, 2]))
        return (c,)
    return rng.choice(_stage_choices(cur))


def gen_action(rng, cur):
    """cur: the plain-list data reaching the action, or None if unknown."""
    n_el = len(cur) if cur is not None else 4
    ints = cur is not None and _all_type(cur, int)
    ch = [(A_COLLECT,), (A_COUNT,), (A_FIRST,), (A_TAKE, rng.randint(0, n_el + 2)), (A_TOLOCALITERATOR,),
          (A_COUNTBYVALUE,), (A_AGGREGATE,) + AGGS[0], (A_AGGREGATE,) + AGGS[1], (A_REDUCE, OP_FIRST), (A_REDUCE, OP_LAST),
          (A_FOLD, None, OP_FIRST), (A_TOP, rng.randint(0, n_el + 1), 4), (A_TAKEORDERED, rng.randint(0, n_el + 1), 4),
          (A_SUM,), (A_LOOKUP, rng.choice([0, 1, 'a', 2])),
          (A_AGGREGATE, rng.choice(NESTED_ZEROS), OP_INNER_APPEND, OP_INNER_EXTEND)]
    if ints:
        ch += [(A_SUM,), (A_MIN,), (A_MAX,), (A_MEAN,), (A_COUNTBYVALUE,)] * 2
        ch += [(A_REDUCE, o) for o in (OP_ADD, OP_MAX, OP_MUL, OP_SUB)]
        ch += [(A_FOLD, z, o) for o in (OP_ADD, OP_MUL, OP_MAX, OP_SUB) for z in ZEROS[o]]
        ch += [(A_AGGREGATE,) + a for a in AGGS[:4] + AGGS[5:8]] * 2
        ch += [(A_TOP, rng.randint(0, n_el + 1), k) for k in (-1, 0, 1, 2)]
        ch += [(A_TAKEORDERED, rng.randint(0, n_el + 1), k) for k in (-1, 0, 1, 2)]
        ch += [(A_TAKE, -1)]
    if cur is not None and cur and _all_type(cur, str):
        ch += [(A_REDUCE, OP_ADD), (A_FOLD, '', OP_ADD), (A_AGGREGATE,) + AGGS[9], (A_TOP, 2, 3), (A_COLLECTASMAP,)] * 2
    if cur is not None and cur and _all_type(cur, list):
        ch += [(A_FOLD, [], OP_EXTEND), (A_FOLD, [], OP_ADD), (A_AGGREGATE,) + AGGS[4], (A_AGGREGATE,) + AGGS[8],
               (A_REDUCE, OP_ADD)] * 3
    if cur is not None and cur and _pairish(cur):
        keys = [x[0] for x in cur if not isinstance(x[0], list)]
        ch += [(A_COLLECTASMAP,), (A_LOOKUP, copy.deepcopy(rng.choice(keys)) if keys else 0), (A_COUNTBYVALUE,)] * 4
        if all(type(x[0]) is int for x in cur):  # pylint: disable=unidiomatic-typecheck
            ch += [(A_TOP, 2, 5), (A_TAKEORDERED, 3, 5)]
        if all(_is_int_pair(x) for x in cur):
            ch += [(A_REDUCE, OP_PAIRADD), (A_FOLD, (0, 0), OP_PAIRADD)] * 2
    if rng.random() < 0.06:
        # deliberately arbitrary action (no default-key sort: needs integer data)
        ch = [(A_SUM,), (A_MIN,), (A_MAX,), (A_MEAN,), (A_COLLECTASMAP,), (A_COUNTBYVALUE,), (A_LOOKUP, 1),
              (A_REDUCE, rng.randrange(len(OP))), (A_FOLD, rng.choice([0, [], '', None]), rng.randrange(len(OP))),
              (A_AGGREGATE, rng.choice([0, [], (0, 0)]), rng.randrange(len(OP)), rng.randrange(len(OP))),
              (A_TOP, 2, rng.randrange(len(KEY))), (A_TAKEORDERED, 2, rng.randrange(len(KEY)))]
    return copy.deepcopy(rng.choice(ch))


def gen_pipeline(rng, maxdepth=4):
    xs = gen_input(rng)
    n = gen_slices(rng, len(xs))
    depth = rng.choice([0, 1, 1, 2, 2, 3, 3, 4][:2 * maxdepth])
    cur = copy.deepcopy(xs)
    ops = []
    for _ in range(depth):
        op = gen_stage(rng, cur, 8)
        ops.append(op)
        if cur is not None:
            if op[0] == T_GLOM or (op[0] == T_MAPPARTITIONS and not PARTF[op[1]][2]):
                cur = None
            else:
                try:
                    cur = list_stage(op, copy.deepcopy(cur))
                    if len(cur) > 60:
                        ops.pop()
                        cur = None
                        break
                except Exception:  # pylint: disable=broad-except
                    cur = None
                    break
    act = gen_action(rng, cur)
    return (xs, n, ops, act)


def _inputs_upto(alphabet, maxlen):
    for ln in range(maxlen + 1):
        for t in itertools.product(alphabet, repeat=ln):
            yield [copy.deepcopy(v) for v in t]


def all_single_stages():
    st = []
    st += [(T_MAP, i) for i in range(len(FN))]
    st += [(T_FILTER, i) for i in range(len(PRED))]
    st += [(T_FLATMAP, i) for i in range(len(GEN))]
    st += [(T_MAPVALUES, i) for i in (0, 1, 3, 8)]
    st += [(T_FLATMAPVALUES, i) for i in range(len(GEN))]
    st += [(T_KEYBY, i) for i in (0, 9, 8)]
    st += [(T_KEYS,), (T_VALUES,), (T_GLOM,), (T_ZIPWITHINDEX,), (T_PERSIST,)]
    st += [(T_MAPPARTITIONS, i) for i in range(len(PARTF))]
    st += [(T_UNION, [9, 8], 2), (T_UNION, [], 1), (T_ZIP, [7, 8], 1), (T_ZIP, [5, 6, 7, 8], 3)]
    st += [(T_SORTBY, k, asc, np) for k in range(len(KEY)) for asc in (True, False) for np in (None, 2)]
    st += [(T_COALESCE, k) for k in (1, 2, 3, 0)] + [(T_REPARTITION, k) for k in (1, 2, 4)]
    return st


def all_actions():
    ac = [(A_COLLECT,), (A_COUNT,), (A_FIRST,), (A_SUM,), (A_COUNTBYVALUE,), (A_COLLECTASMAP,), (A_TOLOCALITERATOR,),
          (A_MIN,), (A_MAX,), (A_MEAN,)]
    ac += [(A_TAKE, n) for n in (0, 1, 2, 5)]
    ac += [(A_REDUCE, o) for o in (OP_ADD, OP_MAX, OP_MUL, OP_SUB, OP_FIRST, OP_LAST, OP_PAIRADD)]
    ac += [(A_FOLD, z, o) for o in (OP_ADD, OP_MUL, OP_MAX, OP_FIRST, OP_SUB) for z in ZEROS[o][:2]]
    ac += [(A_FOLD, [], OP_EXTEND), (A_FOLD, (0, 0), OP_PAIRADD)]
    ac += [(A_AGGREGATE,) + a for a in AGGS]
    ac += [(A_TOP, n, k) for n in (1, 2) for k in (-1, 0, 1, 2, 4)]
    ac += [(A_TAKEORDERED, n, k) for n in (1, 2) for k in (-1, 1, 2, 4)]
    ac += [(A_LOOKUP, k) for k in (0, 1, 'a')]
    return ac


def _default_key_ok(act, xs):
    return not (act[0] in (A_TOP, A_TAKEORDERED) and act[2] == -1 and not _all_type(xs, int))


# minimised past disagreements between model and implementation (kept first in every run)
REGRESSIONS = [
    # lookup chains filter and values lazily: [1][1] raises IndexError before 4[0] raises TypeError
    ([([1], 2), [1], (7,), 4], 2, [], (A_LOOKUP, 1)),
    ([[1], 4], 1, [], (A_LOOKUP, 1)),
    ([4, [1]], 1, [], (A_LOOKUP, 1)),
    (['a', (1,), 5], 3, [], (A_LOOKUP, 'a')),
]


def sweep_cases(rng, tier):
    """dense sweep of slice counts far above the length: every length 0..9 x every numSlices 1..140, and a
    sampled band up to a few thousand slices (rounding of the slice bounds only shows for particular pairs)"""
    cases = [(ln, n) for ln in range(10) for n in range(1, 141)]
    for _ in range(250 if tier == 'quick' else 2500):
        cases.append((rng.randint(0, 12), rng.randint(141, rng.choice([400, 1000, 4000]))))
    for _ in range(50 if tier == 'quick' else 500):
        ln = rng.randint(13, 60)
        cases.append((ln, rng.randint(1, 3 * ln)))
    return cases


NUMERIC_ACTIONS = [(A_MEAN,), (A_MEAN,), (A_SUM,), (A_MIN,), (A_MAX,), (A_COUNT,), (A_REDUCE, OP_ADD), (A_REDUCE, OP_MAX),
                   (A_FOLD, 0, OP_ADD), (A_AGGREGATE, (0, 0), OP_SUMCOUNT, OP_PAIRADD), (A_AGGREGATE, 0, OP_COUNT, OP_ADD),
                   (A_COUNTBYVALUE,), (A_TOP, 3, 2), (A_TAKEORDERED, 3, 1), (A_AGGREGATE, [], OP_APPEND, OP_EXTEND)]


def _layout(sizes, rng, style):
    """integer data laid out in partitions of the given sizes"""
    total = sum(sizes)
    if style == 0:
        data = list(range(total))
    elif style == 1:
        data = [rng.randint(-9, 30) for _ in range(total)]
    else:
        data = [rng.choice([0, 1, 1, 2, 7, 100, -50]) for _ in range(total)]
    out, k = [], 0
    for sz in sizes:
        out.append(data[k:k + sz])
        k += sz
    return out


def unequal_sizes(rng):
    """partition sizes with ratios beyond 10x in both directions, empty partitions in between, total <= ~60"""
    big = rng.randint(21, 48)
    tiny = lambda: rng.choice([1, 2, 2, 3, 4])  # noqa: E731  pylint: disable=unnecessary-lambda-assignment
    shape = rng.randrange(8)
    if shape == 0:
        sizes = [big, tiny()]
    elif shape == 1:
        sizes = [tiny(), big]
    elif shape == 2:
        sizes = [big] + [tiny() for _ in range(rng.randint(2, 5))]
    elif shape == 3:
        sizes = [tiny() for _ in range(rng.randint(1, 3))] + [big] + [tiny() for _ in range(rng.randint(1, 3))]
    elif shape == 4:
        sizes = [big, 0, tiny(), 0, 0, tiny()]
    elif shape == 5:
        sizes = [0, tiny(), 0, big, 0, tiny(), 0]
    elif shape == 6:
        sizes = [rng.randint(11, 25), 1, rng.randint(11, 25), 2]
    else:
        sizes = [rng.choice([0, 1, 2, 3, 12, 30]) for _ in range(rng.randint(2, 7))]
    while sum(sizes) > 62:
        sizes[sizes.index(max(sizes))] -= 5
    return sizes


def layout_cases(rng, tier):
    """numeric (and a few other) actions on datasets with very unequal partition sizes and on longer inputs:
    StatCounter.mergeStats and every other per-partition/combine pair take different branches there"""
    cases = []
    # fixed shapes x every numeric action
    fixed = [[23, 2], [2, 23], [44, 2], [2, 44], [30, 1, 1, 1], [1, 1, 30], [22, 0, 2], [0, 2, 0, 22, 0], [40, 3, 0, 3],
             [11, 1], [1, 11], [21, 2, 21, 2], [50, 2, 2, 2, 2], [3, 31, 3], [12, 12, 1], [60], [0, 0, 5], [24, 2, 2]]
    for sizes in fixed:
        for style in (0, 1):
            for act in NUMERIC_ACTIONS:
                cases.append((_layout(sizes, rng, style), [], copy.deepcopy(act)))
    # filter-unbalanced pipelines on evenly sliced longer inputs, and long inputs in many slices
    for ln, n in ((46, 2), (48, 4), (60, 3), (24, 12), (36, 12), (50, 25), (60, 30), (33, 11), (45, 9)):
        for act in ((A_MEAN,), (A_SUM,), (A_MAX,), (A_MIN,), (A_AGGREGATE, (0, 0), OP_SUMCOUNT, OP_PAIRADD)):
            cases.append((list(range(ln)), n, [], act))
            cases.append((list(range(ln)), n, [(T_FILTER, 7)], act))       # p_edges: x < 23 or x >= 44
            cases.append((list(range(ln)), n, [(T_FILTER, 7), (T_MAP, 1)], act))
    # random
    for _ in range(300 if tier == 'quick' else 4000):
        lay = _layout(unequal_sizes(rng), rng, rng.randrange(3))
        ops = []
        r = rng.random()
        if r < 0.25:
            ops = [rng.choice([(T_MAP, 1), (T_MAP, 3), (T_FILTER, 2), (T_FILTER, 3), (T_FILTER, 7), (T_MAPPARTITIONS, 1),
                               (T_FLATMAP, 2), (T_PERSIST,), (T_COALESCE, rng.randint(1, 4))])]
        cases.append((lay, ops, copy.deepcopy(rng.choice(NUMERIC_ACTIONS))))
    for _ in range(100 if tier == 'quick' else 1500):
        ln = rng.randint(20, 60)
        xs = [rng.randint(-9, 30) for _ in range(ln)]
        cases.append((xs, rng.randint(2, ln), [], copy.deepcopy(rng.choice(NUMERIC_ACTIONS[:8]))))
    return cases


def order_cases():
    """order-sensitive (associative, NON-commutative) operators over 4..9 distinct elements in 4..8 slices
    (all partitions non-empty), in more slices than elements and in explicit layouts with empty partitions in
    between: any regrouping of the partial results that is not a left-to-right fold shows"""
    cases = []
    for ln in range(4, 10):
        kinds = {
            'str': ([chr(97 + i) for i in range(ln)],
                    [(A_REDUCE, OP_ADD), (A_FOLD, '', OP_ADD), (A_AGGREGATE, '', OP_ADD, OP_ADD),
                     (A_REDUCE, OP_FIRST), (A_REDUCE, OP_LAST)]),
            'list': ([[i] for i in range(ln)],
                     [(A_REDUCE, OP_ADD), (A_FOLD, [], OP_ADD), (A_FOLD, [], OP_EXTEND), (A_AGGREGATE, [], OP_EXTEND, OP_EXTEND)]),
            'tuple': ([(i,) for i in range(ln)], [(A_REDUCE, OP_ADD), (A_FOLD, (), OP_ADD)]),
            'int': (list(range(ln)), [(A_REDUCE, OP_FIRST), (A_REDUCE, OP_LAST), (A_AGGREGATE, [], OP_APPEND, OP_EXTEND),
                                      (A_AGGREGATE, [[]], OP_INNER_APPEND, OP_INNER_EXTEND)]),
        }
        slices = sorted({n for n in (4, 5, 6, 7, 8) if n <= ln} | {ln, ln + 1, ln + 3, 12, 16})
        for xs, acts in kinds.values():
            for n in slices:
                for ac in acts:
                    cases.append((copy.deepcopy(xs), n, [], copy.deepcopy(ac)))
            # explicit layouts: empties in between, unequal sizes, 4..8 non-empty partitions
            for sizes in ([1, 0, 1, 1, 0, 0, 1] + [1] * (ln - 4), [2, 1, 0, 1] + [0, 1] * (ln - 4), [1] * ln + [0],
                          [0] + [1] * (ln - 2) + [2], [ln - 3, 1, 1, 1]):
                lay, k = [], 0
                for sz in sizes:
                    lay.append(copy.deepcopy(xs[k:k + sz]))
                    k += sz
                assert k == ln, (sizes, ln)
                for ac in acts:
                    cases.append((lay, [], copy.deepcopy(ac)))
    return cases


def generate(rng, tier):
    quick = tier == 'quick'
    cases = [copy.deepcopy(c) for c in REGRESSIONS]
    cases += order_cases()               # head of the case stream (and of the search stream), both tiers
    # early: also the head of the search stream when an obligation breaks
    cases += sweep_cases(rng, tier)
    cases += layout_cases(rng, tier)
    ints = [0, 1, 2]
    mixed = [(0, 1), (1, 'a'), 'ab']
    # (1) exhaustive small scope: single stages
    small_inputs = list(_inputs_upto(ints, 3)) + [x for x in _inputs_upto(mixed, 3) if x]
    stages = all_single_stages()
    keep = {0: 1.0, 1: 1.0, 2: 0.3, 3: 0.04} if quick else {0: 1.0, 1: 1.0, 2: 1.0, 3: 1.0}
    for xs in small_inputs:
        for st in stages:
            if rng.random() >= keep[len(xs)]:
                continue
            for n in range(1, len(xs) + 3):
                cases.append((copy.deepcopy(xs), n, [copy.deepcopy(st)], (A_COLLECT,)))
    # single actions
    for xs in small_inputs:
        for ac in all_actions():
            if not _default_key_ok(ac, xs) or rng.random() >= keep[len(xs)]:
                continue
            for n in range(1, len(xs) + 3):
                cases.append((copy.deepcopy(xs), n, [], copy.deepcopy(ac)))
    # in-place folds over list elements with every slice count
    for xs in ([[1], [2], [3]], [[], [1, 2]], [[1]], []):
        for n in range(1, len(xs) + 3):
            cases.append((copy.deepcopy(xs), n, [], (A_FOLD, [], OP_EXTEND)))
            cases.append((copy.deepcopy(xs), n, [(T_MAP, 0)], (A_AGGREGATE, [], OP_APPEND, OP_EXTEND)))
            cases.append((copy.deepcopy(xs), n, [], (A_AGGREGATE, [0], OP_APPEND, OP_EXTEND)))
    # in-place folds (zero-value isolation) and dictionary-valued actions on duplicate keys: exhaustive over
    # every input of length <= 3 and every slice count, in both tiers
    for xs in _inputs_upto([[1], [2], []], 3):
        for n in range(1, len(xs) + 3):
            cases.append((copy.deepcopy(xs), n, [], (A_FOLD, [], OP_EXTEND)))
            cases.append((copy.deepcopy(xs), n, [], (A_AGGREGATE, [], OP_APPEND, OP_EXTEND)))
            cases.append((copy.deepcopy(xs), n, [], (A_AGGREGATE, [], OP_EXTEND, OP_EXTEND)))
    for xs in _inputs_upto([(0, 1), (0, 2), (1, 3)], 3):
        for n in range(1, len(xs) + 3):
            for ac in ((A_COLLECTASMAP,), (A_LOOKUP, 0), (A_COUNTBYVALUE,), (A_TOP, 2, 5), (A_TAKEORDERED, 2, 5),
                       (A_REDUCE, OP_PAIRADD), (A_FIRST,)):
                cases.append((copy.deepcopy(xs), n, [], ac))
            cases.append((copy.deepcopy(xs), n, [(T_KEYS,)], (A_COUNTBYVALUE,)))
            cases.append((copy.deepcopy(xs), n, [(T_ZIP, [7, 8, 9], n)], (A_COLLECT,)))
            cases.append((copy.deepcopy(xs), n, [(T_FILTER, 5), (T_ZIP, [(0, 1), (0, 2), (1, 3)], n)], (A_COLLECTASMAP,)))
    # NESTED mutable zero values with operators that mutate the inner container in place (a shallow copy of
    # the zero per task shares the inner lists between tasks and with the caller): exhaustive, both tiers
    for z in NESTED_ZEROS:
        for xs in _inputs_upto([1, 2], 3):
            for n in range(1, len(xs) + 3):
                cases.append((copy.deepcopy(xs), n, [], (A_AGGREGATE, copy.deepcopy(z), OP_INNER_APPEND, OP_INNER_EXTEND)))
        for xs in _inputs_upto([[[1]], [[2], 'r'], ([3], 0)], 3):
            for n in range(1, len(xs) + 3):
                cases.append((copy.deepcopy(xs), n, [], (A_FOLD, copy.deepcopy(z), OP_INNER_EXTEND)))
                if len(xs) >= 2:
                    cases.append((copy.deepcopy(xs), n, [(T_MAP, 0)], (A_AGGREGATE, copy.deepcopy(z), OP_INNER_EXTEND, OP_INNER_EXTEND)))
    for xs in ([[[i]] for i in range(6)], [[[i, i]] for i in range(9)]):
        for n in (1, 2, 3, 4, 7):
            for z in NESTED_ZEROS[:3]:
                cases.append((copy.deepcopy(xs), n, [], (A_FOLD, copy.deepcopy(z), OP_INNER_EXTEND)))
    # None / falsy elements (an "is this partition empty" test must not look at the values): exhaustive
    for xs in _inputs_upto([None, 0, 2], 3):
        for n in range(1, len(xs) + 3):
            for ac in ((A_REDUCE, OP_FIRST), (A_REDUCE, OP_LAST), (A_FIRST,), (A_TAKE, 1), (A_COUNT,), (A_COUNTBYVALUE,),
                       (A_AGGREGATE, 0, OP_COUNT, OP_ADD), (A_AGGREGATE, [], OP_APPEND, OP_EXTEND), (A_FOLD, None, OP_FIRST)):
                cases.append((copy.deepcopy(xs), n, [], ac))
            cases.append((copy.deepcopy(xs), n, [(T_FILTER, 5)], (A_COLLECT,)))
            cases.append((copy.deepcopy(xs), n, [(T_ZIPWITHINDEX,)], (A_COLLECTASMAP,)))
    # large slice counts, numSlices None / 0 / negative
    for xs in ([], [1], [1, 2, 3], list(range(10)), ['a', None, (1, 2)]):
        for n in (None, 0, -2, 17, 100, 1000):
            cases.append((copy.deepcopy(xs), n, [(T_MAP, 4)], (A_COUNT,)))
            cases.append((copy.deepcopy(xs), n, [(T_ZIPWITHINDEX,), (T_COALESCE, 3)], (A_FIRST,)))
    # (2) random pipelines
    for _ in range(1200 if quick else 30000):
        cases.append(gen_pipeline(rng))
    return cases


def _known_flat(case):
    """plain-list data reaching the action (a non-int marker when unknown)"""
    cur = copy.deepcopy(case[0])
    for op in case[2]:
        if op[0] == T_GLOM or (op[0] == T_MAPPARTITIONS and not PARTF[op[1]][2]):
            return ['?']
        try:
            cur = list_stage(op, cur)
        except Exception:  # pylint: disable=broad-except
            return ['?']
    return cur


def shrink_candidates(case):
    if is_sweep(case):
        return
    if is_layout(case):
        layout, ops, act = case
        for i in range(len(ops)):
            yield (layout, ops[:i] + ops[i + 1:], act)
        for i, p in enumerate(layout):
            if len(p) > 1:
                yield (layout[:i] + [p[:len(p) // 2]] + layout[i + 1:], ops, act)
                yield (layout[:i] + [p[:-1]] + layout[i + 1:], ops, act)
            if not p:
                yield (layout[:i] + layout[i + 1:], ops, act)
        return
    xs, n, ops, act = case
    for i in range(len(ops)):
        yield (xs, n, ops[:i] + ops[i + 1:], act)
    for i in range(len(xs)):
        yield (xs[:i] + xs[i + 1:], n, ops, act)
    if isinstance(n, int) and n > 2:
        yield (xs, n - 1, ops, act)
        yield (xs, 2, ops, act)
    if act[0] != A_COLLECT:
        yield (xs, n, ops, (A_COLLECT,))


def _dict_merge(a, b):
    """in place on the inner containers of {'k': [...]} / [[...], {...}] accumulators"""
    if isinstance(a, dict):
        if isinstance(b, dict):
            for k, v in b.items():
                a.setdefault(k, []).extend(v)
        else:
            a.setdefault('k', []).append(b)
        return a
    if isinstance(b, list) and len(b) == 2 and isinstance(b[1], dict):
        a[0].extend(b[0])
        for k, v in b[1].items():
            a[1][k] = a[1].get(k, 0) + v
    else:
        a[0].append(b)
        a[1][b % 2] = a[1].get(b % 2, 0) + 1
    return a


def extra_checks(rng, tier, workdir):
    """Nested mutable zero values outside the model's value domain (dicts) and the other entry points of the
    same machinery (treeAggregate, foldByKey, aggregateByKey): the result equals the plain-list fold for every
    slice count and the caller's zero object is unchanged afterwards.  Oracle only (no Coq side)."""
    data = [3, 1, 4, 1, 5, 9, 2, 6]
    zeros = [{'k': []}, [[], {}]]
    for z in zeros:
        want = functools.reduce(_dict_merge, data, copy.deepcopy(z))
        for n in (1, 2, 3, 4, 8, 11):
            for name in ('fold', 'aggregate', 'treeAggregate'):
                zz = copy.deepcopy(z)
                try:
                    rdd = Context().parallelize(list(data), n)
                    if name == 'fold':
                        got = rdd.fold(zz, _dict_merge)
                    elif name == 'aggregate':
                        got = rdd.aggregate(zz, _dict_merge, _dict_merge)
                    else:
                        got = rdd.treeAggregate(zz, _dict_merge, _dict_merge)
                except Exception as e:  # pylint: disable=broad-except
                    got = Err(type(e).__name__)
                if got != want:
                    yield (f'{name}:nested-zero-value', f'{name}({z!r}, in-place merge), {n} slices', f'gave {got!r}, plain fold gives {want!r}', None)
                elif zz != z:
                    yield (f'{name}:zero-mutated', f'{name}({z!r}, in-place merge), {n} slices', f'caller\'s zero is {zz!r} afterwards', None)
    # treeReduce / treeAggregate with order-sensitive associative operators
    for ln in range(4, 10):
        for xs in ([chr(97 + i) for i in range(ln)], [[i] for i in range(ln)]):
            want = functools.reduce(lambda a, b: a + b, xs)
            for n in sorted({4, 5, 6, 7, 8, ln, ln + 2, 13}):
                for name in ('treeReduce', 'treeAggregate'):
                    try:
                        rdd = Context().parallelize(copy.deepcopy(xs), n)
                        if name == 'treeReduce':
                            got = rdd.treeReduce(lambda a, b: a + b)
                        else:
                            got = rdd.treeAggregate(type(xs[0])(), lambda a, b: a + b, lambda a, b: a + b)
                    except Exception as e:  # pylint: disable=broad-except
                        got = Err(type(e).__name__)
                    if got != want:
                        yield (f'{name}:order', f'{name}(concat) of {xs!r} in {n} slices', f'gave {got!r}, plain reduce gives {want!r}', None)
    pairs = [(k % 3, k) for k in data]
    for z in ([[]], ([], [0])):
        want = {}
        for k, v in pairs:
            want[k] = op_inner_append(want[k] if k in want else copy.deepcopy(z), v)
        for n in (1, 2, 3, 5, 8):
            for name in ('foldByKey', 'aggregateByKey'):
                zz = copy.deepcopy(z)
                try:
                    if name == 'foldByKey':     # one operator for values and partial results: values shaped like the zero
                        rdd = Context().parallelize([(k, [[v]]) for k, v in pairs], n)
                        got = dict(rdd.foldByKey(zz, op_inner_extend).collect())
                    else:
                        rdd = Context().parallelize(list(pairs), n)
                        got = dict(rdd.aggregateByKey(zz, op_inner_append, op_inner_extend).collect())
                except Exception as e:  # pylint: disable=broad-except
                    got = Err(type(e).__name__)
                if got != want:
                    yield (f'{name}:nested-zero-value', f'{name}({z!r}, inner append), {n} slices', f'gave {got!r}, expected {want!r}', None)
                elif zz != z:
                    yield (f'{name}:zero-mutated', f'{name}({z!r}, inner append), {n} slices', f'caller\'s zero is {zz!r} afterwards', None)


def extra_evidence():
    return {'library': {'fn': [n for n, _ in FN], 'pred': [n for n, _ in PRED], 'gen': [n for n, _ in GEN],
                        'key': [n for n, _ in KEY], 'op': [n for n, _ in OP], 'partf': [p[0] for p in PARTF]},
            'stages': TR, 'actions': ACT}
