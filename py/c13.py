"""C13 -- DataFrame joins on column names match relational join semantics.

case = (op, how, on, left, right)
  op    0: left.join(right, on, how)          1: left.crossJoin(right)  (how/on ignored)
        2: left.join(left, on, how)           3: left.crossJoin(left)   (self-joins on the SAME DataFrame object;
                                                                          the case carries right == left)
  how   the string handed to DataFrame.join ('inner', 'left_outer', 'LeftSemi', ..., also invalid ones)
  on    None | 'name' | ['name', ...]
  left/right = (fields, partitions): fields = [(name, dtype_code, nullable), ...] is the bound schema,
          partitions = [[(cell, ...), ...], ...] the rows of each partition, cell = None | int | str.
The implementation side builds both DataFrames with exactly that partition layout
(createDataFrame(rdd, StructType)), joins, and observes schema fields, df.columns, df.schema.names and the
collected rows (each as (row.__fields__, values)) as a sorted multiset.  The joined DataFrame is then
evaluated again, several times and in several ways ON THE SAME OBJECT (count, collect again, df.rdd.collect(),
a derived filter, toLocalIterator, a derived select/limit): a DataFrame is lazy, every action re-runs the plan,
and every evaluation has to denote the same multiset of rows."""
import itertools
from collections import Counter

from common.coqlit import Err
from pysparkling import Context
from pysparkling.sql.functions import lit
from pysparkling.sql.session import SparkSession
from pysparkling.sql.types import IntegerType, LongType, StringType, StructField, StructType

ID = 'C13'
KERNELS = ['Gen/Joins.v: how/how_name/join_types (join-type constants, JOIN_TYPES)',
           'Gen/Joins.v: schema_on_fields, schema_drops_right (merge_schemas)',
           'Gen/Joins.v: row_pads_left, row_pads_right, row_right_parts (merge_rows_joined_on_values)',
           'Gen/Joins.v: key_is_tuple, rdd_method (join_on_values)']
SHARD = 200
RULE = ('every joined DataFrame is evaluated 7 times on the same object (collect, count, collect, rdd.collect, '
        'filter, toLocalIterator, select/limit); pairs of tables with <= 5 rows per side, 1-2 key columns (occasionally 0) placed anywhere among 0-2 further '
        'columns (names may be shared between the sides), key values from a domain of 2-3 values so that duplicate '
        'and missing keys occur on both sides, x every spelling of the 7 join types accepted by JOIN_TYPES (plus '
        'case/underscore variants and invalid names) x explicit partition layouts of each side over 1..3 partitions '
        '(including empty partitions); exhaustive scopes: all pairs of tables with <= 2 rows per side over 2 key '
        'values x 7 join types (1 key column; 2 key columns over 2x2 key values) x partition counts 1..3 of each '
        'side (all layouts in the thorough tier; there also <= 3 rows per side); a positions stream (key columns at different positions in the two schemas, `on` in every order, self-joins '
        'of the same DataFrame object, crossJoin over 1..3 left partitions); a malformed stream: null keys, `on` names missing on one side, '
        'duplicate column names within a side; non-trivial = both sides non-empty and the join succeeded; '
        'distinct by canonical JSON of the case')
ASSUMPTIONS = [
    'cells are None, int or str (no bool/float: Python would identify 1, 1.0 and True as dict keys)',
    'rows carry their bound schema\'s names as __fields__ (true of every DataFrame built by createDataFrame)',
    'the iteration order of the set union in RDD.cogroup is unspecified: rows are compared as sorted multisets',
    'output partitioning of the joined RDD is not modelled (collect() concatenates the partitions)',
    're-evaluation: the derived select(*columns) is only used when the output names are distinct (select by name is '
    'ambiguous otherwise; limit(10**6) is used instead); in the model re-evaluation is the identity by definition',
]
TRUSTED = ['translator/kernels/c13.py (join-type constants and the how -> field-group/padding/RDD-join tables)',
           'the sort used to canonicalise row multisets exists twice (py/c13.py sort_key, Run/C13_run.v row_cmp)']

TYPES = [LongType, StringType, IntegerType]
HOWS = ['inner', 'cross', 'outer', 'full', 'fullouter', 'left', 'leftouter', 'right', 'rightouter', 'leftsemi',
        'leftanti']
CANON = {'inner': 'inner', 'cross': 'cross', 'outer': 'full', 'full': 'full', 'fullouter': 'full', 'left': 'left',
         'leftouter': 'left', 'right': 'right', 'rightouter': 'right', 'leftsemi': 'leftsemi', 'leftanti': 'leftanti'}
SIX = ['inner', 'left', 'right', 'full', 'leftsemi', 'leftanti']
VARIANTS = ['left_outer', 'right_outer', 'full_outer', 'LEFT', 'Inner', 'left_semi', 'LEFT_ANTI', 'Left_Outer',
            'fullOuter', 'OUTER', 'leftSemi', 'left_anti', 'RIGHT', '_inner_', 'l_e_f_t']
INVALID = ['semi', 'anti', 'foo', '', 'left outer', 'natural', 'leftsemijoin']


def canon_how(how):
    return CANON.get(how.lower().replace('_', ''))


# ------------------------------------------------------------------------------------------------
# implementation runner

def _cell_key(v):
    if v is None:
        return (0,)
    if isinstance(v, int):
        return (1, v)
    return (2, tuple(ord(c) for c in v))


def sort_key(row):
    names, values = row
    return (tuple(tuple(ord(c) for c in n) for n in names), tuple(_cell_key(v) for v in values))


def _df(spark, sc, table):
    fields, parts = table
    schema = StructType([StructField(n, TYPES[t](), nl) for n, t, nl in fields])
    parts = [list(p) for p in parts]
    # one list per partition, flattened inside the partition: exactly the requested layout
    rdd = sc.parallelize(parts, len(parts)).flatMap(lambda p: p) if parts else sc.parallelize([], 1)
    return spark.createDataFrame(rdd, schema)


def _tcode(dt):
    for i, t in enumerate(TYPES):
        if type(dt) is t:  # pylint: disable=unidiomatic-typecheck
            return i
    return 99


REEVAL = ['collect#2', 'rdd.collect', 'filter(true).collect', 'toLocalIterator', 'select/limit.collect']


def _rows(it):
    return sorted(((tuple(r.__fields__), tuple(r)) for r in it), key=sort_key)


def _again(f):
    try:
        return f()
    except Exception as e:  # pylint: disable=broad-except
        return Err(type(e).__name__)


def impl(case):
    op, how, on, left, right = case
    try:
        sc = Context()
        spark = SparkSession(sc)
        ldf = _df(spark, sc, left)
        rdf = ldf if op in (2, 3) else _df(spark, sc, right)
        if ldf.rdd.getNumPartitions() != max(1, len(left[1])) or rdf.rdd.getNumPartitions() != max(1, len(right[1])):
            return Err('HarnessLayout')
        if op in (0, 2):
            j = ldf.join(rdf, on=list(on) if isinstance(on, list) else on, how=how)
        else:
            j = ldf.crossJoin(rdf)
        fields = [(f.name, _tcode(f.dataType), bool(f.nullable)) for f in j.schema.fields]
        columns = list(j.columns)
        names = list(j.schema.names)
        rows = _rows(j.collect())
    except Exception as e:  # pylint: disable=broad-except
        return Err(type(e).__name__)
    for _, vals in rows:
        for v in vals:
            if not (v is None or (isinstance(v, int) and not isinstance(v, bool)) or isinstance(v, str)):
                return Err('HarnessCell')
    # the same object again: every further evaluation has to give the same multiset of rows
    count = _again(j.count)
    distinct = len(set(columns)) == len(columns)
    later = [
        _again(lambda: _rows(j.collect())),
        _again(lambda: _rows(j.rdd.collect())),
        _again(lambda: _rows(j.filter(lit(True)).collect())),
        _again(lambda: _rows(j.toLocalIterator())),
        # select by name is only meaningful when the output names are distinct
        _again(lambda: _rows((j.select(*columns) if distinct else j.limit(10 ** 6)).collect())),
    ]
    if list(j.columns) != columns:
        return Err('HarnessColumnsChanged')
    # True = same multiset as the first collect(); otherwise what was observed instead
    later = [True if x == rows else x for x in later]
    return (fields, columns, names, rows, count, later)


# ------------------------------------------------------------------------------------------------
# property oracle: nested-loop reference, independent of the Coq model

def _flat(table):
    return [r for p in table[1] for r in p]


def in_scope(case):
    """The inputs the property speaks about: a valid join type, `on` = one or more names shared by both
    sides, column names unique within each side, no null key."""
    op, how, on, left, right = case
    ln, rn = [f[0] for f in left[0]], [f[0] for f in right[0]]
    if len(set(ln)) != len(ln) or len(set(rn)) != len(rn):
        return False
    if any(len(r) != len(ln) for r in _flat(left)) or any(len(r) != len(rn) for r in _flat(right)):
        return False
    if op in (2, 3) and (left[0] != right[0] or _flat(left) != _flat(right)):
        return False
    if op in (1, 3):
        return True
    h = canon_how(how)
    if h is None or h == 'cross':
        return False
    keys = [on] if isinstance(on, str) else on
    if not keys or len(set(keys)) != len(keys):
        return False
    if any(k not in ln or k not in rn for k in keys):
        return False
    for names, rows in ((ln, _flat(left)), (rn, _flat(right))):
        for r in rows:
            if any(r[names.index(k)] is None for k in keys):
                return False
    return True


def reference(case):
    """(columns, Counter of value tuples) by the textbook nested loop."""
    op, how, on, left, right = case
    ln, rn = [f[0] for f in left[0]], [f[0] for f in right[0]]
    L, R = _flat(left), _flat(right)
    if op in (1, 3):
        return ln + rn, Counter(tuple(a) + tuple(b) for a in L for b in R)
    h = canon_how(how)
    keys = [on] if isinstance(on, str) else list(on)
    lrest = [i for i, n in enumerate(ln) if n not in keys]
    rrest = [i for i, n in enumerate(rn) if n not in keys]

    def kl(a):
        return tuple(a[ln.index(k)] for k in keys)

    def kr(b):
        return tuple(b[rn.index(k)] for k in keys)

    def out(a, b):
        k = kl(a) if a is not None else kr(b)
        lv = tuple(a[i] for i in lrest) if a is not None else (None,) * len(lrest)
        if h in ('leftsemi', 'leftanti'):
            return k + lv
        rv = tuple(b[i] for i in rrest) if b is not None else (None,) * len(rrest)
        return k + lv + rv
    rows = Counter()
    if h in ('inner', 'left', 'full'):
        for a in L:
            m = 0
            for b in R:
                if kl(a) == kr(b):
                    rows[out(a, b)] += 1
                    m += 1
            if m == 0 and h != 'inner':
                rows[out(a, None)] += 1
        if h == 'full':
            for b in R:
                if not any(kl(a) == kr(b) for a in L):
                    rows[out(None, b)] += 1
    elif h == 'right':
        for b in R:
            m = 0
            for a in L:
                if kl(a) == kr(b):
                    rows[out(a, b)] += 1
                    m += 1
            if m == 0:
                rows[out(None, b)] += 1
    elif h == 'leftsemi':
        for a in L:
            if any(kl(a) == kr(b) for b in R):
                rows[out(a, None)] += 1
    elif h == 'leftanti':
        for a in L:
            if not any(kl(a) == kr(b) for b in R):
                rows[out(a, None)] += 1
    cols = keys + [ln[i] for i in lrest] + ([] if h in ('leftsemi', 'leftanti') else [rn[i] for i in rrest])
    return cols, rows


def oracle(case, result):
    if not in_scope(case):
        return None
    op, how = case[0], case[1]
    h = 'cross' if op in (1, 3) else canon_how(how)
    site = 'DataFrame.crossJoin' if op in (1, 3) else f'DataFrame.join[{h}]'
    if op in (2, 3):
        site += ':self'
    if isinstance(result, Err):
        return (f'{site}:raises', f'join raised {result.name}')
    fields, columns, names, rows, count, later = result
    cols, want = reference(case)
    if columns != cols:
        return (f'{site}:columns', f'df.columns = {columns}, expected {cols}')
    if names != cols or [f[0] for f in fields] != cols:
        return (f'{site}:schema-names', f'schema names = {names}, expected {cols}')
    for rf, vals in rows:
        if list(rf) != cols or len(vals) != len(cols):
            return (f'{site}:row-fields', f'a row has fields {list(rf)} / {len(vals)} values, declared columns are {cols}')
    got = Counter(vals for _, vals in rows)
    if got != want:
        missing = list((want - got).elements())[:3]
        extra = list((got - want).elements())[:3]
        return (f'{site}:rows', f'rows differ from the nested-loop reference: missing {missing}, unexpected {extra}')
    # the first collect() agrees with the reference; so must every later evaluation of the same DataFrame
    total = sum(want.values())
    if count != total:
        return (f'{site}:re-evaluation:count', f'count() after collect() = {count!r}, the reference has {total} rows')
    for label, x in zip(REEVAL, later):
        if x is not True:
            shown = x if isinstance(x, Err) else [v for _, v in x][:4]
            return (f'{site}:re-evaluation:{label}',
                    f'{label} after the first collect() gave {shown!r} ({len(x) if isinstance(x, list) else "-"} rows), '
                    f'the first collect() and the reference have {total} rows')
    return None


def nontrivial(case, result):
    return not isinstance(result, Err) and bool(_flat(case[3])) and bool(_flat(case[4]))


def kind(case):
    op, how, on, left, right = case
    if op == 1:
        return 'crossJoin'
    if op == 3:
        return 'crossJoin/self'
    h = canon_how(how) or 'invalid'
    nk = 'none' if on is None else 1 if isinstance(on, str) else len(on)
    return f'{h}/k{nk}' + ('/self' if op == 2 else '')


# ------------------------------------------------------------------------------------------------
# generators

def layouts(rows, n):
    """All ways to cut `rows` (in order) into n consecutive, possibly empty, partitions."""
    for cuts in itertools.combinations_with_replacement(range(len(rows) + 1), n - 1):
        b = (0,) + cuts + (len(rows),)
        yield [list(rows[b[i]:b[i + 1]]) for i in range(n)]


def random_layout(rng, rows, n=None):
    n = n or rng.randint(1, 3)
    cuts = sorted(rng.randint(0, len(rows)) for _ in range(n - 1))
    b = [0] + cuts + [len(rows)]
    return [list(rows[b[i]:b[i + 1]]) for i in range(n)]


def even_layout(rows, n):
    return [list(rows[i * len(rows) // n:(i + 1) * len(rows) // n]) for i in range(n)]


def exhaustive_tables(keyvals, side, maxrows=2):
    """All tables with <= maxrows rows whose keys range over keyvals; payload column distinguishes the rows."""
    out = []
    for n in range(maxrows + 1):
        for ks in itertools.product(keyvals, repeat=n):
            out.append([tuple(k) + (f'{side}{i}',) for i, k in enumerate(ks)])
    return out


def gen_exhaustive(rng, tier):
    cases = []
    thorough = tier == 'thorough'
    # 1 key column, keys in {1, 2}
    lf = [('k', 0, True), ('a', 1, True)]
    rf = [('k', 0, True), ('b', 1, True)]
    lt, rt = exhaustive_tables([(1,), (2,)], 'l'), exhaustive_tables([(1,), (2,)], 'r')
    for L in lt:
        for R in rt:
            for h in SIX:
                if thorough:
                    combos = [(a, b) for a in (1, 2, 3) for b in (1, 2, 3)]
                else:
                    combos = [(rng.randint(1, 3), rng.randint(1, 3))]
                for nl, nr in combos:
                    if thorough and nl == 3 and nr == 3:
                        lays = [(x, y) for x in layouts(L, nl) for y in layouts(R, nr)]
                    else:
                        lays = [(even_layout(L, nl), even_layout(R, nr))]
                    for pl, pr in lays:
                        cases.append((0, h, ['k'] if rng.random() < 0.7 else 'k', (lf, pl), (rf, pr)))
            nl, nr = rng.randint(1, 3), rng.randint(1, 3)
            cases.append((1, 'cross', None, (lf, random_layout(rng, L, nl)), (rf, random_layout(rng, R, nr))))
    if thorough:
        # <= 3 rows per side over the same 2 key values, random layouts
        for L in exhaustive_tables([(1,), (2,)], 'l', 3):
            for R in exhaustive_tables([(1,), (2,)], 'r', 3):
                if len(L) < 3 and len(R) < 3:
                    continue
                for h in SIX:
                    cases.append((0, h, ['k'], (lf, random_layout(rng, L)), (rf, random_layout(rng, R))))
    # 2 key columns, keys in {1,2} x {'x','y'}
    lf2 = [('k', 0, True), ('a', 1, True), ('j', 1, True)]
    rf2 = [('j', 1, True), ('k', 0, True), ('b', 1, True)]
    kv = [(1, 'x'), (1, 'y'), (2, 'x'), (2, 'y')]
    lt2 = [[(k, f'l{i}', j) for i, (k, j) in enumerate(ks)] for n in range(3) for ks in itertools.product(kv, repeat=n)]
    rt2 = [[(j, k, f'r{i}') for i, (k, j) in enumerate(ks)] for n in range(3) for ks in itertools.product(kv, repeat=n)]
    pairs = [(L, R) for L in lt2 for R in rt2]
    if not thorough:
        pairs = rng.sample(pairs, 60)
    for L, R in pairs:
        for h in (SIX if thorough else rng.sample(SIX, 2)):
            on = ['k', 'j'] if rng.random() < 0.5 else ['j', 'k']
            cases.append((0, h, on, (lf2, random_layout(rng, L)), (rf2, random_layout(rng, R))))
    return cases


NAMES_OTHER = ['a', 'b', 'v', 'w']
STRS = ['x', 'y', 'z', '', 'é']


def rand_cell(rng, t, nullable):
    if nullable and rng.random() < 0.2:
        return None
    if t == 1:
        return rng.choice(STRS) + rng.choice(['', '1'])
    return rng.randint(-2, 5)


def gen_random_case(rng, malformed=False):
    nk = rng.choice([1, 1, 1, 2, 2, 0] if not malformed else [1, 2])
    keynames = ['k', 'j'][:nk]
    keytypes = [rng.choice([0, 1, 2]) for _ in keynames]
    dom = []
    for t in keytypes:
        if t == 1:
            dom.append(rng.sample(['p', 'q', 'r', ''], rng.randint(2, 3)))
        else:
            dom.append(rng.sample([0, 1, 2, -1, 10 ** 12 if t == 0 else 7], rng.randint(2, 3)))
    tables = []
    for side in (0, 1):
        others = rng.sample(NAMES_OTHER, rng.randint(0, 2))
        cols = [(n, kt, 'key') for n, kt in zip(keynames, keytypes)]
        for n in others:
            cols.append((n, rng.choice([0, 1, 2]), 'other'))
        rng.shuffle(cols)
        fields = []
        for n, t, role in cols:
            if role == 'key' and t == 2 and rng.random() < 0.3:
                t = 0     # int on one side, bigint on the other
            fields.append((n, t, rng.random() < 0.8))
        nrows = rng.choice([0, 1, 2, 2, 3, 3, 4, 4])
        rows = []
        for _ in range(nrows):
            r = []
            for (n, t, role), f in zip(cols, fields):
                if role == 'key':
                    r.append(rng.choice(dom[keynames.index(n)]))
                else:
                    r.append(rand_cell(rng, f[1], f[2]))
            rows.append(tuple(r))
        tables.append((fields, rows))
    (lf, lrows), (rf, rrows) = tables
    x = rng.random()
    how = rng.choice(HOWS) if x < 0.7 else rng.choice(VARIANTS) if x < 0.95 else rng.choice(INVALID)
    if canon_how(how) == 'cross' or nk == 0 and rng.random() < 0.5:
        if rng.random() < 0.5:
            return (1, 'cross', None, (lf, random_layout(rng, lrows)), (rf, random_layout(rng, rrows)))
        return (0, how if canon_how(how) == 'cross' else rng.choice(HOWS), rng.choice([None, None, keynames]),
                (lf, random_layout(rng, lrows)), (rf, random_layout(rng, rrows)))
    on = keynames[0] if nk == 1 and rng.random() < 0.3 else list(keynames)
    if rng.random() < 0.5 and isinstance(on, list):
        on = on[::-1]
    if malformed:
        m = rng.choice([0, 1, 2, 4])
        if m == 0:      # null keys (nullable key column on that side)
            side = rng.choice([0, 1])
            fields, rows = (lf, lrows) if side == 0 else (rf, rrows)
            idx = [i for i, f in enumerate(fields) if f[0] in keynames]
            fields = [(n, t, True) if i in idx else (n, t, nl) for i, (n, t, nl) in enumerate(fields)]
            rows = [tuple(None if i in idx and rng.random() < 0.5 else v for i, v in enumerate(r)) for r in rows]
            if side == 0:
                lf, lrows = fields, rows
            else:
                rf, rrows = fields, rows
            if rng.random() < 0.5:   # ... on both sides
                idx = [i for i, f in enumerate(rf) if f[0] in keynames]
                rf = [(n, t, True) if i in idx else (n, t, nl) for i, (n, t, nl) in enumerate(rf)]
                rrows = [tuple(None if i in idx and rng.random() < 0.5 else v for i, v in enumerate(r)) for r in rrows]
        elif m == 1:    # an `on` name that one side (or both) lacks
            on = (list(on) if isinstance(on, list) else [on]) + [rng.choice(['a', 'b', 'zz'])]
            rng.shuffle(on)
        elif m == 2:    # duplicate column name within a side (same or different type)
            side = rng.choice([0, 1])
            fields, rows = (lf, lrows) if side == 0 else (rf, rrows)
            src = rng.randrange(len(fields))
            n, t, nl = fields[src]
            t2, nl2 = (t, nl) if rng.random() < 0.5 else (rng.choice([0, 1, 2]), rng.random() < 0.5 or True)
            pos = rng.randint(0, len(fields))
            fields = fields[:pos] + [(n, t2, nl2)] + fields[pos:]
            rows = [r[:pos] + (rand_cell(rng, t2, nl2) if rng.random() < 0.7 or r[src] is None or t2 != t else r[src],)
                    + r[pos:] for r in rows]
            if side == 0:
                lf, lrows = fields, rows
            else:
                rf, rrows = fields, rows
        else:           # on given, how cross / on None, how not cross
            if rng.random() < 0.5:
                how = 'cross'
            else:
                on = None
    if not malformed and rng.random() < 0.12:
        # self-join: the same DataFrame object on both sides
        t = (lf, random_layout(rng, lrows))
        return (2, how, on, t, t)
    return (0, how, on, (lf, random_layout(rng, lrows)), (rf, random_layout(rng, rrows)))


def gen_positions(rng, tier):
    """Key columns at different positions in the two schemas, `on` listed in every order (also against the
    schema order), every join type, plus the self-joins of both tables."""
    lf = [('k1', 0, True), ('k2', 0, True), ('a', 1, True)]
    rf = [('b', 1, True), ('k2', 0, True), ('k1', 0, True)]
    L = [(1, 10, 'a1'), (1, 10, 'a2'), (1, 11, 'a3'), (2, 10, 'a4'), (10, 1, 'a5')]
    R = [('b1', 10, 1), ('b2', 10, 1), ('b3', 10, 3), ('b4', 2, 10), ('b5', 1, 10)]
    cases = []
    for on in (['k1'], ['k2'], ['k1', 'k2'], ['k2', 'k1'], 'k2'):
        for h in SIX:
            cases.append((0, h, on, (lf, random_layout(rng, L)), (rf, random_layout(rng, R))))
            cases.append((0, h, on, (rf, random_layout(rng, R)), (lf, random_layout(rng, L))))
            if tier == 'thorough' or rng.random() < 0.5:
                for f, rows in ((lf, L), (rf, R)):
                    t = (f, random_layout(rng, rows))
                    cases.append((2, h, on, t, t))
    for f, rows in ((lf, L), (rf, R)):
        t = (f, random_layout(rng, rows))
        cases.append((3, 'cross', None, t, t))
        for n in (1, 2, 3):
            cases.append((1, 'cross', None, (lf, even_layout(L, n)), (rf, random_layout(rng, R))))
    return cases


DOCTEST = (0, 'left_outer', 'id',
           ([('test_value', 1, False), ('id', 0, False), ('side', 1, False)],
            [[('test_value', 2, 'left')], [('test_value', 4, 'left')]]),
           ([('test_value', 1, False), ('id', 0, False), ('side', 1, False)],
            [[('test_value', 1, 'right')], [('test_value', 2, 'right')]]))


# minimal inputs of the two defects repaired in /repo (f381172: duplicate keys collapsed in the inner join;
# 7a47d84: semi/anti joins declared the right side's columns)
_KF = [('k', 0, True), ('a', 1, True)]
_KG = [('k', 0, True), ('b', 1, True)]
REGRESSIONS = [
    (0, 'inner', ['k'], (_KF, [[(1, 'a0'), (1, 'a1')]]), (_KG, [[(1, 'b0')], [(1, 'b1')]])),
    (0, 'leftsemi', ['k'], (_KF, [[(1, 'a0'), (2, 'a1')]]), (_KG, [[(1, 'b0'), (1, 'b1')]])),
    (0, 'leftanti', ['k'], (_KF, [[(1, 'a0')], [(2, 'a1')]]), (_KG, [[(1, 'b0'), (1, 'b1')]])),
]


def generate(rng, tier):
    cases = [DOCTEST] + REGRESSIONS
    for h in SIX:
        cases.append((0, h) + DOCTEST[2:])
    cases.append((1, 'cross', None) + DOCTEST[3:])
    cases += gen_positions(rng, tier)
    cases += gen_exhaustive(rng, tier)
    n = 1500 if tier == 'quick' else 30000
    for _ in range(n):
        cases.append(gen_random_case(rng))
    for _ in range(n // 6):
        cases.append(gen_random_case(rng, malformed=True))
    return cases


def shrink_candidates(case):
    op, how, on, (lf, lp), (rf, rp) = case
    L, R = [r for p in lp for r in p], [r for p in rp for r in p]
    if op in (2, 3):
        if len(lp) > 1:
            yield (op, how, on, (lf, [L]), (lf, [L]))
        for i in range(len(L)):
            t = (lf, [L[:i] + L[i + 1:]])
            yield (op, how, on, t, t)
        keys = [] if on is None else [on] if isinstance(on, str) else on
        for i, f in enumerate(lf):
            if f[0] not in keys:
                t = (lf[:i] + lf[i + 1:], [[r[:i] + r[i + 1:] for r in L]])
                yield (op, how, on, t, t)
        return
    if len(lp) > 1 or len(rp) > 1:
        yield (op, how, on, (lf, [L]), (rf, [R]))
    for i in range(len(L)):
        yield (op, how, on, (lf, [L[:i] + L[i + 1:]]), (rf, [R]))
    for i in range(len(R)):
        yield (op, how, on, (lf, [L]), (rf, [R[:i] + R[i + 1:]]))
    keys = [] if on is None else [on] if isinstance(on, str) else on
    for i, f in enumerate(lf):
        if f[0] not in keys:
            yield (op, how, on, (lf[:i] + lf[i + 1:], [[r[:i] + r[i + 1:] for r in L]]), (rf, [R]))
    for i, f in enumerate(rf):
        if f[0] not in keys:
            yield (op, how, on, (lf, [L]), (rf[:i] + rf[i + 1:], [[r[:i] + r[i + 1:] for r in R]]))
