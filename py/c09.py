"""C09 -- existing outputs are never overwritten and _SUCCESS marks only complete saves.

case = (saver, max_retries, parts, pre, wfaults, cfaults, ext, persist, name, spell)
  spell    how the target's path is written when handed to the saver: 0 absolute, 1 with a '.' component, 2 doubled
           separators, 3 trailing separator, 4 relative to the working directory, 5 through a symlinked directory followed
           by '..' (work/latest/../<name> with work/latest -> store/current: the OS resolves it to store/<name>, a
           textual normalisation to work/<name>), 6 = 5 with a '.' component and a trailing separator
  name     the target's own name below the scratch directory, possibly with one parent component ('out', '_staging',
           'runs/_latest', ...); the codec extension is appended to it
  persist  (mode, k): mode 0 the saved data set is not persisted; 1 it is persisted (cache()) and take(k) ran on it
           beforehand (k = 0: nothing materialised yet); 2 the data is persisted BELOW the failing function
  ext      codec extension appended to the target's name: '' | '.gz' | '.bz2' | '.xz' | '.lzma' | '.zip' | '.tar' |
           '.tar.gz' | '.tar.bz2' (part files then carry the tail from its last dot; file contents are observed decoded)
  saver    0 saveAsTextFile, 1 saveAsPickleFile; 2, 3: the same, the target given as file:// URL
  parts    text: [[line, ...], ...]; pickle: [(pickle.dumps(elements), elements), ...]  (pickle is a black box
           whose output is handed to the model)
  pre      state of the target path before the save, as faultfs.snapshot: (0,) | (1, bytes) | (2, [((kind, i), bytes)...])
  wfaults  [(dump_call_index, mode, j, cls)]  mode 0 before / 1 after mkdir / 2 torn after j bytes   (faultfs.FaultFS)
  cfaults  [(partition, attempt, cls, lazy, pos)]  computations that raise, at the call or lazily when element pos
           is asked for (pos >= size: after the last element)                                  (faultfs.FaultyPartitions)
  cls      0 the injector's own Exception subclass, 1 OSError, 2 StopIteration, 3 GeneratorExit,
           4 (computations only) StopIteration raised by next() on an empty iterator inside the partition function

result = (exception or None, final state of the target, state after every dump call, number of dump calls,
          Context.locked, outcome of a follow-up job on the same context, what reading the target returns or None
          when it is not read, the raw file names in the target directory)."""
import atexit
import glob
import json
import itertools
import os
import pickle
import shutil

from common.coqlit import Err, uncanon
import faultfs
from faultfs import BEFORE, GENEXIT, INJECTED, MKDIR, NATURAL, OSERROR, STOP, TORN
from pysparkling import Context

ID = 'C09'
KERNELS = ['Gen/SaveOrder.v: text_steps', 'Gen/SaveOrder.v: pickle_steps', 'Gen/SaveOrder.v: runjob_lock_release',
           'Gen/SaveOrder.v: runjob_local_kind', 'Gen/SaveOrder.v: marker_name',
           'Gen/SaveOrder.v: part_name']
SHARD = 120
TEXT, PICKLE = 0, 1   # + 2: the same saver called with a file:// URL of the target
ABSENT = (0,)
EXTS = ['.gz', '.bz2', '.xz', '.lzma', '.zip', '.tar', '.tar.gz', '.tar.bz2']
ALL_BYTES = 5000   # a torn write 'after ALL_BYTES bytes' wrote everything (compressed or not) before it raised

RULE = ('cases (saver, max_retries, partitions, pre-state, write-fault plan, compute-fault plan). Exhaustive part: '
        'text and pickle savers (also called with a file:// URL of the target) x target names plain and with every codec '
        'extension (.gz .bz2 .xz .lzma .zip .tar .tar.gz .tar.bz2; n = 1..3 quick, 1..5 thorough, every crash point, '
        'contents compared decoded) x n = 1..5 partitions (6 in the thorough tier) x every crash point k = 0..n (part files '
        'and marker; the single file for n = 1) x failure modes {before, after mkdir, torn after 0 / 1 / all bytes} x '
        '{max_retries 1; max_retries 2 with the fault on one attempt (masked by the retry); max_retries 2, 3 with the '
        'fault on every attempt}; computation of partition k failing on every attempt and on the first attempts only, '
        'max_retries 1..3; target pre-states {file, empty directory, directory with foreign files, directory holding '
        'a previous complete save, a previous partial save} x {no fault, a write fault, a compute fault}. Random part: '
        'several write and compute faults at once, max_retries 1..4, random pre-state. Lines are short ASCII strings '
        '(empty lines and empty partitions included). non-trivial = a fault is planned or the target pre-exists; '
        'distinct by canonical JSON of the case')
ASSUMPTIONS = [
    'local file system, DummyPool (sequential tasks in partition order), catch_exceptions=False, retry_wait=0',
    'max_retries >= 1 (with 0 the real _run_task recurses without bound; outside the property, see C04)',
    'the codecs are black boxes (C08): file contents are compared after decoding with the codec the file name selects; '
    'on codec targets a torn write leaves nothing or everything of the compressed stream; lines are ASCII without '
    'line-break characters',
    'pickle is a black box: the bytes pickle.dumps produces for a partition are given to the model in the case',
    'a failing write is an exception raised by Local.dump before it starts, at open(), or from the stream while '
    'writing (torn file); faults of os.makedirs itself and faults after the last byte are not injected',
    'fault classes: an ordinary Exception subclass, OSError, StopIteration (raised directly, from a generator, and by '
    'next() on an empty iterator inside the partition function), GeneratorExit as the BaseException that is not an '
    'Exception; KeyboardInterrupt/SystemExit are out of scope; an iterator that merely ENDS early (StopIteration from '
    '__next__) is a shorter partition / shorter stream, not a fault, and is not injected',
    'fewer than 100000 partitions (beyond that part-%05d names stop sorting by index; hypothesis valid_name of the name-order theorem)',
]
TRUSTED = ['translator/kernels/c09.py (statement-shape classifier for the two savers and Context.runJob)',
           'py/faultfs.py (fault injector: Local.dump wrapper, failing io.open, torn stream, raising partition function)']

_BASE = os.path.join(os.environ.get('VERIF_ROOT', '/verif'), '.work', f'C09_fs_{os.getpid()}')
_counter = itertools.count()


def _cleanup():
    shutil.rmtree(_BASE, ignore_errors=True)


atexit.register(_cleanup)


def _elements(saver, part):
    return list(part) if saver % 2 == TEXT else list(part[1])


def _content(saver, part):
    """What the part file of this partition must hold (oracle's own rendering)."""
    if saver % 2 == TEXT:
        return ''.join(f'{line}\n' for line in part).encode('utf8')
    return pickle.dumps(list(part[1]))


def kind(case):
    saver, m, parts, pre, wf, cf, ext, persist, name, spell = case
    s = ('text' if saver % 2 == TEXT else 'pickle') + ('-url' if saver >= 2 else '')
    p = ['absent', 'file', 'dir'][pre[0]]
    f = ('w' if wf else '') + ('c' if cf else '') or 'nofault'
    return f'{s}{"+codec" if ext else ""}{"+persisted" if persist[0] else ""}{"+name" if name != "out" else ""}{"+spelled" if spell else ""}/{p}/{f}'


def impl(case):
    saver, m, parts, pre, wfaults, cfaults, ext, persist, name, spell = case
    pmode, pk = persist
    pre = tuple(pre)
    n = len(parts)
    d = os.path.join(_BASE, str(next(_counter)))
    os.makedirs(d)
    # layout: <d>/store/current/, <d>/work/latest -> <d>/store/current; the target lives in <d>/store/
    os.makedirs(os.path.join(d, 'store', 'current'))
    os.makedirs(os.path.join(d, 'work'))
    os.symlink(os.path.join(d, 'store', 'current'), os.path.join(d, 'work', 'latest'))
    target = os.path.join(d, 'store', name + ext)
    os.makedirs(os.path.dirname(target), exist_ok=True)
    url = ('file://' if saver >= 2 else '') + _spelled(d, target, name + ext, spell)
    try:
        faultfs.materialise(target, pre, ext)
        outside_before = _outside(d, target)
        ctx = Context(max_retries=m)
        data = [_elements(saver, p) for p in parts]
        faulty = faultfs.FaultyPartitions(cfaults)
        rdd = ctx.parallelize(range(n), n).mapPartitionsWithIndex(faultfs.PartitionData(data))
        if pmode == 2:
            rdd = rdd.persist()
        rdd = rdd.mapPartitionsWithIndex(faulty)
        if pmode == 1:
            rdd = rdd.cache()
        assert rdd.getNumPartitions() == n
        if pmode and pk:
            # materialise part of the persisted data set beforehand, faults not armed
            faulty.armed = False
            got = [rdd.first()] if pk == 1 and any(data) else rdd.take(pk)
            assert got == [x for part in data for x in part][:pk]
            faulty.armed = True
        outcome = None
        with faultfs.FaultFS(target, wfaults, ext) as ff:
            try:
                if saver % 2 == TEXT:
                    rdd.saveAsTextFile(url)
                else:
                    rdd.saveAsPickleFile(url)
            except (KeyboardInterrupt, SystemExit):
                raise
            except BaseException as e:  # pylint: disable=broad-except
                outcome = Err(type(e).__name__)   # BaseException: GeneratorExit is one of the injected classes
        final = faultfs.snapshot(target, ext)
        hist = list(ff.snapshots)
        locked = bool(ctx.locked)
        try:
            r = ctx.parallelize([0, 1, 2], 2).collect()
            follow = None if r == [0, 1, 2] else Err('WrongResult')
        except Exception as e:  # pylint: disable=broad-except
            follow = Err(type(e).__name__)
        read = per_part = read_glob = resave = None
        names = sorted(os.listdir(target), key=lambda x: x.encode()) if os.path.isdir(target) else []
        if outcome is None or (pre == ABSENT and _has_marker(final)):
            c2 = Context()

            def rd(u):
                try:
                    return (c2.textFile(u) if saver % 2 == TEXT else c2.pickleFile(u)).collect()
                except Exception as e:  # pylint: disable=broad-except
                    return Err(type(e).__name__)
            read = rd(url)
            if os.path.isdir(target):
                # every part file on its own, in name order
                per_part = [rd(url + '/' + f) for f in names if f.startswith('part')]
                read_glob = rd(url + '/part-*')
        if outcome is None:
            # a second save of the same data to the same path, no faults, fresh context
            c3 = Context()
            again = c3.parallelize(range(n), n).mapPartitionsWithIndex(faultfs.PartitionData(data))
            try:
                (again.saveAsTextFile if saver % 2 == TEXT else again.saveAsPickleFile)(url)
                r3 = None
            except Exception as e:  # pylint: disable=broad-except
                r3 = Err(type(e).__name__)
            resave = (r3, faultfs.snapshot(target, ext) == final)
        stray = sorted(_outside(d, target) - outside_before)
        return (outcome, final, hist, ff.calls, locked, follow, read, names, per_part, read_glob, resave, stray)
    finally:
        shutil.rmtree(d, ignore_errors=True)


def _spelled(d, target, rel, spell):
    if spell == 1:
        return os.path.join(d, 'store', '.', rel)
    if spell == 2:
        return target.replace('/', '//')
    if spell == 3:
        return target + '/'
    if spell == 4:
        return os.path.relpath(target, os.getcwd())
    if spell == 5:
        return os.path.join(d, 'work', 'latest', '..', rel)
    if spell == 6:
        return os.path.join(d, 'work', 'latest', '..', '.', rel) + '/'
    return target


def _outside(d, target):
    """Every path below the scratch directory that is not the target or inside it."""
    out = set()
    for root, dirs, files in os.walk(d):
        for x in dirs + files:
            p = os.path.join(root, x)
            if p != target and not p.startswith(target + os.sep):
                out.add(os.path.relpath(p, d))
    return out


def _has_marker(snap):
    return snap[0] == 2 and any(tuple(c) == (1, 0) for c, _ in snap[1])


def _pickle_items(raw):
    """Every object pickled into `raw`, lists flattened (one frame per partition or several batches: the oracle
    does not prescribe the framing); None when the bytes are not a sequence of pickles."""
    import io
    out, stream = [], io.BytesIO(raw)
    try:
        while stream.tell() < len(raw):
            obj = pickle.load(stream)
            out.extend(obj) if isinstance(obj, list) else out.append(obj)
    except Exception:  # pylint: disable=broad-except
        return None
    return out if raw else None


def _holds(saver, part, raw):
    """The file content `raw` is the data of partition `part`: text files byte for byte (one line per element),
    pickle files by what they contain."""
    if saver % 2 == TEXT:
        return raw == _content(saver, part)
    return _pickle_items(raw) == _elements(saver, part)


def _complete(saver, parts, snap):
    """snap is exactly the directory of a complete save of `parts`."""
    if snap[0] != 2 or [tuple(c) for c, _ in snap[1]] != [(1, 0)] + [(0, i) for i in range(len(parts))]:
        return False
    return snap[1][0][1] == b'' and all(_holds(saver, p, b) for p, (_, b) in zip(parts, snap[1][1:]))


def oracle(case, result):
    """The statement of C09 evaluated on what the implementation did (no reference to the Coq model)."""
    saver, m, parts, pre, wfaults, cfaults, ext, persist, name, spell = case
    pre = tuple(pre)
    n = len(parts)
    site = 'saveAsTextFile' if saver % 2 == TEXT else 'saveAsPickleFile'
    if isinstance(result, Err):
        return (f'{site}:harness', f'could not observe: {result}')
    outcome, final, hist, calls, locked, follow, read, names, per_part, read_glob, resave, stray = result
    flat = [x for p in parts for x in _elements(saver, p)]
    # the context remains usable, whatever happened
    if locked or follow is not None:
        return (f'{site}:context-unusable-after-{"failed" if outcome else "successful"}-save',
                f'locked={locked}, follow-up job: {follow!r}')
    # 0. a save writes into its target and nowhere else, however the target's path is spelled
    if stray:
        return (f'{site}:write-outside-target', f'spelling {spell}: created {stray!r} next to the target')
    # 1. an existing target: FileAlreadyExistsException before anything is written or modified
    if pre != ABSENT:
        if outcome != Err('FileAlreadyExistsException'):
            return (f'{site}:existing-target-not-refused', f'pre-state kind {pre[0]}: outcome {outcome!r}')
        if calls != 0 or hist:
            return (f'{site}:write-before-existence-check', f'{calls} dump calls on an existing target')
        if _norm(final) != _norm(pre):
            return (f'{site}:existing-target-modified', f'before {pre!r} after {final!r}')
        return None
    # 2. the marker only ever sits on a complete set of part files (every intermediate state and the final one)
    for t, snap in enumerate(hist + [final]):
        if _has_marker(snap) and not (n != 1 and _complete(saver, parts, snap)):
            # (a leftover file of any other name next to the marker counts: the directory is not the saved data set)
            return (f'{site}:marker-on-incomplete-save', f'after dump call {t}: {snap!r}' + (f' names {names!r}' if t == len(hist) else ''))
    # 3. a failed save leaves no marker (unless the failing write is the marker write itself, torn after the
    #    file was created: an empty file cannot be half-written) and raises one of the injected faults
    if outcome is not None:
        prev = hist[-2] if len(hist) >= 2 else ABSENT
        torn_marker = (calls > 0 and len(hist) == calls
                       and any(w[0] == calls - 1 and w[1] == TORN for w in wfaults)
                       and not _has_marker(prev) and _has_marker(hist[-1]))
        if _has_marker(final) and not torn_marker:
            return (f'{site}:marker-after-failed-save', f'outcome {outcome!r}, final {final!r}')
        allowed = {_CLS_NAME[w[3]] or 'InjectedWriteFault' for w in wfaults} \
            | {_CLS_NAME[c[2]] or 'InjectedComputeFault' for c in cfaults}
        if 'StopIteration' in allowed:
            allowed.add('RuntimeError')    # what a StopIteration becomes when it crosses a generator (PEP 479)
        if outcome.name not in allowed:
            return (f'{site}:foreign-exception', f'outcome {outcome!r}, faults in the plan raise {sorted(allowed)}')
    else:
        # 4. success is reported only for a complete save
        if n == 1:
            if final[0] != 1 or not _holds(saver, parts[0], final[1]):
                return (f'{site}:success-without-complete-output', f'final {final!r}')
        elif not _complete(saver, parts, final):
            return (f'{site}:success-without-complete-output', f'final {final!r}, names {names!r}')
        else:
            # exactly <path>/_SUCCESS and the part files exist, nothing else, and the marker was written last
            sfx = faultfs.codec_suffix(ext)
            want = sorted(['_SUCCESS'] + [f'part-{i:05d}{sfx}' for i in range(n)], key=lambda x: x.encode())
            if names != want:
                return (f'{site}:complete-save-wrong-names', f'directory holds {names!r}, expected {want!r}')
            if not hist or not _has_marker(hist[-1]) or any(_has_marker(h) for h in hist[:-1]):
                return (f'{site}:marker-not-written-last', f'history {hist!r}')
    # 5. the error reaches the caller
    # (partitions of a persisted data set that take(k) materialised beforehand are not computed by the save)
    skip = 0
    if persist[0] == 1:
        need = persist[1]
        while need > 0 and skip < n:
            need -= len(_elements(saver, parts[skip]))
            skip += 1
    for i in range(skip, n):
        if all((i, a) in {(c[0], c[1]) for c in cfaults} for a in range(1, m + 1)) and outcome is None:
            return (f'{site}:compute-failure-swallowed', f'partition {i} fails on every attempt, save returned normally')
    if not cfaults and wfaults and outcome is None:
        ks = sorted(w[0] for w in wfaults)
        first = ks[0]
        if n == 1:
            swallowed = first == 0
        else:
            # the first `first` dump calls succeed, i.e. part files 0..first-1 (first <= n); then part `first` is
            # attempted max_retries times (calls first .. first+m-1), the marker once
            width = m if first < n else 1
            swallowed = first <= n and all(first + t in ks for t in range(width))
        if swallowed:
            return (f'{site}:write-failure-swallowed', f'write faults {wfaults!r} (max_retries {m}), save returned normally')
    # 5b. what a successful save wrote is not overwritten by a second save to the same path
    if resave is not None and resave != (Err('FileAlreadyExistsException'), True):
        return (f'{site}:second-save-not-refused', f'second save to {name!r}: outcome {resave[0]!r}, target unchanged: {resave[1]}')
    # 6. reading a directory that carries the marker returns every partition's data in partition order
    if _has_marker(final) or outcome is None:
        if read != flat:
            return (f'{site}:read-back', f'read {read!r}, saved {flat!r}')
        if read_glob is not None and read_glob != flat:
            return (f'{site}:read-back-through-part-pattern', f'{name!r}/part-* read {read_glob!r}, saved {flat!r}')
        if per_part is not None and per_part != [_elements(saver, p) for p in parts]:
            return (f'{site}:read-back-per-part-file', f'part files read {per_part!r}, saved {[_elements(saver, p) for p in parts]!r}')
    return None


_CLS_NAME = {INJECTED: None, OSERROR: 'OSError', STOP: 'StopIteration', GENEXIT: 'GeneratorExit', NATURAL: 'StopIteration'}


def _norm(snap):
    if snap[0] == 2:
        return (2, [(tuple(c), b) for c, b in snap[1]])
    return tuple(snap)


def nontrivial(case, result):
    return bool(case[4]) or bool(case[5]) or tuple(case[3]) != ABSENT or bool(case[6]) or bool(case[7][0]) \
        or max((len(_elements(case[0], p)) for p in case[2]), default=0) > 3 or case[8] != 'out' or bool(case[9])


# ---------------------------------------------------------------- generation

_WORDS = ['', 'a', 'b', 'ab', 'x1', 'zz z', '0', 'line', 'q\tr', '_S']


def _mk_parts(rng, saver, n):
    parts = []
    for _ in range(n):
        k = rng.choice([0, 1, 1, 2, 3])
        if saver % 2 == TEXT:
            parts.append([rng.choice(_WORDS) for _ in range(k)])
        else:
            els = [rng.choice([0, 1, -1, 7, 'a', 'bc', None, 2.5, (1, 'x')]) for _ in range(k)]
            els = [e for e in els if not isinstance(e, float)] if rng.random() < 0.5 else els
            parts.append((pickle.dumps(list(els)), els))
    return parts


def _pre_states(rng, saver):
    old = _mk_parts(rng, saver, 2)
    prev_complete = [((1, 0), b'')] + [((0, i), _content(saver, p)) for i, p in enumerate(old)]
    prev_partial = [((0, 0), _content(saver, old[0])), ((0, 7), b'zz')]
    return [
        (1, b'old file\n'),
        (1, b''),
        (2, []),
        (2, [((2, 1), b'foreign'), ((2, 4), b'')]),
        (2, prev_complete),
        (2, prev_partial),
        (2, [((1, 0), b'')]),
    ]


def _modes(content_len):
    return [(BEFORE, 0), (MKDIR, 0), (TORN, 0), (TORN, 1), (TORN, content_len + 3)]


def _w(k, mode, j, cls=INJECTED):
    return (k, mode, j, cls)


def _c(i, a, cls=INJECTED, lazy=None, pos=1):
    return (i, a, cls, bool((i + a) % 2) if lazy is None else lazy, pos)


NOPERSIST = (0, 0)
# names of the target: hidden-looking ('_x', '.x'), names of the save's own files, shell/URL-special characters,
# unicode, dots, long names, one parent component of the same kinds.  Not included, because the reader's path syntax
# gives them a meaning: ',' (separates expressions), '*' '?' '[' (patterns), a name ENDING in white space without an
# extension (File.resolve_filenames strips each expression) -- see design.d/C09.md
NAMES = ['_staging', '.snapshot', 'runs/_latest', '_SUCCESS_dir', '_SUCCESS', 'part-x', 'part-00000', 'with space', ' lead',
         'a#b', '100%', '%41', 'a+b=c', 'na\u00efve-\u00fc', '\u65e5\u672c', 'dot.', 'two..dots', '.hidden/inner', '_tmp/.x', 'x' * 200,
         '-dash', '~tilde', "quote'", 'dq"', 'semi;colon', 'amp&', '(paren)', '@at', '!bang', '$dollar', '{brace}', 'a:b',
         'file:x', 'tab\tx', 'back\\slash', 'a.b.c', '_/_', '.a/.b']


def _spelling_sweep(rng, quick):
    """Ways of writing the path of a target that already exists (file, empty directory, marked directory, ...): every
    spelling x both savers x one and several partitions x pre-state; and absent targets through the spellings that
    denote a creatable path."""
    cases = []
    for saver in (TEXT, PICKLE):
        for n in (1, 3):
            parts = [_sized_part(saver, rng.choice([0, 1, 2]), t + 1) for t in range(n)]
            for spell in range(7):
                for pre in _pre_states(rng, saver):
                    if spell in (3, 6) and pre[0] == 1:
                        continue   # '<file>/' does not denote the file (os.path.exists is False): see design.d/C09.md
                    for name, ext in (('out', ''), (rng.choice(['_staging', 'runs/x', 'a b']), rng.choice(['', '.gz']))):
                        cases.append((saver, 1, parts, pre, [], [], ext, NOPERSIST, name, spell))
                cases.append((saver + 2, 1, parts, rng.choice(_pre_states(rng, saver)), [], [], '', NOPERSIST, 'out', spell if spell not in (3, 6) else 0))
                if spell in (1, 4, 5):   # doubled separators: the reader does not find a directory written that way, see design.d
                    cases.append((saver, 1, parts, ABSENT, [], [], '', NOPERSIST, 'out', spell))
                    cases.append((saver, 2, parts, ABSENT, [_w(0, TORN, 1)], [_c(n - 1, 1)], '', NOPERSIST, 'out', spell))
    return cases


def _name_sweep(rng, quick):
    """The target's own name: complete saves (multi-partition directory and single file), both savers, plain and
    codec targets; one failing and one refused save per name."""
    cases = []
    for name in NAMES:
        for saver in (TEXT, PICKLE):
            for n in (1, 3):
                parts = [_sized_part(saver, rng.choice([0, 1, 2, 3]), t + 1, tail_blank=rng.choice([0, 1])) for t in range(n)]
                exts = ['', rng.choice(EXTS)] if (not quick or rng.random() < 0.5) else ['']
                for ext in exts:
                    cases.append((saver, 1, parts, ABSENT, [], [], ext, rng.choice([NOPERSIST, NOPERSIST, (1, 1)]), name))
            parts = [_sized_part(saver, 2, t + 1) for t in range(2)]
            cases.append((saver, 1, parts, ABSENT, [_w(rng.choice([0, 1, 2]), BEFORE, 0)], [], '', NOPERSIST, name))
            cases.append((saver, 1, parts, rng.choice(_pre_states(rng, saver)), [], [], '', NOPERSIST, name))
    return cases
SIZES = [0, 1, 9, 10, 11, 20, 21, 25, 103]   # around the pickle writer's batchSize=10 and its multiples


def _sized_part(saver, size, tag, tail_blank=0):
    """A partition of `size` elements; text: the last `tail_blank` of them render as ''."""
    if saver % 2 == TEXT:
        return [f'{tag}{j}' for j in range(size - tail_blank)] + [''] * min(tail_blank, size)
    els = [tag * 1000 + j for j in range(size)]
    return (pickle.dumps(list(els)), els)


def _size_sweep(rng, quick):
    """Partition sizes across the writer's batch boundaries, both savers, no fault and a masked one."""
    cases = []
    for saver in (TEXT, PICKLE):
        for i, size in enumerate(SIZES):
            others = rng.sample(SIZES[:8], 2)
            for n, sizes in ((1, [size]), (3, [others[0], size, others[1]])):
                parts = [_sized_part(saver, sz, t + 1, tail_blank=rng.choice([0, 1, 2]) if t == n // 2 else 0)
                         for t, sz in enumerate(sizes)]
                cases.append((saver, 1, parts, ABSENT, [], [], '', NOPERSIST))
                if size in (10, 11, 25) or not quick:
                    cases.append((saver, 2, parts, ABSENT, [_w(n // 2, TORN, 7)], [], '', (1, size)))
                    cases.append((saver, 1, parts, ABSENT, [], [], rng.choice(EXTS), NOPERSIST))
        # text: partitions that consist of / end with elements rendering as ''
        if saver == TEXT:
            for parts in ([[''], ['a'], []], [['a', ''], [''], ['', '']], [['', 'a', ''], [], ['b', '', '']], [['']], [['a', '', '']]):
                cases.append((saver, 1, parts, ABSENT, [], [], '', NOPERSIST))
    return cases


def _persist_sweep(rng, quick):
    """A persisted data set being saved while the computation of partition k fails part-way through its iteration:
    persisted on top (not materialised / partly materialised by first() or take(k)), persisted below the failing
    function, not persisted; fault at the first, a middle, the last element and after the last; on every attempt
    and on the first attempt(s) only; max_retries 1..3; both savers; every partition index."""
    cases = []
    for saver in (TEXT, PICKLE):
        for n in ((2, 3) if quick else (1, 2, 3, 4)):
            sizes = [rng.choice([0, 1, 2, 4, 5]) for _ in range(n)]
            if not any(sizes):
                sizes[-1] = 3
            parts = [_sized_part(saver, sz, t + 1) for t, sz in enumerate(sizes)]
            total = sum(sizes)
            for k in range(n):
                positions = sorted({0, sizes[k] // 2, max(sizes[k] - 1, 0), sizes[k], sizes[k] + 2})
                for persist in ((0, 0), (1, 0), (1, 1), (1, max(1, total // 2)), (1, total + 1), (2, 0), (2, 1)):
                    for pos in (positions if persist[0] == 1 and persist[1] == 0 else rng.sample(positions, 2)):
                        cls = rng.choice([INJECTED, INJECTED, OSERROR, STOP])
                        for m in (2, 3) if persist == (1, 0) else (rng.choice([1, 2, 3]),):
                            # on every attempt
                            cases.append((saver, m, parts, ABSENT, [], [_c(k, a, cls, True, pos) for a in range(1, m + 1)], '', persist))
                            # transient: the first attempt(s) only
                            if m > 1:
                                cases.append((saver, m, parts, ABSENT, [], [_c(k, a, cls, True, pos) for a in range(1, m)], '', persist))
                    # a write fault on part k's first attempt, a compute fault scripted for its second: a persisted
                    # partition is not computed again after an attempt whose computation succeeded
                    cases.append((saver, 3, parts, ABSENT, [_w(k, BEFORE, 0)], [_c(k, 2, INJECTED, True, 0)], '', persist))
    return cases



def generate(rng, tier):
    quick = tier == 'quick'
    cases = []
    # committed minimal cases first (shrunk replays of the mutation self-test and the torn-marker corner)
    root = os.environ.get('VERIF_ROOT', '/verif')
    for path in sorted(glob.glob(os.path.join(root, 'corpus', 'C09', '*.json'))):
        with open(path) as f:
            cases.append(uncanon(json.load(f)['case']))
    cases += [c + ('', NOPERSIST, 'out') for c in _plain_sweep(rng, quick)]
    cases += [c + (NOPERSIST, 'out') for c in _codec_sweep(rng, quick)]
    cases += [c + ('out',) for c in _size_sweep(rng, quick)]
    cases += [c + ('out',) for c in _persist_sweep(rng, quick)]
    cases = [c + (0,) if len(c) == 9 else c for c in cases + _name_sweep(rng, quick)] + _spelling_sweep(rng, quick)
    # random plans
    for _ in range(700 if quick else 8000):
        saver = rng.choice((TEXT, PICKLE)) + rng.choice((0, 0, 2))
        n = rng.choice([1, 2, 2, 3, 3, 4, 5, 6, 8]) if not quick else rng.choice([1, 2, 2, 3, 3, 4, 5])
        m = rng.choice([1, 1, 2, 2, 3, 4])
        ext = rng.choice(EXTS) if rng.random() < 0.3 else ''
        parts = _mk_parts(rng, saver, n)
        pre = ABSENT if rng.random() < 0.85 else rng.choice(_pre_states(rng, saver))
        horizon = n * m + 2
        classes = rng.choice([[INJECTED], [INJECTED, OSERROR], [INJECTED, OSERROR, STOP, GENEXIT], [STOP], [STOP, GENEXIT]])
        wf = []
        for k in sorted(rng.sample(range(horizon), rng.choice([0, 1, 1, 2, 3, min(horizon, 6)]))):
            mode = rng.choice([BEFORE, MKDIR, TORN])
            # a compressed stream torn in the middle cannot be described without the codec: nothing or everything
            j = (rng.choice([0, ALL_BYTES]) if ext else rng.choice([0, 1, 2, 5, 40])) if mode == TORN else 0
            wf.append(_w(k, mode, j, rng.choice(classes)))
        cf = []
        for i in range(n):
            r = rng.random()
            if r < 0.12:
                cls = rng.choice(classes + [NATURAL])
                lazy = False if cls == NATURAL else rng.random() < 0.5
                cf += [_c(i, a, cls, lazy) for a in range(1, m + 1)]
            elif r < 0.35:
                cf += [_c(i, a, rng.choice(classes), rng.random() < 0.5, rng.choice([0, 1, 2, 9])) for a in range(1, m + 1) if rng.random() < 0.5]
        persist = rng.choice([(0, 0), (0, 0), (1, 0), (1, rng.randint(1, 6)), (2, rng.randint(0, 3))])
        cases.append((saver, m, parts, pre, wf, cf, ext, persist, rng.choice(NAMES) if rng.random() < 0.2 else 'out',
                      rng.choice([1, 4, 5]) if rng.random() < 0.15 else 0))
    return cases


def _codec_sweep(rng, quick):
    """Targets whose name carries a codec extension: both savers, every crash point, compute faults, pre-states."""
    cases = []
    for ext in EXTS:
        for saver in (TEXT, PICKLE):
            ns = ([1, 2, 3] if ext in ('.gz', '.tar.gz', '.zip') else [1, 2]) if quick else [1, 2, 3, 4, 5]
            for n in ns:
                parts = _mk_parts(rng, saver, n)
                cases.append((saver, 1, parts, ABSENT, [], [], ext))
                points = range(n + 1) if n != 1 else [0]
                for k in points:
                    for mode, j in ((BEFORE, 0), (MKDIR, 0), (TORN, 0), (TORN, ALL_BYTES)):
                        cases.append((saver, 1, parts, ABSENT, [_w(k, mode, j)], [], ext))
                    width = 2 if (k < n and n != 1) else 1
                    cases.append((saver, 2, parts, ABSENT, [_w(k + t, BEFORE, 0, rng.choice([INJECTED, OSERROR, STOP])) for t in range(width)], [], ext))
                    cases.append((saver, 2, parts, ABSENT, [_w(k, TORN, 0)], [], ext))    # masked by the retry (parts)
                for k in range(n):
                    cases.append((saver, 1, parts, ABSENT, [], [_c(k, 1, rng.choice([INJECTED, NATURAL]), False)], ext))
                    cases.append((saver, 2, parts, ABSENT, [], [_c(k, a, rng.choice([INJECTED, STOP])) for a in (1, 2)], ext))
                for pre in rng.sample(_pre_states(rng, saver), 3):
                    cases.append((saver, 1, parts, pre, [], [], ext))
    return cases


def _plain_sweep(rng, quick):
    cases = []
    nmax = 5 if quick else 6
    for saver in (TEXT, PICKLE):
        for n in range(1, nmax + 1):
            parts = _mk_parts(rng, saver, n)
            # no fault
            for m in (1, 3):
                cases.append((saver, m, parts, ABSENT, [], []))
            # crash point k: the k-th file write (parts, then marker); n = 1 writes one file
            points = range(n + 1) if n != 1 else [0]
            for k in points:
                for mode, j in _modes(len(_content(saver, parts[k])) if k < n else 0):
                    cases.append((saver, 1, parts, ABSENT, [_w(k, mode, j)], []))
                    # retried once: the fault is masked for part files, fatal for the marker and the single file
                    cases.append((saver, 2, parts, ABSENT, [_w(k, mode, j)], []))
                    for m in (2, 3):
                        # the same file fails on every attempt
                        width = m if (k < n and n != 1) else 1
                        cases.append((saver, m, parts, ABSENT, [_w(k + t, mode, j) for t in range(width)], []))
                    # the marker write when an earlier part needed a retry
                    if k == n and n != 1:
                        cases.append((saver, 2, parts, ABSENT, [_w(0, BEFORE, 0), _w(n + 1, mode, j)], []))
            # computation of partition k fails on every attempt / on the first attempts only
            for k in range(n):
                for m in (1, 2, 3):
                    cases.append((saver, m, parts, ABSENT, [], [_c(k, a) for a in range(1, m + 1)]))
                    if m > 1:
                        cases.append((saver, m, parts, ABSENT, [], [_c(k, a) for a in range(1, m)]))
            # the same crash points with faults of other exception classes, among them the ones Python treats
            # specially: StopIteration (crossing a generator / ending an iterator), GeneratorExit (not an Exception)
            if n <= 3 or not quick:
                for cls in (OSERROR, STOP, GENEXIT):
                    for k in points:
                        for mode, j in ((BEFORE, 0), (MKDIR, 0), (TORN, 1)):
                            cases.append((saver, 1, parts, ABSENT, [_w(k, mode, j, cls)], []))
                            width = 2 if (k < n and n != 1) else 1
                            cases.append((saver, 2, parts, ABSENT, [_w(k + t, mode, j, cls) for t in range(width)], []))
                        # first attempt only: masked by the retry unless the class is not an Exception
                        cases.append((saver, 2, parts, ABSENT, [_w(k, BEFORE, 0, cls)], []))
                for cls in (OSERROR, STOP, GENEXIT, NATURAL):
                    for k in range(n):
                        for lazy in ((False,) if cls == NATURAL else (False, True)):
                            for m in (1, 2):
                                cases.append((saver, m, parts, ABSENT, [], [_c(k, a, cls, lazy) for a in range(1, m + 1)]))
                            cases.append((saver, 2, parts, ABSENT, [], [_c(k, 1, cls, lazy)]))
            # the same through a file:// URL of the target
            if n <= 2:
                for k in ([0, 1, 2] if n == 2 else [0]):
                    cases.append((saver + 2, 1, parts, ABSENT, [_w(k, TORN, 1)], []))
                for pre in _pre_states(rng, saver)[:4]:
                    cases.append((saver + 2, 1, parts, pre, [], []))
                cases.append((saver + 2, 2, parts, ABSENT, [], [_c(0, 1), _c(0, 2)]))
                cases.append((saver + 2, 2, parts, ABSENT, [], [_c(0, 1, NATURAL, False), _c(0, 2, NATURAL, False)]))
                cases.append((saver + 2, 2, parts, ABSENT, [], []))
            # target pre-states
            if n <= 3 or not quick:
                for pre in _pre_states(rng, saver):
                    cases.append((saver, 1, parts, pre, [], []))
                    cases.append((saver, 2, parts, pre, [_w(0, rng.choice([BEFORE, MKDIR, TORN]), 1, rng.choice([INJECTED, STOP]))], []))
                    cases.append((saver, 1, parts, pre, [], [_c(0, 1, rng.choice([INJECTED, STOP, GENEXIT]))]))
    return cases


def extra_evidence():
    return {
        'fault_model': {
            'exception_classes': ['own Exception subclass', 'OSError', 'StopIteration (direct, from a generator, natural next() on empty)',
                                  'GeneratorExit (BaseException, not retried)'],
            'write_fault_modes': ['before (nothing happens)', 'after mkdir (io.open raises inside the real Local.dump)',
                                  'torn after j bytes (stream raises inside the real Local.dump)'],
            'crash_points': 'dump call k = 0..n (parts in job order, then marker), counted over retries; '
                            'computation of partition i on attempt a',
            'observed': ['exception class', 'target state after every dump call and at the end (names + bytes)',
                         'number of dump calls', 'Context.locked', 'follow-up job on the same context',
                         'textFile/pickleFile read-back of marked or successfully saved targets', 'raw file names'],
        },
        'mutation_selftest': [
            'marker dump moved before runJob (saveAsTextFile): link lemma text_steps_link fails + oracle marker-on-incomplete-save',
            'runJob wrapped in try/finally with the marker dump in finally (saveAsPickleFile): kernel fails closed + '
            'correspondence + oracle marker-on-incomplete-save',
            'existence check moved after the single-partition fast path: link lemma fails + oracle existing-target-not-refused',
            'Context.runJob releases the lock only on success: lock_release_link fails + oracle context-unusable-after-failed-save',
            'Local.exists uses os.path.isfile: correspondence + oracle existing-target-not-refused (directory targets)',
            'resultHandler=iter (write job never forced): correspondence + oracle marker-on-incomplete-save',
            'seeded C09_m1 (exists via resolve_filenames): correspondence + oracle existing-target-not-refused',
            'seeded C09_m2 (_runJob_local returns a map object): kernel TaskMap -> local_kind_link fails + oracle '
            'marker-on-incomplete-save / compute-failure-swallowed on StopIteration compute faults',
            'seeded C09_m3 (temp file left by a torn write): correspondence + oracle marker-on-incomplete-save',
            'seeded C09_m4 (lock in a contextmanager without finally): kernel fails closed + correspondence + oracle '
            'context-unusable-after-failed-save',
            'seeded C09_m5 (pickle existence check below the single-partition path): pickle_steps_link fails + oracle '
            'existing-target-not-refused',
            'seeded C09_m6 (marker named _SUCCESS<codec suffix>): kernels fail closed + correspondence + oracle '
            'success-without-complete-output on codec-extension targets',
        ],
    }


def shrink_candidates(case):
    for c in _shrink9(case[:9]):
        yield c + (case[9],)
    if case[9]:
        yield case[:9] + (0,)


def _shrink9(case):
    saver, m, parts, pre, wf, cf, ext, persist, name = case
    for c in _shrink6((saver, m, parts, pre, wf, cf)):
        yield c + (ext, persist, name)
    if ext and not any(w[1] == TORN for w in wf):
        yield (saver, m, parts, pre, wf, cf, '', persist, name)
    if persist[0]:
        yield (saver, m, parts, pre, wf, cf, ext, NOPERSIST, name)
        if persist[1]:
            yield (saver, m, parts, pre, wf, cf, ext, (persist[0], 0), name)
    if name != 'out':
        yield (saver, m, parts, pre, wf, cf, ext, persist, 'out')
        if '/' in name:
            yield (saver, m, parts, pre, wf, cf, ext, persist, name.split('/')[-1])
        if len(name) > 2:
            yield (saver, m, parts, pre, wf, cf, ext, persist, name[:2])


def _shrink6(case):
    saver, m, parts, pre, wf, cf = case
    for i in range(len(wf)):
        yield (saver, m, parts, pre, wf[:i] + wf[i + 1:], cf)
    for i in range(len(cf)):
        yield (saver, m, parts, pre, wf, cf[:i] + cf[i + 1:])
    if len(parts) > 1:
        n = len(parts) - 1
        yield (saver, m, parts[:n], pre, [w for w in wf], [c for c in cf if c[0] < n])
    if m > 1:
        yield (saver, m - 1, parts, pre, wf, [c for c in cf if c[1] <= m - 1])
    for i, w in enumerate(wf):
        if w[3] != INJECTED:
            yield (saver, m, parts, pre, wf[:i] + [(w[0], w[1], w[2], INJECTED)] + wf[i + 1:], cf)
    for i, p in enumerate(parts):
        els = _elements(saver, p)
        if els:
            q = els[:-1]
            np_ = q if saver % 2 == TEXT else (pickle.dumps(list(q)), q)
            yield (saver, m, parts[:i] + [np_] + parts[i + 1:], pre, wf, cf)
