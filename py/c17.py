"""C17 -- statistical summaries agree with the two-pass formulas for any partitioning and merge order.

Cases (first component is the tag, see coq/Run/C17_run.v):
  (0, parts)         RDD with exactly these partitions -> rdd.stats() fields + the RDD-level accessors
  (1, parts, prog)   one StatCounter per partition, merged in the order given by the postfix program `prog`
                     (i >= 0: push StatCounter(parts[i]);  -1: r = pop, l = pop, push l.mergeStats(r);
                      -2: s = pop, push s.mergeStats(s))
  (2, parts)         DataFrame whose partitions are these lists of (x, y) rows -> covariance helper fields,
                     df.cov, df.corr
  (3, parts, prog)   one CovarianceCounter per partition merged in the order given by `prog` (merge / self-merge)
  (4, rdds, sprog)   a session on a few RDD objects that are REUSED: sprog is a list of (opcode, arg):
                     (0, i) push rdds[i].stats();  (1, 0) r = pop, l = pop, push l.mergeStats(r);  (2, 0) s = pop, push
                     s.mergeStats(s);  (3, v) s = pop, push s.merge(v);  (4, j) observe RDD j again (stats() fields and
                     the RDD-level accessors).  Result: (observations, summaries left on the stack).
  (5, parts, oprog)  a session on a pool of StatCounter OBJECTS that several folds reuse: slot k starts as
                     StatCounter(parts[k]); oprog is a list of (opcode, i, arg): (0, 0, 0) append a fresh StatCounter();
                     (1, i, 0) append slot[i].copy();  (2, i, j) slot[i].mergeStats(slot[j]);  (3, i, v) slot[i].merge(v).
                     Result: (the five fields of EVERY live object after EVERY step, full views of all objects at the end).
  (6, parts, oprog)  the same on CovarianceCounter objects (copy.deepcopy, merge, add((x, y))).
"""
import copy as _copy
import glob
import itertools
import json
import math
import os
from fractions import Fraction

from common.coqlit import Err, uncanon
from pysparkling import Context
from pysparkling.sql.session import SparkSession
from pysparkling.sql.types import DoubleType, LongType, StructField, StructType
from pysparkling.stat_counter import CovarianceCounter, StatCounter

ID = 'C17'
KERNELS = ['Gen/StatCounter.v: sc_merge', 'Gen/StatCounter.v: sc_mergeStats',
           'Gen/Covariance.v: sc_init_n/mu/m2 (+ shape of StatCounter.__init__)', 'Gen/Covariance.v: cc_init_* (CovarianceCounter.__init__)',
           'Gen/Covariance.v: sc_self_merge_checked (shape of the `other is self` path)',
           'Gen/Covariance.v: cc_add', 'Gen/Covariance.v: cc_merge',
           'Gen/Covariance.v: sc_variance', 'Gen/Covariance.v: sc_sampleVariance', 'Gen/Covariance.v: sc_sum',
           'Gen/Covariance.v: sc_accessors_checked (shape)',
           'Gen/Covariance.v: cc_covar_samp', 'Gen/Covariance.v: cc_covar_pop', 'Gen/Covariance.v: cc_pearson',
           'Gen/Covariance.v: stats_wiring_checked (shape of RDD.stats/aggregate/treeAggregate/_get_covariance_helper)']
RULE = ('cases: (a) every list over a small integer alphabet up to a length bound x EVERY composition into 1..6 '
        'partitions (empty partitions included) through RDD.stats(); (b) lists of 11..60 elements with partition sizes '
        'chosen so that each of the three size-ratio branches of mergeStats, both empty-operand branches and the '
        'self-merge are taken; (c) floats of mixed magnitude (|x| in 1e-6..1e9, offsets with small spread, decimal '
        'fractions) x all / sampled compositions; (d) merge orders: left comb, right comb, balanced and random binary '
        'trees over a random permutation of the partitions with random self-merges, on StatCounter and on '
        'CovarianceCounter objects; (e) DataFrames of (x, y) rows with the same partition shapes through df.cov / '
        'df.corr; (f) sessions on a few RDD objects that are REUSED: the summaries returned by rdd.stats() are merged as '
        'receiver / argument / with themselves or get values folded in, and the same RDDs are asked for all their '
        'summaries again afterwards (every later summary is compared with the two-pass value of that RDD); RDDs with '
        'leading empty partitions and sizes 1|>=11, >=11|1; (g) pools of StatCounter / CovarianceCounter OBJECTS reused by '
        'several folds that start from EMPTY receivers (a partial merged into an empty receiver, further merges into that '
        'receiver, the partial used again in another fold, merged into two receivers, receiver merged back, copies, '
        'self-merges): the fields of EVERY live object are compared after EVERY step; a few non-finite / overflowing inputs for the bit-exactness '
        'of the float model only. '
        'non-trivial = at least two data values and at least one merge of two non-empty partial summaries; '
        'distinct by canonical JSON of the case')
ASSUMPTIONS = [
    'integer data satisfy |x| <= 2**53 (int -> float conversion exact; Python compares/combines int and float '
    'exactly, the model converts first); maxValue/minValue/count are compared after float()/int() conversion',
    'DataFrame columns are homogeneous (all int -> LongType, or all float -> DoubleType)',
    'the 1e-9 tolerance of the property is read per statistic relative to the data magnitude M = max|x|: mean/min/max/'
    'stdev M, sum n*M, variance M**2, cov Mx*My, corr the condition number n*Mx*My/sqrt(SSx*SSy) (>= 1)',
    'corr of a dataset with SSx*SSy = 0 (empty, one row, constant column) has no two-pass value (0/0): the '
    'implementation raises ZeroDivisionError there; modelled, not judged by the oracle',
    'RDD.sum()/RDD.count() use the builtin sum() (Neumaier-compensated for floats in CPython 3.12): judged by the '
    'oracle only, not modelled',
]
TRUSTED = ['translator kernels of Gen/StatCounter.v and Gen/Covariance.v',
           'PrimFloat = IEEE-754 binary64 round-to-nearest-even (validated bit-for-bit by this correspondence)',
           'fractions.Fraction as the exact two-pass reference of the oracle']
SHARD = 400

TOL = Fraction(1, 10 ** 9)
NAMES = {0: 'rdd', 1: 'tree', 2: 'df', 3: 'covtree', 4: 'session', 5: 'objects', 6: 'covobjects'}
ACCESSORS = ['count', 'mean', 'sum', 'min', 'max', 'variance', 'stdev', 'sampleVariance', 'sampleStdev']

_ctx = None
_spark = None


def _ident(p):
    return p


def _context():
    global _ctx, _spark  # pylint: disable=global-statement
    if _ctx is None:
        _ctx = Context()
        _spark = SparkSession(_ctx)
    return _ctx, _spark


def _reset():
    global _ctx, _spark  # pylint: disable=global-statement
    _ctx = None
    _spark = None


def _get(f, conv=float):
    try:
        v = f()
        return None if v is None else conv(v)
    except Exception as e:  # pylint: disable=broad-except
        return Err(type(e).__name__)


def _rdd_of(parts):
    ctx, _ = _context()
    return ctx.parallelize([list(p) for p in parts], len(parts)).flatMap(_ident)


def _sc_fields(s):
    return [_get(lambda: s.n, int), _get(lambda: s.mu), _get(lambda: s.m2), _get(lambda: s.maxValue), _get(lambda: s.minValue)]


def _counter_view(s):
    return tuple(_sc_fields(s) + [
        _get(s.count, int), _get(s.mean), _get(s.sum), _get(s.min), _get(s.max),
        _get(s.variance), _get(s.stdev), _get(s.sampleVariance), _get(s.sampleStdev)])


def _rdd_view(rdd):
    """stats() fields, then the accessors as the RDD reports them (count and sum of the summary)."""
    s = rdd.stats()
    return tuple(_sc_fields(s) + [
        _get(s.count, int), _get(rdd.mean), _get(s.sum), _get(rdd.min), _get(rdd.max),
        _get(rdd.variance), _get(rdd.stdev), _get(rdd.sampleVariance), _get(rdd.sampleStdev)])


def _cc_view(c):
    return (_get(lambda: c.count, int), _get(lambda: c.xAvg), _get(lambda: c.yAvg), _get(lambda: c.Ck),
            _get(lambda: c.MkX), _get(lambda: c.MkY),
            _get(lambda: c.covar_samp), _get(lambda: c.covar_pop), _get(lambda: c.pearson_correlation))


def _eval_prog(parts, prog, leaf, merge):
    st = []
    for op in prog:
        if op >= 0:
            st.append(leaf(parts[op]))
        elif op == -1:
            r = st.pop()
            l = st.pop()
            st.append(merge(l, r))
        elif op == -2:
            s = st.pop()
            st.append(merge(s, s))
        else:
            raise ValueError('bad op')
    if len(st) != 1:
        raise ValueError('bad program')
    return st[0]


def _cov_leaf(ps):
    c = CovarianceCounter('pearson')
    for x, y in ps:
        c.add(x, y)
    return c


def _schema(parts):
    def ty(k):
        vals = [r[k] for p in parts for r in p]
        return LongType() if vals and all(isinstance(v, int) for v in vals) else DoubleType()
    return StructType([StructField('a', ty(0)), StructField('b', ty(1))])


def _df_of(parts):
    _, spark = _context()
    return spark.createDataFrame(_rdd_of(parts), _schema(parts))


def impl(case):
    try:
        return _impl(case)
    except Exception as e:  # pylint: disable=broad-except
        _reset()
        return Err(type(e).__name__)


def _impl(case):
    tag = case[0]
    if tag == 0:
        return _rdd_view(_rdd_of(case[1]))
    if tag == 1:
        s = _eval_prog(case[1], case[2], lambda p: StatCounter(list(p)), lambda a, b: a.mergeStats(b))
        return _counter_view(s)
    if tag == 4:
        rdds = [_rdd_of(parts) for parts in case[1]]   # built once, reused by every step of the session
        stack, obs = [], []
        for op, arg in case[2]:
            if op == 0:
                stack.append(rdds[arg].stats())
            elif op == 1:
                r = stack.pop()
                l = stack.pop()
                stack.append(l.mergeStats(r))
            elif op == 2:
                c = stack.pop()
                stack.append(c.mergeStats(c))
            elif op == 3:
                c = stack.pop()
                stack.append(c.merge(arg))
            elif op == 4:
                obs.append(_rdd_view(rdds[arg]))
            else:
                raise ValueError('bad op')
        return (obs, [_counter_view(c) for c in stack])
    if tag == 2:
        df = _df_of(case[1])
        h = df._jdf._get_covariance_helper('pearson', 'a', 'b')  # pylint: disable=protected-access
        return (_cc_view(h), _get(lambda: df.cov('a', 'b')), _get(lambda: df.corr('a', 'b')))
    if tag == 3:
        c = _eval_prog(case[1], case[2], _cov_leaf, lambda a, b: a.merge(b))
        return _cc_view(c)
    if tag in (5, 6):
        return _impl_objects(case)
    raise ValueError('bad tag')


def _impl_objects(case):
    tag, parts, prog = case
    if tag == 5:
        slots = [StatCounter(list(p)) for p in parts]
        fields = lambda c: tuple(_sc_fields(c))                    # noqa: E731
        full = _counter_view
    else:
        slots = [_cov_leaf(p) for p in parts]
        fields = lambda c: _cc_view(c)[:6]                          # noqa: E731
        full = _cc_view
    trace = []
    for op, i, arg in prog:
        if op == 0:
            slots.append(StatCounter() if tag == 5 else CovarianceCounter('pearson'))
        elif op == 1:
            slots.append(slots[i].copy() if tag == 5 else _copy.deepcopy(slots[i]))
        elif op == 2:
            if tag == 5:
                slots[i].mergeStats(slots[arg])
            else:
                slots[i].merge(slots[arg])
        elif op == 3:
            if tag == 5:
                slots[i].merge(arg)
            else:
                slots[i].add(arg[0], arg[1])
        else:
            raise ValueError('bad op')
        trace.append([fields(c) for c in slots])     # every live object, after every step
    return (trace, [full(c) for c in (slots if prog else [])])


# ------------------------------------------------------------------------------------------- oracle
def _data_of(case):
    """The multiset of data the summary must describe (a self-merge counts its operand twice)."""
    if case[0] in (0, 2):
        return [v for p in case[1] for v in p]
    st = []
    for op in case[2]:
        if op >= 0:
            st.append(list(case[1][op]))
        elif op == -1:
            r = st.pop()
            l = st.pop()
            st.append(l + r)
        else:
            s = st.pop()
            st.append(s + s)
    return st[0]


def _session_data(case):
    """(data of every observation, data of every summary left on the stack) of a session."""
    rdds = [[v for p in parts for v in p] for parts in case[1]]
    stack, obs = [], []
    for op, arg in case[2]:
        if op == 0:
            stack.append(list(rdds[arg]))
        elif op == 1:
            r = stack.pop()
            l = stack.pop()
            stack.append(l + r)
        elif op == 2:
            c = stack.pop()
            stack.append(c + c)
        elif op == 3:
            c = stack.pop()
            stack.append(c + [arg])
        elif op == 4:
            obs.append((arg, list(rdds[arg])))
    return obs, stack


def _objects_data(case):
    """The data every slot should describe after every step (value semantics: only the receiver changes)."""
    slots = [list(p) for p in case[1]]
    trace = []
    for op, i, arg in case[2]:
        if op == 0:
            slots.append([])
        elif op == 1:
            slots.append(list(slots[i]))
        elif op == 2:
            slots[i] = slots[i] + slots[arg]
        elif op == 3:
            slots[i] = slots[i] + [arg]
        trace.append([list(d) for d in slots])
    return trace


def _finite(xs):
    return all(isinstance(v, int) or math.isfinite(v) for v in xs)


def _in_domain(xs, lo, hi):
    """The graded numeric domain the oracle judges: finite values, every non-zero magnitude within [lo, hi]
    (so that neither the squares / fourth-order products of the formulas overflow nor they vanish by underflow)."""
    return _finite(xs) and all(v == 0 or lo <= abs(v) <= hi for v in xs)


_ref_cache = {}


def two_pass(xs):
    """Textbook two-pass statistics in exact rational arithmetic."""
    key = tuple(xs)
    if key in _ref_cache:
        return _ref_cache[key]
    if len(_ref_cache) > 200000:
        _ref_cache.clear()
    q = [Fraction(v) for v in xs]
    n = len(q)
    out = {'count': n, 'sum': sum(q, Fraction(0))}
    if n:
        mean = out['sum'] / n
        ss = sum(((v - mean) ** 2 for v in q), Fraction(0))
        out.update(mean=mean, min=min(q), max=max(q), variance=ss / n)
        if n > 1:
            out['sampleVariance'] = ss / (n - 1)
        out['sd'] = _sqrt_frac(out['variance'])
        out['ssd'] = _sqrt_frac(out['sampleVariance']) if n > 1 else None
        out['M'] = max(abs(v) for v in q)
    _ref_cache[key] = out
    return out


def two_pass_cov(ps):
    n = len(ps)
    xs = [Fraction(p[0]) for p in ps]
    ys = [Fraction(p[1]) for p in ps]
    out = {'count': n}
    if n:
        mx, my = sum(xs) / n, sum(ys) / n
        out['ck'] = sum(((x - mx) * (y - my) for x, y in zip(xs, ys)), Fraction(0))
        out['ssx'] = sum(((x - mx) ** 2 for x in xs), Fraction(0))
        out['ssy'] = sum(((y - my) ** 2 for y in ys), Fraction(0))
        out['Mx'] = max(abs(x) for x in xs)
        out['My'] = max(abs(y) for y in ys)
    return out


def _sqrt_frac(q):
    """sqrt of a non-negative rational to ~1e-16 relative accuracy, as a Fraction."""
    if q == 0:
        return Fraction(0)
    # scale into the double range, then one Newton step in exact arithmetic
    e = (q.numerator.bit_length() - q.denominator.bit_length()) // 2
    scaled = q / Fraction(4) ** e
    r = Fraction(math.sqrt(float(scaled)))
    r = (r + scaled / r) / 2
    return r * Fraction(2) ** e


def _close(got, ref, tol):
    if isinstance(got, Err) or got is None:
        return False
    if isinstance(got, float) and not math.isfinite(got):
        return False
    return abs(Fraction(got) - ref) <= tol


def _check_stats(site, acc, xs):
    """acc: dict accessor-name -> value returned by the implementation."""
    ref = two_pass(xs)
    n = ref['count']
    for k, v in acc.items():
        if isinstance(v, Err):
            return (f'{site}:raises:{k}', f'{k}() raised {v.name} on {n} values')
    if acc['count'] != n:
        return (f'{site}:count', f'count {acc["count"]!r}, data has {n} values')
    if n == 0:
        # "Summaries of an empty dataset report count 0 and NaN variance instead of failing"
        for k in ('variance', 'sampleVariance', 'stdev', 'sampleStdev'):
            if not (isinstance(acc[k], float) and math.isnan(acc[k])):
                return (f'{site}:empty:{k}', f'{k} of an empty dataset is {acc[k]!r}, expected nan')
        return None
    M = ref['M']
    checks = [('mean', ref['mean'], M), ('min', ref['min'], M), ('max', ref['max'], M), ('sum', ref['sum'], M * n),
              ('variance', ref['variance'], M * M), ('stdev', ref['sd'], M * (1 + TOL))]
    if n > 1:
        checks += [('sampleVariance', ref['sampleVariance'], M * M), ('sampleStdev', ref['ssd'], M * (1 + TOL))]
    for k, want, scale in checks:
        if k in acc and not _close(acc[k], want, TOL * scale):
            return (f'{site}:{k}', f'{k} = {acc[k]!r}, two-pass value {float(want)!r} (n={n}, scale {float(scale)!r})')
    if n == 1:
        for k in ('sampleVariance', 'sampleStdev'):
            if k in acc and not (isinstance(acc[k], float) and math.isnan(acc[k])):
                return (f'{site}:single:{k}', f'{k} of one value is {acc[k]!r}, expected nan')
    return None


def _check_cov(site, ps, samp, pop, corr):
    """samp/pop/corr: values from the implementation or the marker `_SKIP`."""
    ref = two_pass_cov(ps)
    n = ref['count']
    for k, v in (('cov', samp), ('covar_pop', pop)):
        if isinstance(v, Err):
            return (f'{site}:raises:{k}', f'{k} raised {v.name} on {n} rows')
    if n >= 2 and samp is not _SKIP:
        if not _close(samp, ref['ck'] / (n - 1), TOL * ref['Mx'] * ref['My']):
            return (f'{site}:cov', f'cov = {samp!r}, two-pass value {float(ref["ck"] / (n - 1))!r} (n={n})')
    if n >= 1 and pop is not _SKIP:
        if not _close(pop, ref['ck'] / n, TOL * ref['Mx'] * ref['My']):
            return (f'{site}:covar_pop', f'covar_pop = {pop!r}, two-pass value {float(ref["ck"] / n)!r} (n={n})')
    if n >= 2 and corr is not _SKIP and ref['ssx'] > 0 and ref['ssy'] > 0:
        den = _sqrt_frac(ref['ssx'] * ref['ssy'])
        kappa = max(Fraction(1), n * ref['Mx'] * ref['My'] / den)
        if not _close(corr, ref['ck'] / den, TOL * kappa + Fraction(1, 10 ** 14)):
            return (f'{site}:corr', f'corr = {corr!r}, two-pass value {float(ref["ck"] / den)!r} (n={n})')
    return None


_SKIP = object()


def _oracle_session(case, result):
    if isinstance(result, Err):
        return ('session:raises', f'raised {result.name}')
    try:
        obs_data, stack_data = _session_data(case)
    except (IndexError, TypeError):
        return None
    obs, stack = result
    everything = [v for _, d in obs_data for v in d] + [v for d in stack_data for v in d]
    if not _in_domain(everything, 1e-100, 1e100):
        return None
    # every later summary of the same RDD equals the two-pass value of ITS data
    for k, ((j, d), view) in enumerate(zip(obs_data, obs)):
        o = _check_stats('RDD.stats:reused-rdd', dict(zip(ACCESSORS, view[5:])), d)
        if o is not None:
            return (o[0], f'observation #{k} of RDD {j} after earlier summaries were merged/updated: {o[1]}')
    for k, (d, view) in enumerate(zip(stack_data, stack)):
        o = _check_stats('StatCounter.mergeStats:of-rdd-summaries', dict(zip(ACCESSORS, view[5:])), d)
        if o is not None:
            return (o[0], f'summary #{k} left on the stack: {o[1]}')
    return None


OPNAMES = {0: 'new', 1: 'copy', 2: 'merge', 3: 'add'}


def _oracle_objects(case, result):
    tag = case[0]
    site = 'StatCounter.objects' if tag == 5 else 'CovarianceCounter.objects'
    if isinstance(result, Err):
        return (f'{site}:raises', f'raised {result.name}')
    try:
        want = _objects_data(case)
    except (IndexError, TypeError):
        return None
    trace, final = result
    flat = [v for pool in want for d in pool for v in d]
    if tag == 6:
        flat = [v for r in flat for v in r]
    if not _in_domain(flat, *((1e-100, 1e100) if tag == 5 else (1e-60, 1e60))):
        return None
    for t, (pool_d, pool_v) in enumerate(zip(want, trace)):
        op, i, arg = case[2][t]
        for k, (d, f) in enumerate(zip(pool_d, pool_v)):
            role = 'receiver' if (k == i and op in (2, 3)) else ('argument' if (op == 2 and k == arg) else 'bystander')
            where = f'after step {t} ({OPNAMES[op]} {i} {arg!r}) object {k} ({role})'
            if any(isinstance(x, Err) for x in f):
                return (f'{site}:live-object:raises', f'{where}: field access raised')
            n = f[0]
            if n != len(d):
                return (f'{site}:live-object:count', f'{where}: count {n}, its data has {len(d)} values')
            if n == 0:
                continue
            if tag == 5:
                acc = {'count': n, 'mean': f[1], 'variance': f[2] / n, 'max': f[3], 'min': f[4]}
                o = _check_stats(f'{site}:live-object', acc, d)
            else:
                o = _check_cov(f'{site}:live-object', d, _SKIP, f[3] / n, _SKIP)
                if o is None:
                    ref = two_pass_cov(d)
                    xs = two_pass([r[0] for r in d])
                    ys = two_pass([r[1] for r in d])
                    if not (_close(f[1], xs['mean'], TOL * ref['Mx']) and _close(f[2], ys['mean'], TOL * ref['My'])):
                        o = (f'{site}:live-object:mean', f'xAvg/yAvg = {f[1]!r}/{f[2]!r}')
                    elif not (_close(f[4] / n, xs['variance'], TOL * ref['Mx'] ** 2)
                              and _close(f[5] / n, ys['variance'], TOL * ref['My'] ** 2)):
                        o = (f'{site}:live-object:variance', f'MkX/MkY = {f[4]!r}/{f[5]!r}')
            if o is not None:
                return (o[0], f'{where}: {o[1]}')
    if want:
        for k, (d, view) in enumerate(zip(want[-1], final)):
            if tag == 5:
                o = _check_stats(f'{site}:final', dict(zip(ACCESSORS, view[5:])), d)
            else:
                o = _check_cov(f'{site}:final', d, view[6], view[7], view[8])
            if o is not None:
                return (o[0], f'object {k} at the end: {o[1]}')
    return None


def oracle(case, result):
    tag = case[0]
    if tag == 4:
        return _oracle_session(case, result)
    if tag in (5, 6):
        return _oracle_objects(case, result)
    data = _data_of(case)
    if tag in (0, 1):
        if not _in_domain(data, 1e-100, 1e100):
            return None  # squares overflow / vanish: outside "numeric lists from graded domains"
        site = 'RDD.stats' if tag == 0 else 'StatCounter.mergeStats'
        if isinstance(result, Err):
            return (f'{site}:raises', f'raised {result.name}')
        acc = dict(zip(ACCESSORS, result[5:]))
        o = _check_stats(site, acc, data)
        if o is not None:
            return o
        if tag == 0:
            # RDD.sum() and RDD.count() do not go through StatCounter; judged here on the implementation
            rdd = _rdd_of(case[1])
            extra = {'count': _get(rdd.count, int), 'sum': _get(rdd.sum, lambda v: v)}
            ref = two_pass(data)
            if extra['count'] != ref['count']:
                return ('RDD.count:count', f'count {extra["count"]!r}, data has {ref["count"]} values')
            if isinstance(extra['sum'], Err):
                return ('RDD.sum:raises', f'sum() raised {extra["sum"].name}')
            M = max([abs(Fraction(v)) for v in data] or [Fraction(0)])
            if not _close(extra['sum'], ref['sum'], TOL * M * max(1, len(data))):
                return ('RDD.sum:sum', f'sum = {extra["sum"]!r}, exact {float(ref["sum"])!r}')
        return None
    flat = [v for p in data for v in p]
    if not _in_domain(flat, 1e-60, 1e60):
        return None
    if tag == 2:
        if isinstance(result, Err):
            return ('DataFrame.cov:raises', f'raised {result.name}')
        view, cov, corr = result
        o = _check_cov('DataFrame', data, cov, _SKIP, corr)
        if o is not None:
            return o
        return _check_cov('DataFrameInternal._get_covariance_helper', data, view[6], view[7], view[8])
    if isinstance(result, Err):
        return ('CovarianceCounter.merge:raises', f'raised {result.name}')
    return _check_cov('CovarianceCounter.merge', data, result[6], result[7], result[8])


# ------------------------------------------------------------------------------------------- case analysis
def _branches(case):
    """Which branches of mergeStats / merge a case exercises:
    E self empty, O other empty, A other.n*10 < self.n, B self.n*10 < other.n, C comparable sizes, S self-merge."""
    out = set()

    def merge(a, b):
        if a == 0:
            out.add('E')
        elif b == 0:
            out.add('O')
        elif b * 10 < a:
            out.add('A')
        elif a * 10 < b:
            out.add('B')
        else:
            out.add('C')
        return a + b
    if case[0] in (0, 2):
        acc = 0
        for p in case[1]:
            acc = merge(acc, len(p))
    else:
        st = []
        for op in case[2]:
            if op >= 0:
                st.append(len(case[1][op]))
            elif op == -1:
                r = st.pop()
                l = st.pop()
                st.append(merge(l, r))
            else:
                s = st.pop()
                out.add('S')
                st.append(merge(s, s))
    return out


def _session_flags(case):
    """R: an RDD is observed / pushed again after one of its summaries was the receiver of a merge or fold;
    M merge, S self-merge, F fold."""
    flags = set()
    stack, dirty = [], set()
    for op, arg in case[2]:
        if op == 0:
            if arg in dirty:
                flags.add('R')
            stack.append(arg)
        elif op == 1:
            stack.pop()
            flags.add('M')
            if stack and stack[-1] is not None:
                dirty.add(stack[-1])
        elif op == 2:
            flags.add('S')
            if stack and stack[-1] is not None:
                dirty.add(stack[-1])
        elif op == 3:
            flags.add('F')
            if stack and stack[-1] is not None:
                dirty.add(stack[-1])
        elif op == 4 and arg in dirty:
            flags.add('R')
    return flags


def _objects_flags(case):
    """E: an empty receiver merges a non-empty summary; A: that receiver is merged into again; U: a summary that was
    adopted by an empty receiver is used again later (as argument or receiver); C copy; S self-merge; F add."""
    flags = set()
    sizes = [len(p) for p in case[1]]
    adopted = {}        # receiver -> the partial it took over while empty
    for op, i, arg in case[2]:
        try:
            if op == 0:
                sizes.append(0)
            elif op == 1:
                sizes.append(sizes[i])
                flags.add('C')
            elif op == 2:
                if i == arg:
                    flags.add('S')
                if sizes[i] == 0 and sizes[arg] > 0 and i != arg:
                    flags.add('E')
                    adopted[i] = arg
                elif i in adopted and sizes[arg] > 0:
                    flags.add('A')
                if arg in adopted.values() or i in adopted.values():
                    if any(r != i or a != arg for r, a in adopted.items()):
                        flags.add('U')
                sizes[i] += sizes[arg]
            elif op == 3:
                flags.add('F')
                sizes[i] += 1
        except IndexError:
            break
    return flags


def kind(case):
    if case[0] in (5, 6):
        return NAMES[case[0]] + '/' + ''.join(sorted(_objects_flags(case)))
    if case[0] == 4:
        return 'session/' + ''.join(sorted(_session_flags(case)))
    return NAMES[case[0]] + '/' + ''.join(sorted(_branches(case)))


def nontrivial(case, result):
    if case[0] in (5, 6):
        return bool(_objects_flags(case) & {'E', 'A', 'S'}) and not isinstance(result, Err)
    if case[0] == 4:
        return 'R' in _session_flags(case) and not isinstance(result, Err)
    b = _branches(case)
    return len(_data_of(case)) >= 2 and bool(b & {'A', 'B', 'C'}) and not isinstance(result, Err)


# ------------------------------------------------------------------------------------------- generation
def compositions(n, k):
    """All ways to cut a list of n items into k consecutive (possibly empty) pieces, as size tuples."""
    for bars in itertools.combinations(range(n + k - 1), k - 1):
        prev = -1
        sizes = []
        for b in bars:
            sizes.append(b - prev - 1)
            prev = b
        sizes.append(n + k - 1 - prev - 1)
        yield tuple(sizes)


def cut(xs, sizes):
    out, i = [], 0
    for s in sizes:
        out.append(list(xs[i:i + s]))
        i += s
    return out


def random_sizes(rng, n, k):
    """A uniformly random weak composition of n into k parts."""
    bars = sorted(rng.sample(range(n + k - 1), k - 1))
    prev = -1
    sizes = []
    for b in bars:
        sizes.append(b - prev - 1)
        prev = b
    sizes.append(n + k - 1 - prev - 1)
    return tuple(sizes)


def skewed_sizes(rng, n, k):
    """Sizes with ratios above 10 in both directions (one big piece, singletons, empties)."""
    k = max(2, k)
    small = [rng.choice([0, 1, 1, 1, 2]) for _ in range(k - 1)]
    while sum(small) > n // 6:
        small[rng.randrange(k - 1)] = 0
    sizes = small + [n - sum(small)]
    rng.shuffle(sizes)
    return tuple(sizes)


def prog_left(k):
    p = [0]
    for i in range(1, k):
        p += [i, -1]
    return p


def prog_right(k):
    return list(range(k)) + [-1] * (k - 1)


def prog_balanced(idx):
    if len(idx) == 1:
        return [idx[0]]
    h = len(idx) // 2
    return prog_balanced(idx[:h]) + prog_balanced(idx[h:]) + [-1]


def prog_random(rng, idx, self_p=0.0, depth=0):
    """Random binary tree over the leaves idx (in this order), with optional self-merge nodes."""
    if len(idx) == 1:
        p = [idx[0]]
    else:
        h = rng.randrange(1, len(idx))
        p = prog_random(rng, idx[:h], self_p, depth + 1) + prog_random(rng, idx[h:], self_p, depth + 1) + [-1]
    if self_p and depth < 6 and rng.random() < self_p:
        p = p + [-2]
    return p


def merge_orders(rng, k, n_random, self_p):
    """Several merge orders over k partitions: left comb (the order of aggregate), right comb, balanced,
    random trees over random permutations, with and without self-merges."""
    out = [prog_left(k), prog_right(k), prog_balanced(list(range(k)))]
    for _ in range(n_random):
        idx = list(range(k))
        rng.shuffle(idx)
        out.append(prog_random(rng, idx, self_p if rng.random() < 0.5 else 0.0))
    out.append(prog_left(k) + [-2])
    seen, res = set(), []
    for p in out:
        if tuple(p) not in seen and p.count(-2) <= 3:
            seen.add(tuple(p))
            res.append(p)
    return res


WILD = [5e-324, 2.0 ** -1022, 1e100, -1e100, 1e-100, 1e-150, 1e150, -1e-70, 1e70]


def rand_float(rng, wild=False):
    c = rng.random()
    if c < 0.45:
        return rng.choice([-1, 1]) * rng.uniform(1, 10) * 10.0 ** rng.randint(-6, 9)
    if c < 0.6:
        return rng.choice([0.1, 0.2, 0.3, 0.7, 1.1, 2.5, -0.1, -3.3, 1e-3, 123.456, 1 / 3, 2 / 3, 1e6 + 0.1])
    if c < 0.75:
        return float(rng.randint(-50, 50))
    if c < 0.9:
        return 1e8 + rng.randint(0, 9) * rng.choice([1, 0.5, 1e-3])
    if wild:
        return rng.choice(WILD)
    return rng.choice([0.0, -0.0, 2.0 ** 52 + 1, -2.0 ** 53, 1e-30, -1e30, 1e-9])


def rand_number_list(rng, n):
    c = rng.random()
    wild = rng.random() < 0.08
    if c < 0.3:
        return [rng.randint(-9, 9) for _ in range(n)]
    if c < 0.4:
        return [rng.choice([-1, 1]) * rng.getrandbits(rng.choice([8, 20, 40, 53])) for _ in range(n)]
    if c < 0.5:
        base = rand_float(rng)
        return [base] * n  # constant data: variance exactly zero
    if c < 0.6:
        return [rng.choice([rng.randint(-1000, 1000), rand_float(rng, wild)]) for _ in range(n)]  # ints and floats mixed
    return [rand_float(rng, wild) for _ in range(n)]


def rand_pairs(rng, n):
    cx, cy = rng.random() < 0.4, rng.random() < 0.4
    wild = rng.random() < 0.08
    xs = [rng.randint(-9, 9) for _ in range(n)] if cx else [rand_float(rng, wild) for _ in range(n)]
    c = rng.random()
    if c < 0.2:
        ys = [2 * x + 1 for x in xs] if cx else [2.0 * x + 1.0 for x in xs]  # perfectly correlated
        if cx:
            cy = True
    elif c < 0.3:
        ys = [7 if cy else 7.5] * n  # constant column
    else:
        ys = [rng.randint(-9, 9) for _ in range(n)] if cy else [rand_float(rng, wild) for _ in range(n)]
    return list(zip(xs, ys))


def rand_session(rng):
    """A few RDDs (unequal partition sizes, leading empty partitions) and a random valid session program on them that
    reuses the RDD objects; ends by observing every RDD once more."""
    rdds = []
    for _ in range(rng.randint(1, 3)):
        n = rng.choice([0, 1, 2, 3, 4, 6, 12, 25])
        xs = rand_number_list(rng, n)
        k = rng.randint(1, 5)
        sizes = skewed_sizes(rng, n, k) if n >= 12 and rng.random() < 0.6 else random_sizes(rng, n, k)
        parts = cut(xs, sizes)
        if rng.random() < 0.3:
            parts = [[]] * rng.randint(1, 2) + parts
        rdds.append(parts)
    prog, depth, selfs = [], 0, 0
    for _ in range(rng.randint(3, 12)):
        ops = ['observe']
        if depth < 4:
            ops += ['push', 'push', 'push']
        if depth >= 2:
            ops += ['merge', 'merge', 'merge']
        if depth >= 1:
            ops += ['fold']
            if selfs < 2:
                ops += ['self']
        op = rng.choice(ops)
        if op == 'push':
            prog.append((0, rng.randrange(len(rdds))))
            depth += 1
        elif op == 'merge':
            prog.append((1, 0))
            depth -= 1
        elif op == 'self':
            prog.append((2, 0))
            selfs += 1
        elif op == 'fold':
            prog.append((3, rng.choice([rng.randint(-9, 9), rng.randint(-9, 9), rand_float(rng)])))
        else:
            prog.append((4, rng.randrange(len(rdds))))
    order = list(range(len(rdds)))
    rng.shuffle(order)
    prog += [(4, j) for j in order]
    return (4, rdds, prog)


FIXED_SESSIONS = [
    # merge the summaries of three datasets in one order, ask the datasets again, merge in the opposite order
    (4, [[[1, 2], [3, 4]], [[], [10.5], [20.25]], [[-7], [0, 7]]],
     [(0, 0), (0, 1), (1, 0), (0, 2), (1, 0), (4, 0), (4, 1), (4, 2), (0, 2), (0, 1), (1, 0), (0, 0), (1, 0), (4, 0), (4, 2)]),
    # fold one more observation into a returned summary, ask the dataset again
    (4, [[[2.0], [4.0], [6.0]]], [(0, 0), (3, 100.0), (4, 0), (0, 0)]),
    # self-merge of a stats() result, then the dataset again
    (4, [[[1, 5], [], [9]]], [(0, 0), (2, 0), (4, 0), (0, 0), (1, 0), (4, 0)]),
    # the summary is only ever the ARGUMENT of a merge
    (4, [[[1, 2, 3]], [[4, 6]]], [(0, 0), (0, 1), (1, 0), (4, 1), (4, 0)]),
    # an empty dataset as receiver
    (4, [[[], []], [[3, 1, 4, 1, 5]]], [(0, 0), (0, 1), (1, 0), (4, 0), (4, 1)]),
    # a big receiver and singletons (size-ratio branches), asked again in between
    (4, [[list(range(1, 13))], [[], [100]]], [(0, 0), (0, 1), (1, 0), (4, 0), (0, 1), (0, 0), (1, 0), (4, 1), (4, 0)]),
]


def rand_objects(rng, tag):
    """A pool of partial summaries (some empty) and a program that starts from EMPTY receivers and reuses the same
    partial objects in several folds: fold all partials into a fresh receiver, fold them again (other order) into
    another one, merge a partial into two receivers, merge a receiver back into a partial, copies, self-merges."""
    k = rng.randint(1, 4)
    parts = []
    for _ in range(k):
        n = rng.choice([0, 1, 1, 2, 3, 5, 12])
        parts.append(rand_pairs(rng, n) if tag == 6 else rand_number_list(rng, n))
    prog, nslots = [], k

    def fold_all(order):
        nonlocal nslots
        prog.append((0, 0, 0))
        recv = nslots
        nslots += 1
        for j in order:
            prog.append((2, recv, j))
        return recv
    receivers = []
    for _ in range(rng.randint(1, 3)):
        order = list(range(k))
        rng.shuffle(order)
        if rng.random() < 0.3:
            order = order[:rng.randint(1, k)]
        if receivers and rng.random() < 0.4:
            order.insert(rng.randint(0, len(order)), rng.choice(receivers))     # an earlier receiver as a partial
        receivers.append(fold_all(order))
        c = rng.random()
        if c < 0.25:
            prog.append((2, rng.randrange(k), receivers[-1]))                   # the receiver merged back into a partial
        elif c < 0.4:
            prog.append((1, rng.randrange(nslots), 0))                          # copy, then merge the copy somewhere
            nslots += 1
            prog.append((2, rng.randrange(nslots), nslots - 1))
        elif c < 0.5:
            j = rng.randrange(nslots)
            prog.append((2, j, j))                                              # self-merge
        elif c < 0.65:
            v = (rng.randint(-9, 9), float(rng.randint(-9, 9))) if tag == 6 else rng.choice([rng.randint(-9, 9), rand_float(rng)])
            prog.append((3, rng.randrange(nslots), v))
    for _ in range(rng.randint(0, 3)):                                          # a few arbitrary steps
        prog.append((2, rng.randrange(nslots), rng.randrange(nslots)))
    # keep self-merges rare enough for the data not to explode
    if sum(1 for op, i, j in prog if op == 2 and i == j) > 2 or len(prog) > 16:
        prog = prog[:16]
        seen = 0
        out = []
        for st in prog:
            if st[0] == 2 and st[1] == st[2]:
                seen += 1
                if seen > 2:
                    continue
            out.append(st)
        prog = out
    return (tag, parts, prog)


FIXED_OBJECTS = [
    # the class named by the coordinator: empty receiver adopts a; a further non-empty merge; a second fold uses a again
    (5, [[1, 2], [7]], [(0, 0, 0), (2, 2, 0), (2, 2, 1), (0, 0, 0), (2, 3, 0), (2, 3, 1)]),
    (5, [[1, 2], [7], [10, 20, 30]], [(0, 0, 0), (2, 3, 0), (2, 3, 1), (2, 3, 2), (0, 0, 0), (2, 4, 2), (2, 4, 1), (2, 4, 0)]),
    # the same partial merged into two different receivers, the receiver merged back into the partial
    (5, [[3, 5]], [(0, 0, 0), (0, 0, 0), (2, 1, 0), (2, 2, 0), (3, 1, 100), (2, 0, 1)]),
    # copy(), then merge; self-merge of a receiver that adopted a partial
    (5, [[1.5, 2.5], [4]], [(0, 0, 0), (2, 2, 0), (1, 2, 0), (2, 3, 1), (2, 2, 2), (3, 0, 9)]),
    (6, [[(1, 2.0), (3, 1.0)], [(2, 2.0)]], [(0, 0, 0), (2, 2, 0), (2, 2, 1), (0, 0, 0), (2, 3, 0), (2, 3, 1), (2, 0, 3)]),
    (6, [[(0, 1)], [(1, 0), (2, 2)]], [(0, 0, 0), (0, 0, 0), (2, 2, 0), (2, 3, 0), (3, 2, (5, 5.0)), (1, 2, 0), (2, 4, 1)]),
]


SPECIAL = [float('inf'), float('-inf'), float('nan'), 1e308, -1e308, 1e200, 1e-320, 0.0, -0.0, 1.5]


def _corpus():
    d = os.path.join(os.environ.get('VERIF_ROOT', '/verif'), 'corpus', 'C17')
    out = []
    for f in sorted(glob.glob(os.path.join(d, '*.json'))):
        try:
            out.append(_listify(uncanon(json.load(open(f))['case'])))
        except (OSError, ValueError, KeyError):
            continue
    return out


def _listify(case):
    """corpus cases come back with tuples for rows; partitions / programs must be lists"""
    tag = case[0]
    if tag == 4:
        return (4, [[list(p) for p in parts] for parts in case[1]], [tuple(op) for op in case[2]])
    if tag in (5, 6):
        parts = [[tuple(r) if tag == 6 else r for r in p] for p in case[1]]
        return (tag, parts, [(op[0], op[1], tuple(op[2]) if isinstance(op[2], (list, tuple)) else op[2]) for op in case[2]])
    parts = [[tuple(r) if tag in (2, 3) else r for r in p] for p in case[1]]
    return (tag, parts) + tuple(list(x) for x in case[2:])


def generate(rng, tier):
    quick = tier == 'quick'
    cases = _corpus()
    # --- corner cases first
    for parts in ([[]], [[], []], [[], [], [], [], [], []], [[5]], [[], [5]], [[5], []], [[2.5], [2.5]],
                  [[1, 4, 9, 16, 25, 36]], [[1, 4], [9, 16], [25, 36]], [[1.5, 2.5]], [[1, 2, 3]], [[0, 4, 7, 4, 10]]):
        cases.append((0, parts))
        k = len(parts)
        for prog in (prog_left(k), prog_right(k), prog_left(k) + [-2]):
            cases.append((1, parts, prog))
    for parts in ([[]], [[], []], [[(1, 2.0)]], [[(1, 1), (2, 2)]], [[(1, 2.0)], [], [(2, 3.5), (4, 1.0)], [(7, 7.0)]],
                  [[(1.0, 5.0), (1.0, 6.0)]], [[(float(i), float(i)) for i in range(50)]]):
        cases.append((2, parts))
        k = len(parts)
        for prog in (prog_left(k), prog_right(k), prog_left(k) + [-2]):
            cases.append((3, parts, prog))

    # --- (a) small integers exhaustively x every composition into 1..6 partitions, through the RDD
    alphabet = [-1, 0, 2]
    max_len = 3 if quick else 4
    for n in range(0, max_len + 1):
        for xs in itertools.product(alphabet, repeat=n):
            for k in range(1, 7):
                for sizes in compositions(n, k):
                    cases.append((0, cut(xs, sizes)))
    # one richer list x every composition
    for xs in ([3, -7, 12, 5, 0], [1, 2, 3, 4, 5, 6]) if not quick else ([3, -7, 12, 5],):
        for k in range(1, 7):
            for sizes in compositions(len(xs), k):
                cases.append((0, cut(xs, sizes)))

    # --- (b) size-ratio branches: 11..60 elements, skewed partition sizes
    for _ in range(150 if quick else 1500):
        n = rng.randint(11, 60)
        xs = rand_number_list(rng, n)
        k = rng.randint(2, 6)
        sizes = skewed_sizes(rng, n, k) if rng.random() < 0.7 else random_sizes(rng, n, k)
        parts = cut(xs, sizes)
        if rng.random() < 0.5:
            cases.append((0, parts))
        else:
            for prog in merge_orders(rng, k, 2, 0.15)[:3 if quick else 6]:
                cases.append((1, parts, prog))

    # --- (c) floats of mixed magnitude x compositions
    for _ in range(2 if quick else 20):
        n = rng.randint(2, 5)
        xs = rand_number_list(rng, n)
        for k in range(1, 7):
            for sizes in compositions(n, k):   # all of them
                cases.append((0, cut(xs, sizes)))
    for _ in range(250 if quick else 4000):
        n = rng.randint(0, 14)
        xs = rand_number_list(rng, n)
        k = rng.randint(1, 6)
        cases.append((0, cut(xs, random_sizes(rng, n, k))))

    # --- (d) merge orders on StatCounter objects
    for _ in range(150 if quick else 2000):
        n = rng.randint(0, 16)
        xs = rand_number_list(rng, n)
        k = rng.randint(1, 6)
        parts = cut(xs, random_sizes(rng, n, k))
        for prog in merge_orders(rng, k, 3, 0.2)[:4 if quick else 8]:
            cases.append((1, parts, prog))
    # small ints: every composition x several merge orders
    for n in range(0, 4 if quick else 5):
        for xs in itertools.product([-1, 2], repeat=n):
            for k in range(1, 5 if quick else 7):
                for sizes in compositions(n, k):
                    parts = cut(xs, sizes)
                    for prog in merge_orders(rng, k, 1, 0.3)[:3]:
                        cases.append((1, parts, prog))

    # --- (e) covariance: DataFrame and CovarianceCounter merge orders
    for n in range(0, 3 if quick else 4):
        for ps in itertools.product([(0, 1), (1, 0), (2, 2)], repeat=n):
            for k in range(1, 5 if quick else 7):
                for sizes in compositions(n, k):
                    cases.append((2, cut(ps, sizes)))
    for _ in range(200 if quick else 2500):
        n = rng.choice([0, 1, 2, 3, 4, 5, 6, 8, 12, 20, 40])
        ps = rand_pairs(rng, n)
        k = rng.randint(1, 6)
        sizes = skewed_sizes(rng, n, k) if n >= 12 and rng.random() < 0.5 else random_sizes(rng, n, k)
        parts = cut(ps, sizes)
        cases.append((2, parts))
        for prog in merge_orders(rng, k, 2, 0.2)[:2 if quick else 4]:
            cases.append((3, parts, prog))

    # --- (f) sessions on REUSED RDD objects: summaries merged as receiver / argument / with themselves / updated, and
    #         the same RDDs asked again afterwards
    cases.extend(FIXED_SESSIONS)
    for _ in range(200 if quick else 3000):
        cases.append(rand_session(rng))
    # --- (g) pools of summary OBJECTS reused by several folds that start from EMPTY receivers (aliasing between partial
    #         summaries): every live object is compared after every step
    cases.extend(FIXED_OBJECTS)
    for _ in range(220 if quick else 2500):
        cases.append(rand_objects(rng, 5))
    for _ in range(80 if quick else 1000):
        cases.append(rand_objects(rng, 6))
    # RDDs whose first partitions are empty and whose sizes are very unequal (1 | >= 11 and >= 11 | 1)
    for _ in range(60 if quick else 600):
        n = rng.randint(12, 40)
        xs = rand_number_list(rng, n)
        lead = [[]] * rng.randint(0, 2)
        if rng.random() < 0.5:
            parts = lead + [xs[:1], xs[1:]]
        else:
            parts = lead + [xs[:-1], xs[-1:]]
        if rng.random() < 0.5:
            third = rand_number_list(rng, rng.randint(1, 3))
            parts = parts + [third]
        cases.append((0, parts))

    # --- non-finite / overflowing inputs: bit-exactness of the float model only (the oracle skips them)
    for _ in range(40 if quick else 400):
        n = rng.randint(1, 6)
        xs = [rng.choice(SPECIAL) for _ in range(n)]
        k = rng.randint(1, 4)
        parts = cut(xs, random_sizes(rng, n, k))
        cases.append((0, parts))
        cases.append((1, parts, prog_random(rng, list(range(k)), 0.2)))
        ps = [(float(rng.choice(SPECIAL)), float(rng.choice(SPECIAL))) for _ in range(n)]
        cases.append((3, cut(ps, random_sizes(rng, n, k)), prog_random(rng, list(range(k)), 0.2)))
    return cases


def _ranked(parts, pairs):
    """The same partition shape with every value replaced by its rank among the distinct values (small ints)."""
    flat = [v for p in parts for v in p]
    try:
        if pairs:
            rx = {v: i for i, v in enumerate(sorted({r[0] for r in flat}))}
            ry = {v: i for i, v in enumerate(sorted({r[1] for r in flat}))}
            return [[(rx[r[0]], ry[r[1]]) for r in p] for p in parts]
        rk = {v: i for i, v in enumerate(sorted(set(flat)))}
        return [[rk[v] for v in p] for p in parts]
    except TypeError:
        return parts


def _shrink_session(case):
    _, rdds, prog = case
    for i in range(len(prog)):
        yield (4, rdds, prog[:i] + prog[i + 1:])
    simple = [_ranked(parts, False) for parts in rdds]
    if simple != rdds:
        yield (4, simple, prog)
    for r, parts in enumerate(rdds):
        for i in range(len(parts)):
            if len(parts) > 1:
                yield (4, rdds[:r] + [parts[:i] + parts[i + 1:]] + rdds[r + 1:], prog)
        for i, p in enumerate(parts):
            for j in range(len(p)):
                yield (4, rdds[:r] + [parts[:i] + [p[:j] + p[j + 1:]] + parts[i + 1:]] + rdds[r + 1:], prog)
    for i, (op, arg) in enumerate(prog):
        if op == 3 and arg != 1:
            yield (4, rdds, prog[:i] + [(3, 1)] + prog[i + 1:])


def _shrink_objects(case):
    tag, parts, prog = case
    for n in range(1, len(prog)):                 # a prefix of the program first (the earliest wrong step)
        yield (tag, parts, prog[:n])
    for i in range(len(prog)):
        yield (tag, parts, prog[:i] + prog[i + 1:])
    simple = _ranked(parts, tag == 6)
    if simple != parts:
        yield (tag, simple, prog)
    for i, p in enumerate(parts):
        for j in range(len(p)):
            yield (tag, parts[:i] + [p[:j] + p[j + 1:]] + parts[i + 1:], prog)


def shrink_candidates(case):
    if case[0] in (5, 6):
        yield from _shrink_objects(case)
        return
    if case[0] == 4:
        yield from _shrink_session(case)
        return
    tag, parts = case[0], case[1]
    flat = [v for p in parts for v in p]
    simple = _ranked(parts, tag in (2, 3))
    if simple != parts or any(type(a) is not type(b) for p, q in zip(simple, parts) for a, b in zip(p, q)):
        yield (tag, simple) + tuple(case[2:])
    if tag in (0, 2):
        # fewer partitions, fewer elements, simpler values
        for i in range(len(parts)):
            if len(parts) > 1:
                yield (tag, parts[:i] + parts[i + 1:])
        for i, p in enumerate(parts):
            for j in range(len(p)):
                yield (tag, parts[:i] + [p[:j] + p[j + 1:]] + parts[i + 1:])
        for i in range(len(parts) - 1):
            yield (tag, parts[:i] + [parts[i] + parts[i + 1]] + parts[i + 2:])
        if tag == 0:
            for i, p in enumerate(parts):
                for j, v in enumerate(p):
                    for w in (0, 1, int(v) if isinstance(v, float) and math.isfinite(v) and abs(v) < 2 ** 53 else v):
                        if w != v or type(w) is not type(v):
                            yield (tag, parts[:i] + [p[:j] + [w] + p[j + 1:]] + parts[i + 1:])
    else:
        prog = case[2]
        # turn into the left-comb order, drop self-merges, drop elements
        if -2 in prog:
            q = list(prog)
            q.remove(-2)
            yield (tag, parts, q)
        k = len(parts)
        if prog != prog_left(k) and sorted(x for x in prog if x >= 0) == list(range(k)):
            yield (tag, parts, prog_left(k) + [-2] * prog.count(-2))
        for i, p in enumerate(parts):
            for j in range(len(p)):
                yield (tag, parts[:i] + [p[:j] + p[j + 1:]] + parts[i + 1:], prog)
        del flat


# ------------------------------------------------------------------------------------------- extra sweeps
_sweep = {}


def extra_checks(rng, tier, workdir):  # pylint: disable=unused-argument
    """Oracle-only exhaustive sweep on the StatCounter / CovarianceCounter API (no model involved):
    every list over a small alphabet up to a length bound x EVERY composition into 1..6 partitions x several
    merge orders (left = aggregate's order, right, balanced, reversed, with a final self-merge)."""
    quick = tier == 'quick'
    n_cases = 0
    alphabet = [-2, 1, 3] if quick else [-2, 0, 1, 3]
    max_len = 4 if quick else 6
    for n in range(0, max_len + 1):
        for xs in itertools.product(alphabet, repeat=n):
            if n >= 5 and rng.random() < (0.97 if n == 6 else 0.75):
                continue
            ref_n = n
            for k in range(1, 7):
                for sizes in compositions(n, k):
                    parts = cut(xs, sizes)
                    rev = list(range(k))[::-1]
                    progs = [prog_left(k), prog_right(k), prog_balanced(list(range(k))), prog_balanced(rev),
                             prog_left(k) + [-2]]
                    for prog in progs if (n <= 3 or k <= 3) else progs[:2]:
                        case = (1, parts, prog)
                        o = oracle(case, _impl(case))
                        n_cases += 1
                        if o is not None:
                            yield (o[0], o[1], f'sweep n={ref_n} sizes={sizes} prog={prog}', case)
                            return
    # large-ratio merges: a big summary against singletons and back, lengths up to 400
    for _ in range(30 if quick else 400):
        n = rng.randint(100, 400)
        xs = [rng.randint(-1000, 1000) for _ in range(n)] if rng.random() < 0.5 else [rand_float(rng) for _ in range(n)]
        k = rng.randint(2, 6)
        parts = cut(xs, skewed_sizes(rng, n, k))
        for prog in merge_orders(rng, k, 2, 0.1):
            case = (1, parts, prog)
            o = oracle(case, _impl(case))
            n_cases += 1
            if o is not None:
                yield (o[0], o[1], f'large skewed merge n={n}', case)
                return
        ps = list(zip(xs, [rand_float(rng) for _ in range(n)]))
        case = (3, cut(ps, skewed_sizes(rng, n, k)), prog_left(k))
        o = oracle(case, _impl(case))
        n_cases += 1
        if o is not None:
            yield (o[0], o[1], f'large skewed covariance merge n={n}', case)
            return
    _sweep['oracle_only_sweep_cases'] = n_cases


def extra_evidence():
    return dict(_sweep)
